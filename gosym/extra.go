package main

import "golang.org/x/tools/go/ssa"

type ssaFunction = ssa.Function

func (e *Engine) cryptoIntrinsic(fn *ssa.Function, full string, args []Value) (Value, bool) {
	return nil, false
}

func (e *Engine) harnessExtra(fn *ssa.Function, name string, args []Value) (Value, bool) {
	return nil, false
}

func (e *Engine) invokeIntrinsic(recv IfaceVal, name string, args []Value) (Value, bool) {
	return nil, false
}
