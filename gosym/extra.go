package main

import (
	"encoding/base64"
	"crypto/sha256"
	"go/types"
	"math"
	"math/bits"
	"strconv"
	"strings"

	"golang.org/x/tools/go/ssa"
)

type ssaFunction = ssa.Function

// AbsKey is the engine-native abstract jwk.Key.
type AbsKey struct {
	valid, hasAlg *Term
	algKind       int
	algName, kty  StrVal
	kid           StrVal
	id            int
}

type syncEnt struct{ k, v Value }

// RawKey is freshly generated key material (rsa/ecdsa/ed25519 private key).
type RawKey struct {
	kty string
	id  int
}

// AbsParseOpt is the engine-native jwk.ParseOption.
type AbsParseOpt struct{ ignoreParseError bool }

// AbsSet is the engine-native abstract jwk.Set.
type AbsSet struct{ keys []IfaceVal }

func (e *Engine) libNamed(pkgPath, name string) types.Type {
	for _, p := range e.sh.prog.AllPackages() {
		if p.Pkg.Path() == pkgPath {
			if t := p.Type(name); t != nil {
				return t.Type()
			}
		}
	}
	unsupported("type %s.%s not loaded", pkgPath, name)
	return nil
}

const jwaPath = "github.com/lestrrat-go/jwx/v2/jwa"

func (e *Engine) cryptoIntrinsic(fn *ssa.Function, full string, args []Value) (Value, bool) {
	if strings.HasPrefix(full, "maps.Clone[") || full == "maps.clone" {
		// shallow copy of a map (the runtime does it behind a linkname)
		var m MapVal
		switch x := args[0].(type) {
		case MapVal:
			m = x
		case IfaceVal:
			m, _ = x.val.(MapVal)
		}
		if m.m == nil {
			return args[0], true
		}
		n := &MapObj{}
		for _, en := range m.m.entries {
			n.entries = append(n.entries, &MapEntry{key: en.key, val: copyVal(en.val)})
		}
		if _, isI := args[0].(IfaceVal); isI {
			iv := args[0].(IfaceVal)
			return IfaceVal{typ: iv.typ, val: MapVal{n}}, true
		}
		return MapVal{n}, true
	}
	switch full {
	case "os.Open":
		if e.parseResult == nil {
			return nil, false
		}
		slot := new(Value)
		*slot = mkInt(0)
		return TupleVal{PtrVal{slot}, IfaceVal{}}, true
	case "(*os.File).Close":
		return IfaceVal{}, true
	case "io.ReadAll":
		if e.parseResult == nil {
			return nil, false
		}
		return TupleVal{JBytes{JNull{}}, IfaceVal{}}, true
	case "(*sync.Map).Load", "(*sync.Map).Store", "(*sync.Map).LoadOrStore", "(*sync.Map).Delete", "(*sync.Map).LoadAndDelete", "(*sync.Map).Swap":
		// a sync.Map is an association list hung off its address; one goroutine
		p := args[0].(PtrVal)
		ents := e.syncMaps[p.slot]
		find := func(k Value) int {
			for i, en := range ents {
				if e.decide(e.eq(en.k, k)) {
					return i
				}
			}
			return -1
		}
		i := find(args[1])
		switch fn.Name() {
		case "Load":
			if i < 0 {
				return TupleVal{IfaceVal{}, tFalse}, true
			}
			return TupleVal{ents[i].v, tTrue}, true
		case "Store":
			if i < 0 {
				e.syncMaps[p.slot] = append(ents, syncEnt{args[1], args[2]})
			} else {
				ents[i].v = args[2]
			}
			return nil, true
		case "Swap":
			if i < 0 {
				e.syncMaps[p.slot] = append(ents, syncEnt{args[1], args[2]})
				return TupleVal{IfaceVal{}, tFalse}, true
			}
			old := ents[i].v
			ents[i].v = args[2]
			return TupleVal{old, tTrue}, true
		case "LoadOrStore":
			if i < 0 {
				e.syncMaps[p.slot] = append(ents, syncEnt{args[1], args[2]})
				return TupleVal{args[2], tFalse}, true
			}
			return TupleVal{ents[i].v, tTrue}, true
		case "Delete", "LoadAndDelete":
			var old Value = IfaceVal{}
			if i >= 0 {
				old = ents[i].v
				e.syncMaps[p.slot] = append(append([]syncEnt{}, ents[:i]...), ents[i+1:]...)
			}
			if fn.Name() == "Delete" {
				return nil, true
			}
			return TupleVal{old, mkBool(i >= 0)}, true
		}
	case "(*sync.Once).Do":
		p := args[0].(PtrVal)
		if e.onceDone[p.slot] {
			return nil, true
		}
		e.onceDone[p.slot] = true
		e.callFuncVal(args[1].(FuncVal), nil)
		return nil, true
	case "internal/bytealg.CompareString", "strings.Compare", "internal/bytealg.Compare", "bytes.Compare":
		var a, b []*Term
		toBytes := func(v Value) []*Term {
			if sv, ok := v.(StrVal); ok {
				noAtom(sv)
				return sv.bytes
			}
			var out []*Term
			for _, x := range sliceElems(v.(SliceVal)) {
				out = append(out, x.(*Term))
			}
			return out
		}
		a, b = toBytes(args[0]), toBytes(args[1])
		for i := 0; i < len(a) && i < len(b); i++ {
			if e.decide(tEq(a[i], b[i])) {
				continue
			}
			if e.decide(tCmp("<", a[i], b[i])) {
				return mkInt(-1), true
			}
			return mkInt(1), true
		}
		switch {
		case len(a) < len(b):
			return mkInt(-1), true
		case len(a) > len(b):
			return mkInt(1), true
		}
		return mkInt(0), true
	case "strconv.ParseInt", "strconv.ParseUint", "strconv.Atoi":
		// the library's own code works on the full uint64 range, which the
		// engine's integers do not cover: concrete strings go to the real
		// library, short symbolic decimal strings are parsed digit by digit
		sv := args[0].(StrVal)
		base, bits64 := int64(10), int64(0)
		if fn.Name() != "Atoi" {
			bt, zt := args[1].(*Term), args[2].(*Term)
			if !bt.konst || !zt.konst {
				unsupported("%s with symbolic base or bit size", full)
			}
			base, bits64 = bt.iv, zt.iv
		}
		mkErr := func(msg string) Value {
			return TupleVal{mkInt(0), e.newError(mkStr(full + ": " + msg))}
		}
		if cs, ok := concreteStr(sv); ok {
			switch fn.Name() {
			case "Atoi":
				n, err := strconv.Atoi(cs)
				if err != nil {
					return mkErr(err.Error()), true
				}
				return TupleVal{mkInt(int64(n)), IfaceVal{}}, true
			case "ParseInt":
				n, err := strconv.ParseInt(cs, int(base), int(bits64))
				if err != nil {
					return TupleVal{mkInt(n), e.newError(mkStr(err.Error()))}, true
				}
				return TupleVal{mkInt(n), IfaceVal{}}, true
			default:
				n, err := strconv.ParseUint(cs, int(base), int(bits64))
				if err != nil {
					return mkErr(err.Error()), true
				}
				if n >= 1<<62 {
					unsupported("strconv.ParseUint result outside the integer range of the engine")
				}
				return TupleVal{mkInt(int64(n)), IfaceVal{}}, true
			}
		}
		noAtom(sv)
		if base != 10 || len(sv.bytes) > 9 || (bits64 != 0 && bits64 != 64) {
			unsupported("%s of a symbolic string (base %d, %d bytes)", full, base, len(sv.bytes))
		}
		bs := sv.bytes
		neg := false
		if len(bs) > 0 && fn.Name() != "ParseUint" {
			if e.decide(tEq(bs[0], mkInt('-'))) {
				neg, bs = true, bs[1:]
			} else if e.decide(tEq(bs[0], mkInt('+'))) {
				bs = bs[1:]
			}
		}
		if len(bs) == 0 {
			return mkErr("invalid syntax"), true
		}
		val := mkInt(0)
		for _, b := range bs {
			if !e.decide(tAnd(tCmp(">=", b, mkInt('0')), tCmp("<=", b, mkInt('9')))) {
				return mkErr("invalid syntax"), true
			}
			val = tArith("+", tArith("*", val, mkInt(10)), tArith("-", b, mkInt('0')))
		}
		if neg {
			val = tArith("-", mkInt(0), val)
		}
		return TupleVal{val, IfaceVal{}}, true
	case "strconv.FormatFloat", "strconv.AppendFloat":
		// concrete floats: the real library decides the digits
		off := 0
		if fn.Name() == "AppendFloat" {
			off = 1
		}
		f, okF := args[off].(FloatVal)
		fm, okM := args[off+1].(*Term)
		pr, okP := args[off+2].(*Term)
		bs, okB := args[off+3].(*Term)
		if !okF || !okM || !okP || !okB || !fm.konst || !pr.konst || !bs.konst {
			unsupported("%s with symbolic arguments", full)
		}
		txt := strconv.FormatFloat(f.f, byte(fm.iv), int(pr.iv), int(bs.iv))
		if off == 0 {
			return mkStr(txt), true
		}
		dst, _ := args[0].(SliceVal)
		elems := append([]Value{}, sliceElems(dst)...)
		for i := 0; i < len(txt); i++ {
			elems = append(elems, mkInt(int64(txt[i])))
		}
		return mkSlice(elems), true
	case "strconv.ParseFloat":
		if cs, ok := concreteStr(args[0]); ok {
			bs := args[1].(*Term)
			if !bs.konst {
				unsupported("strconv.ParseFloat with symbolic bit size")
			}
			f, err := strconv.ParseFloat(cs, int(bs.iv))
			if err != nil {
				return TupleVal{FloatVal{f}, e.newError(mkStr("strconv.ParseFloat: " + err.Error()))}, true
			}
			return TupleVal{FloatVal{f}, IfaceVal{}}, true
		}
		unsupported("strconv.ParseFloat of a symbolic string")
	case "math.Float64bits":
		if f, ok := args[0].(FloatVal); ok {
			b := math.Float64bits(f.f)
			if b < 1<<62 {
				return mkInt(int64(b)), true
			}
		}
		unsupported("math.Float64bits outside the integer range of the engine")
	case "math.IsNaN":
		if f, ok := args[0].(FloatVal); ok {
			return mkBool(math.IsNaN(f.f)), true
		}
	case "math.IsInf":
		if f, ok := args[0].(FloatVal); ok {
			if s, ok := args[1].(*Term); ok && s.konst {
				return mkBool(math.IsInf(f.f, int(s.iv))), true
			}
		}
	case "math.Floor", "math.Ceil", "math.Trunc", "math.Abs":
		if f, ok := args[0].(FloatVal); ok {
			switch fn.Name() {
			case "Floor":
				return FloatVal{math.Floor(f.f)}, true
			case "Ceil":
				return FloatVal{math.Ceil(f.f)}, true
			case "Trunc":
				return FloatVal{math.Trunc(f.f)}, true
			default:
				return FloatVal{math.Abs(f.f)}, true
			}
		}
	case "math/bits.Len", "math/bits.Len64", "math/bits.Len32", "math/bits.Len8", "math/bits.Len16",
		"math/bits.TrailingZeros", "math/bits.TrailingZeros64", "math/bits.TrailingZeros32", "math/bits.OnesCount", "math/bits.OnesCount64", "math/bits.LeadingZeros64", "math/bits.LeadingZeros":
		x := args[0].(*Term)
		if !x.konst {
			unsupported("%s of a symbolic value", full)
		}
		u := uint64(x.iv)
		switch fn.Name() {
		case "Len", "Len64", "Len32", "Len16", "Len8":
			return mkInt(int64(bits.Len64(u))), true
		case "TrailingZeros", "TrailingZeros64":
			return mkInt(int64(bits.TrailingZeros64(u))), true
		case "TrailingZeros32":
			return mkInt(int64(bits.TrailingZeros32(uint32(u)))), true
		case "OnesCount", "OnesCount64":
			return mkInt(int64(bits.OnesCount64(u))), true
		case "LeadingZeros", "LeadingZeros64":
			return mkInt(int64(bits.LeadingZeros64(u))), true
		}
	case "(*sync.Mutex).Lock", "(*sync.Mutex).Unlock", "(*sync.RWMutex).Lock", "(*sync.RWMutex).Unlock", "(*sync.RWMutex).RLock", "(*sync.RWMutex).RUnlock":
		return nil, true // one goroutine: locks are no-ops
	case "github.com/lestrrat-go/jwx/v2/jwk.Parse":
		if e.parseResult == nil {
			return nil, false
		}
		if e.parseBroken {
			// an entry the library cannot parse fails the whole document unless
			// the caller asked for such entries to be skipped
			lenient := false
			if len(args) > 1 {
				for _, o := range variadic(args[1]) {
					if oi, ok := o.(IfaceVal); ok {
						if obj, ok := opaqueObj(oi); ok {
							if po, ok := obj.(*AbsParseOpt); ok && po.ignoreParseError {
								lenient = true
							}
						}
					}
				}
			}
			if !lenient {
				return TupleVal{IfaceVal{}, e.newError(mkStr("jwk.Parse: failed to unmarshal JWK set"))}, true
			}
		}
		return TupleVal{*e.parseResult, IfaceVal{}}, true
	case "crypto/rsa.GenerateKey", "crypto/ecdsa.GenerateKey", "crypto/ed25519.GenerateKey":
		// fresh key material of the function's key type; generation itself is the library's
		e.atomSeq++
		kty := map[string]string{"crypto/rsa.GenerateKey": "RSA", "crypto/ecdsa.GenerateKey": "EC", "crypto/ed25519.GenerateKey": "OKP"}[full]
		slot := new(Value)
		*slot = &RawKey{kty: kty, id: e.atomSeq}
		raw := IfaceVal{typ: e.sh.marks.opaque, val: PtrVal{slot}}
		_ = raw
		if full == "crypto/ed25519.GenerateKey" {
			return TupleVal{PtrVal{slot}, PtrVal{slot}, IfaceVal{}}, true
		}
		return TupleVal{PtrVal{slot}, IfaceVal{}}, true
	case "crypto/elliptic.P521", "crypto/elliptic.P256", "crypto/elliptic.P384":
		return IfaceVal{typ: e.sh.marks.opaque, val: PtrVal{new(Value)}}, true
	case "github.com/lestrrat-go/jwx/v2/jwk.FromRaw":
		var rk *RawKey
		switch a := args[0].(type) {
		case IfaceVal:
			if p, ok := a.val.(PtrVal); ok && p.slot != nil {
				rk, _ = (*p.slot).(*RawKey)
			}
		}
		if rk == nil {
			unsupported("jwk.FromRaw of key material the engine did not generate")
		}
		k := &AbsKey{valid: tTrue, hasAlg: tFalse, kty: mkStr(rk.kty), id: rk.id}
		slot := new(Value)
		*slot = k
		return TupleVal{IfaceVal{typ: e.sh.marks.opaque, val: PtrVal{slot}}, IfaceVal{}}, true
	case "github.com/lestrrat-go/jwx/v2/jwk.PublicKeyOf":
		orig, ok := opaqueObj(args[0])
		ak, ok2 := orig.(*AbsKey)
		if !ok || !ok2 {
			unsupported("jwk.PublicKeyOf of a non-abstract key")
		}
		cp := *ak // the public half carries the private key's attributes
		slot := new(Value)
		*slot = &cp
		return TupleVal{IfaceVal{typ: e.sh.marks.opaque, val: PtrVal{slot}}, IfaceVal{}}, true
	case "github.com/lestrrat-go/jwx/v2/jwk.NewSet":
		slot := new(Value)
		*slot = &AbsSet{}
		return IfaceVal{typ: e.sh.marks.opaque, val: PtrVal{slot}}, true
	case "(*encoding/base64.Encoding).EncodeToString", "(*encoding/base64.Encoding).DecodeString":
		// the four standard encodings on concrete data, by the real library
		enc := map[string]*base64.Encoding{"encoding/base64.StdEncoding": base64.StdEncoding, "encoding/base64.URLEncoding": base64.URLEncoding,
			"encoding/base64.RawStdEncoding": base64.RawStdEncoding, "encoding/base64.RawURLEncoding": base64.RawURLEncoding}
		var which *base64.Encoding
		if p, ok := args[0].(PtrVal); ok && p.slot != nil {
			if n, ok := (*p.slot).(StrVal); ok {
				if name, conc := concreteStr(n); conc {
					which = enc[name]
				}
			}
		}
		if which == nil {
			return nil, false
		}
		if fn.Name() == "EncodeToString" {
			sl, ok := args[1].(SliceVal)
			if !ok {
				return nil, false
			}
			raw := []byte{}
			for _, b := range sliceElems(sl) {
				t, ok := b.(*Term)
				if !ok || !t.konst {
					unsupported("base64 of symbolic bytes")
				}
				raw = append(raw, byte(t.iv))
			}
			return mkStr(which.EncodeToString(raw)), true
		}
		str, conc := concreteStr(args[1].(StrVal))
		if !conc {
			// a symbolic string of a few bytes cannot be the encoding of anything the code compares it with here
			unsupported("base64 decoding of a symbolic string")
		}
		raw, err := which.DecodeString(str)
		if err != nil {
			return TupleVal{SliceVal{}, e.newError(mkStr("illegal base64 data"))}, true
		}
		var bs []Value
		for _, c := range raw {
			bs = append(bs, mkInt(int64(c)))
		}
		return TupleVal{mkSlice(bs), IfaceVal{}}, true
	case "(crypto.Hash).Size":
		sizes := map[int64]int64{3: 20, 4: 28, 5: 32, 6: 48, 7: 64}
		if t, ok := args[0].(*Term); ok && t.konst && sizes[t.iv] != 0 {
			return mkInt(sizes[t.iv]), true
		}
		return nil, false
	case "github.com/lestrrat-go/jwx/v2/jwk.WithIgnoreParseError":
		slot := new(Value)
		*slot = &AbsParseOpt{ignoreParseError: e.decide(args[0].(*Term))}
		return IfaceVal{typ: e.sh.marks.opaque, val: PtrVal{slot}}, true
	}
	return e.sigIntrinsic(fn, full, args)
}

func (e *Engine) harnessExtra(fn *ssa.Function, name string, args []Value) (Value, bool) {
	switch name {
	case "vpAbstractKey":
		e.atomSeq++
		k := &AbsKey{valid: args[0].(*Term), hasAlg: args[1].(*Term), algKind: e.concretize(args[2].(*Term), 0, 2),
			algName: args[3].(StrVal), kty: args[4].(StrVal), kid: args[5].(StrVal), id: e.atomSeq}
		slot := new(Value)
		*slot = k
		return IfaceVal{typ: e.sh.marks.opaque, val: PtrVal{slot}}, true
	case "vpAbstractKeyLike": // (orig, hasAlg, algKind, algName, kid): same key material and type, other attributes
		orig, ok := opaqueObj(args[0])
		ok2 := false
		var ok_ *AbsKey
		if ok {
			ok_, ok2 = orig.(*AbsKey)
		}
		if !ok2 {
			unsupported("vpAbstractKeyLike of a non-abstract key")
		}
		k := &AbsKey{valid: ok_.valid, hasAlg: args[1].(*Term), algKind: e.concretize(args[2].(*Term), 0, 2),
			algName: args[3].(StrVal), kty: ok_.kty, kid: args[4].(StrVal), id: ok_.id}
		slot := new(Value)
		*slot = k
		return IfaceVal{typ: e.sh.marks.opaque, val: PtrVal{slot}}, true
	case "vpAbstractSet":
		s := &AbsSet{}
		for _, k := range variadic(args[0]) {
			s.keys = append(s.keys, k.(IfaceVal))
		}
		slot := new(Value)
		*slot = s
		return IfaceVal{typ: e.sh.marks.opaque, val: PtrVal{slot}}, true
	case "vpKeySetFile":
		v := Value(args[0])
		e.parseResult = &v
		return mkStr("vp://keyset"), true
	case "vpKeySetFileBroken": // (set, at, kid): the file also holds an unparseable entry at index `at` (none when negative)
		v := Value(args[0])
		e.parseResult = &v
		e.parseBroken = e.concretize(args[1].(*Term), -1, 8) >= 0
		return mkStr("vp://keyset"), true
	case "vpYAMLText": // (node): the document as text - here the node tree itself, read back by the decoder model
		np, ok := args[0].(PtrVal)
		if !ok || np.slot == nil {
			unsupported("vpYAMLText of a nil node")
		}
		return YBytes{root: np}, true
	case "vpCleanup":
		return nil, true
	}
	return e.sigHarnessExtra(fn, name, args)
}

func (e *Engine) invokeIntrinsic(recv IfaceVal, method *types.Func, args []Value) (Value, bool) {
	name := method.Name()
	p, ok := recv.val.(PtrVal)
	if !ok || p.slot == nil || recv.typ != e.sh.marks.opaque {
		return nil, false
	}
	if v, ok := e.sigInvoke(*p.slot, recv, method, args); ok {
		return v, true
	}
	switch obj := (*p.slot).(type) {
	case *AbsKey:
		switch name {
		case "Validate":
			if e.decide(obj.valid) {
				return IfaceVal{}, true
			}
			return e.newError(mkStr("jwk: invalid key")), true
		case "Get":
			field := e.mustStr(args[0], "jwk.Key.Get field")
			switch field {
			case "alg":
				if e.decide(obj.hasAlg) {
					return TupleVal{e.absAlg(obj), tTrue}, true
				}
				return TupleVal{IfaceVal{}, tFalse}, true
			case "kid":
				if len(obj.kid.bytes) == 0 {
					return TupleVal{IfaceVal{}, tFalse}, true
				}
				return TupleVal{IfaceVal{typ: types.Typ[types.String], val: obj.kid}, tTrue}, true
			}
			unsupported("jwk.Key.Get(%q)", field)
		case "Algorithm":
			if e.decide(obj.hasAlg) {
				return e.absAlg(obj), true
			}
			// jwx returns an invalid (empty) key algorithm when none is set
			return IfaceVal{typ: e.libNamed(jwaPath, "InvalidKeyAlgorithm"), val: StrVal{}}, true
		case "Set":
			// attributes of a key: alg (a jwa algorithm value or its name), kid, use;
			// the key material is not touched
			field := e.mustStr(args[0], "jwk.Key.Set field")
			vi, _ := args[1].(IfaceVal)
			switch field {
			case "alg":
				sv, isStr := vi.val.(StrVal)
				if !isStr {
					return e.newError(mkStr("jwk: invalid value for alg")), true
				}
				kind := 2
				if n, ok := vi.typ.(*types.Named); ok {
					switch n.Obj().Name() {
					case "SignatureAlgorithm":
						kind = 0
					case "KeyEncryptionAlgorithm":
						kind = 1
					}
				}
				if kind == 2 {
					unsupported("jwk.Key.Set(alg) with a value that is not a jwa algorithm")
				}
				obj.hasAlg, obj.algKind, obj.algName = tTrue, kind, sv
				return IfaceVal{}, true
			case "kid":
				sv, isStr := vi.val.(StrVal)
				if !isStr {
					return e.newError(mkStr("jwk: invalid value for kid")), true
				}
				obj.kid = sv
				return IfaceVal{}, true
			case "use":
				return IfaceVal{}, true
			}
			unsupported("jwk.Key.Set(%q)", field)
		case "KeyType":
			return obj.kty, true
		case "KeyID":
			return obj.kid, true
		case "PublicKey":
			return TupleVal{recv, IfaceVal{}}, true
		case "Thumbprint":
			// RFC 7638: a function of the key type and key material only (not of
			// alg, kid or use); injective on material identities
			if !e.decide(obj.valid) {
				return TupleVal{SliceVal{}, e.newError(mkStr("jwk: cannot compute the thumbprint of an incomplete key"))}, true
			}
			// 32 bytes, as a SHA-256 thumbprint has: a fixed hash of (key type, material identity)
			kty, conc := concreteStr(obj.kty)
			if !conc {
				unsupported("thumbprint of a key with a symbolic key type")
			}
			sum := sha256.Sum256([]byte(kty + ":" + strconv.Itoa(obj.id)))
			var bs []Value
			for _, c := range sum {
				bs = append(bs, mkInt(int64(c)))
			}
			return TupleVal{mkSlice(bs), IfaceVal{}}, true
		}
		unsupported("abstract jwk.Key method %s", name)
	case *AbsSet:
		switch name {
		case "Len":
			return mkInt(int64(len(obj.keys))), true
		case "Key":
			i := e.concretize(args[0].(*Term), -1, len(obj.keys))
			if i < 0 || i >= len(obj.keys) {
				return TupleVal{IfaceVal{}, tFalse}, true
			}
			return TupleVal{obj.keys[i], tTrue}, true
		case "AddKey":
			obj.keys = append(obj.keys, args[0].(IfaceVal))
			return IfaceVal{}, true
		case "LookupKeyID":
			want := args[0].(StrVal)
			for _, k := range obj.keys {
				ak := (*k.val.(PtrVal).slot).(*AbsKey)
				if e.decide(strEq(ak.kid, want)) {
					return TupleVal{k, tTrue}, true
				}
			}
			return TupleVal{IfaceVal{}, tFalse}, true
		}
		unsupported("abstract jwk.Set method %s", name)
	}
	return nil, false
}

func (e *Engine) absAlg(k *AbsKey) IfaceVal {
	tn := []string{"SignatureAlgorithm", "KeyEncryptionAlgorithm", "InvalidKeyAlgorithm"}[k.algKind]
	return IfaceVal{typ: e.libNamed(jwaPath, tn), val: k.algName}
}
