package main

import (
	"bufio"
	"bytes"
	"encoding/json"
	"fmt"
	"os"
	"os/exec"
	"path/filepath"
	"strings"
	"time"
)

// ReplayFile is what the native test reads (see harness/replay_test.go.txt).
type ReplayFile struct {
	Property string         `json:"property"`
	Pkg      string         `json:"pkg"`
	Harness  string         `json:"harness"`
	Script   []ScriptEntry  `json:"script"`
	Params   map[string]int `json:"params"`
	Repeat   int            `json:"repeat,omitempty"`
	Expect   string         `json:"expect"` // "pass", "fail:<label>", "panic"
	Kind     string         `json:"kind,omitempty"`
	Label    string         `json:"label,omitempty"`
	Notes    []string       `json:"notes,omitempty"`
}

// nativeReplay runs the given replay files against the real build of /repo
// (harness injected through `go test -overlay`) and returns outcome per file.
func nativeReplay(dir string, files []string, validate ...string) (map[string]string, string, error) {
	out := map[string]string{}
	if len(files) == 0 && len(validate) == 0 {
		return out, "", nil
	}
	pkgName := pkgNameFor(dir)
	srcs, err := harnessSources(dir, pkgName, true)
	if err != nil {
		return nil, "", err
	}
	tmp, err := os.MkdirTemp("", "vpreplay-")
	if err != nil {
		return nil, "", err
	}
	defer os.RemoveAll(tmp)
	repl := map[string]string{}
	for name, b := range srcs {
		real := filepath.Join(tmp, name)
		if err := os.WriteFile(real, b, 0o644); err != nil {
			return nil, "", err
		}
		repl[filepath.Join(repoDir, dir, name)] = real
	}
	ov, _ := json.Marshal(map[string]any{"Replace": repl})
	ovPath := filepath.Join(tmp, "overlay.json")
	if err := os.WriteFile(ovPath, ov, 0o644); err != nil {
		return nil, "", err
	}
	pat := "./" + dir
	if dir == "." || dir == "" {
		pat = "."
	}
	args := []string{"test", "-tags", "verif", "-overlay", ovPath, "-vet=off", "-count=1", "-run", "^TestVpReplay$", "-timeout", "20m", "-v", pat}
	cmd := exec.Command("go", args...)
	cmd.Dir = repoDir
	cmd.Env = append(os.Environ(), "GOFLAGS=-mod=mod", "GOPROXY=off", "GOSUMDB=off", "GOTOOLCHAIN=local",
		"VP_REPLAY="+strings.Join(files, ":"), "VP_VALIDATE="+strings.Join(validate, ","), "VP_TIER="+currentTier, "GOCACHE="+goCacheDir())
	var buf bytes.Buffer
	cmd.Stdout = &buf
	cmd.Stderr = &buf
	done := make(chan error, 1)
	if err := cmd.Start(); err != nil {
		return nil, "", err
	}
	go func() { done <- cmd.Wait() }()
	select {
	case <-done:
	case <-time.After(25 * time.Minute):
		cmd.Process.Kill()
		return nil, buf.String(), fmt.Errorf("native replay timed out")
	}
	sc := bufio.NewScanner(bytes.NewReader(buf.Bytes()))
	sc.Buffer(make([]byte, 1<<20), 1<<24)
	for sc.Scan() {
		line := sc.Text()
		if strings.HasPrefix(line, "VPMODEL name=") {
			rest := strings.TrimPrefix(line, "VPMODEL name=")
			if i := strings.Index(rest, " "); i > 0 {
				out["model:"+rest[:i]] = rest[i+1:]
			}
			continue
		}
		if !strings.HasPrefix(line, "VPRESULT file=") {
			continue
		}
		rest := strings.TrimPrefix(line, "VPRESULT file=")
		i := strings.Index(rest, " outcome=")
		if i < 0 {
			continue
		}
		out[rest[:i]] = rest[i+len(" outcome="):]
	}
	if len(out) == 0 {
		return out, buf.String(), fmt.Errorf("native replay produced no results (build failure?)")
	}
	return out, buf.String(), nil
}

func goCacheDir() string {
	if v := os.Getenv("GOCACHE"); v != "" {
		return v
	}
	h, _ := os.UserCacheDir()
	return filepath.Join(h, "go-build")
}

// reproduces says whether a native outcome confirms a solver counterexample.
func reproduces(f *ReplayFile, outcome string) bool {
	switch f.Kind {
	case "assert":
		return outcome == "fail:"+f.Label
	case "panic":
		return strings.HasPrefix(outcome, "panic:")
	}
	return false
}

var currentTier = "quick"
