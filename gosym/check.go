package main

import (
	"encoding/json"
	"fmt"
	"os"
	"path/filepath"
	"sort"
	"strings"
	"time"
)

// HSpec describes one harness of a property.
type HSpec struct {
	Pkg           string         // repo package dir ("." for the root package)
	Name          string         // registered harness name; the function is vpH_<Name>
	Quick         map[string]int // parameters (bounds) per tier
	Thorough      map[string]int
	Unwind        [2]int   // loop bound quick/thorough
	Budget        [2]int   // wall-clock budget in seconds quick/thorough
	ThoroughOnly  bool     // not run in the quick tier
	Models        []string // "lib.Func=vpModelFunc" replacements
	FixedMapOrder bool     // range over Go maps in insertion order only (order-sensitivity is decided elsewhere; stated in evidence)
	Validate      []string // native model validations to run (names registered with vpRegisterModelCheck)
	What          string   // one line: what it decides
}

// PropSpec is the registry entry of a property.
type PropSpec struct {
	ID          string
	Harnesses   []HSpec
	Extra       func(r *PropRun) // non-engine obligations (SSA passes, regex equivalence)
	Outside     []string         // what lies outside the bounds / claim
	Assumptions []string         // models, stubs, contracts relied upon
}

// HResult is the outcome of one harness.
type HResult struct {
	Spec      HSpec
	Params    map[string]int
	Unwind    int
	Stats     Stats
	Findings  []Finding
	FindCount map[string]int
	Samples   []Sample
	Funcs     []string
	Asserts   map[string]int
	Covers    map[string]int
	Inconcl   map[string]int
	WallS     float64
	LoadErr   string
}

// PropRun accumulates everything a run of one property produced.
type PropRun struct {
	Spec            PropSpec
	Tier            string
	Seed            int
	Results         []*HResult
	Extra           []ExtraResult
	Started         time.Time
	Inconclusive    []string
	ModelValidation []string
}

type ExtraResult struct {
	Name           string   `json:"name"`
	Obligations    int      `json:"obligations"`
	Discharged     int      `json:"discharged"`
	Detail         []string `json:"detail,omitempty"`
	Violations     []string `json:"violations,omitempty"`
	SolverS        float64  `json:"solver_s"`
	Inconclusive   []string `json:"inconclusive,omitempty"`
	Witness        string   `json:"witness,omitempty"` // a concrete input to replay natively through WitnessHarness
	WitnessHarness string   `json:"witness_harness,omitempty"`
	WitnessPkg     string   `json:"witness_pkg,omitempty"`
}

func tierIndex(tier string) int {
	if tier == "thorough" {
		return 1
	}
	return 0
}

// runProperty executes all harnesses of a property.
func runProperty(spec PropSpec, tier string, seed, workers int, solver string) *PropRun {
	run := &PropRun{Spec: spec, Tier: tier, Seed: seed, Started: time.Now()}
	ti := tierIndex(tier)
	loaded := map[string]*Loaded{}
	loadErrs := map[string]string{}
	for _, hs := range spec.Harnesses {
		if hs.ThoroughOnly && ti == 0 {
			continue
		}
		res := &HResult{Spec: hs}
		run.Results = append(run.Results, res)
		res.Params = hs.Quick
		if ti == 1 && hs.Thorough != nil {
			res.Params = hs.Thorough
		}
		res.Unwind = hs.Unwind[ti]
		if res.Unwind == 0 {
			res.Unwind = 24
		}
		budget := hs.Budget[ti]
		if budget == 0 {
			budget = []int{120, 900}[ti]
		}
		ld, ok := loaded[hs.Pkg]
		if !ok && loadErrs[hs.Pkg] == "" {
			l, err := loadPackage(hs.Pkg)
			if err != nil {
				loadErrs[hs.Pkg] = err.Error()
			} else {
				loaded[hs.Pkg] = l
				ld = l
			}
		}
		if ld == nil {
			res.LoadErr = loadErrs[hs.Pkg]
			run.Inconclusive = append(run.Inconclusive, fmt.Sprintf("harness %s: cannot load %s with harness overlay: %s", hs.Name, hs.Pkg, res.LoadErr))
			continue
		}
		fn := ld.pkg.Func("vpH_" + hs.Name)
		if fn == nil {
			res.LoadErr = "harness function vpH_" + hs.Name + " not available"
			if len(ld.dropped) > 0 {
				res.LoadErr += ": harness file no longer type-checks against the tree: " + strings.Join(ld.dropped, "; ")
			}
			run.Inconclusive = append(run.Inconclusive, res.LoadErr)
			continue
		}
		sh := &Shared{
			prog: ld.prog, pkg: ld.pkg, harness: fn, hname: hs.Name, params: res.Params,
			unwind: res.Unwind, modPath: modulePath, marks: newMarkers(), tier: tier,
			replace: map[string]*ssaFunction{}, fixedMapOrder: hs.FixedMapOrder, seed: seed,
			deadline: time.Now().Add(time.Duration(budget) * time.Second),
		}
		for _, m := range hs.Models {
			parts := strings.SplitN(m, "=", 2)
			mf := ld.pkg.Func(parts[1])
			if mf == nil {
				run.Inconclusive = append(run.Inconclusive, "model function "+parts[1]+" not found")
				continue
			}
			sh.replace[parts[0]] = mf
		}
		if tier == "thorough" {
			sh.secondSolver = "cvc5"
			if solver == "cvc5" {
				sh.secondSolver = "z3-new"
			}
		}
		t0 := time.Now()
		sh.Explore(workers, solver)
		res.WallS = time.Since(t0).Seconds()
		res.Stats = sh.stats
		res.Findings = sh.findings
		res.FindCount = sh.findKeys
		res.Samples = sh.samples
		res.Asserts = sh.assertSites
		res.Covers = sh.coverSites
		res.Inconcl = sh.inconclusive
		for f := range sh.funcsSeen {
			res.Funcs = append(res.Funcs, f)
		}
		sort.Strings(res.Funcs)
		fmt.Printf("[%s] %s: paths=%d completed=%d assume-killed=%d outside=%d forks=%d asserts=%d failed=%d panics=%d unwind=%d unsupported=%d unknown=%d queries=%d solver=%.1fs wall=%.1fs%s\n",
			spec.ID, hs.Name, res.Stats.Paths, res.Stats.Completed, res.Stats.AssumeKilled, res.Stats.Outside, res.Stats.Forks,
			res.Stats.AssertsChecked, res.Stats.AssertsFailed, res.Stats.Panics, res.Stats.Unwind, res.Stats.Unsupported, res.Stats.Unknown,
			res.Stats.FeasQueries+res.Stats.AssertQueries, res.Stats.SolverSec, res.WallS, budgetNote(res.Stats))
		for _, k := range sortedKeys(res.Inconcl) {
			fmt.Printf("    INCONCLUSIVE %s (x%d)\n", k, res.Inconcl[k])
		}
	}
	if spec.Extra != nil {
		spec.Extra(run)
	}
	return run
}

func budgetNote(s Stats) string {
	if s.BudgetExhausted {
		return " BUDGET-EXHAUSTED (reduced coverage)"
	}
	return ""
}

// ---------------------------------------------------------------------------
// Known findings

type KnownFinding struct {
	Property string `json:"property"`
	Status   string `json:"status"` // "known" or "fixed"
	Harness  string `json:"harness,omitempty"`
	Label    string `json:"label,omitempty"` // assertion label (or panic message prefix) identifying the failing class
	What     string `json:"what"`
	Commit   string `json:"commit,omitempty"`
}

func loadKnownFindings() []KnownFinding {
	b, err := os.ReadFile(filepath.Join(verifDir, "known_findings.json"))
	if err != nil {
		return nil
	}
	var f struct {
		Findings []KnownFinding `json:"findings"`
	}
	if json.Unmarshal(b, &f) != nil {
		return nil
	}
	return f.Findings
}

func matchKnown(kfs []KnownFinding, prop, harness, label string) *KnownFinding {
	for i := range kfs {
		k := &kfs[i]
		if k.Status != "known" || k.Property != prop {
			continue
		}
		if k.Harness != "" && k.Harness != harness {
			continue
		}
		if k.Label != "" && !strings.HasPrefix(label, k.Label) {
			continue
		}
		return k
	}
	return nil
}
