package main

// The property registry: which harnesses decide which property, with the
// quick and thorough bounds (only bounds that ran clean on the unchanged tree
// are registered).

var commonAssumptions = []string{
	"Go semantics as implemented by the gosym SSA interpreter (validated by native replay of sampled paths through the same harness)",
	"integers are mathematical integers; every integer in the explored code is an index/length far below 2^63, so no wrap-around is reachable within the bounds",
	"strings are byte vectors of concrete length with symbolic bytes (ASCII classes stated per harness)",
	"Go maps: all iteration orders of maps with up to 4 entries and all rotations of larger maps are explored as fork choices (unless a harness states insertion order only); entries inserted during iteration are produced or skipped (both explored, at most one production per loop)",
}

func registry() map[string]PropSpec {
	r := map[string]PropSpec{}
	add := func(p PropSpec) {
		p.Assumptions = append(append([]string{}, commonAssumptions...), p.Assumptions...)
		r[p.ID] = p
	}

	add(PropSpec{
		ID: "C05",
		Harnesses: []HSpec{
			{Pkg: "ordered", Name: "c05_step", Quick: map[string]int{"slots": 4}, Thorough: map[string]int{"slots": 6}, Unwind: [2]int{16, 24},
				What: "inductive step: Set/Replace/Delete with arbitrary arguments from an arbitrary state satisfying the representation invariant; post-state satisfies RI, equals the list model, and all observers agree"},
			{Pkg: "ordered", Name: "c05_obs", Quick: map[string]int{"slots": 4}, Thorough: map[string]int{"slots": 6}, Unwind: [2]int{16, 24},
				What: "observers Len/IsZero/Get/Contains/Range/ToMap on arbitrary RI states agree with the model and do not write"},
			{Pkg: "ordered", Name: "c05_equal", Quick: map[string]int{"slots": 3}, Thorough: map[string]int{"slots": 4}, Unwind: [2]int{16, 24},
				What: "Equal on two arbitrary RI states is model equality, symmetric, reflexive, panic-free, read-only"},
			{Pkg: "ordered", Name: "c05_range_rename", Quick: map[string]int{"slots": 4}, Thorough: map[string]int{"slots": 6}, Unwind: [2]int{16, 24},
				What: "Replace from inside a Range callback: no revisits, callbacks see live entries, final state equals model"},
			{Pkg: "ordered", Name: "c05_history", Quick: map[string]int{"ops": 3}, Thorough: map[string]int{"ops": 5}, Unwind: [2]int{16, 24},
				What: "bounded histories through the public API from NewMap/new(Map): every reached state satisfies RI and all observers agree with the model"},
			{Pkg: "ordered", Name: "tv_stdlib", Quick: map[string]int{}, Unwind: [2]int{32, 32},
				What: "translator validation of the standard-library models (strings, strconv, sort, slices, bytes.Buffer, fmt, errors, sync): each modelled function on symbolic strings of <= 3 bytes against a plain loop interpreted instruction by instruction"},
			{Pkg: "ordered", Name: "c05_api_history", Quick: map[string]int{"ops": 4}, Thorough: map[string]int{"ops": 6}, Unwind: [2]int{16, 24}, Budget: [2]int{120, 1500},
				What: "bounded histories through the public API only (no unexported field is touched, so this harness survives a refactoring of the representation): after the history every observer and Equal agree with the model"},
			{Pkg: "ordered", Name: "c05_nil", Quick: map[string]int{}, Unwind: [2]int{16, 16},
				What: "nil receivers and the zero-value map"},
			{Pkg: "ordered", Name: "c05_marshal", Quick: map[string]int{"slots": 3}, Thorough: map[string]int{"slots": 4}, Unwind: [2]int{16, 24},
				What: "MarshalJSON member order, MarshalYAML Content order and ToMapRecursive list exactly the live entries in order (Map[string,string] with 0/1-byte keys)"},
			{Pkg: "ordered", Name: "c05_step_str", Quick: map[string]int{"slots": 3}, Thorough: map[string]int{"slots": 4}, Unwind: [2]int{16, 24},
				What: "the string-keyed any-valued instantiation (Map[string,any]): one mutator from an arbitrary RI state with 0/1-byte keys incl. the empty key; Len/Range/Get and the index agree with the model"},
			{Pkg: "ordered", Name: "c05_equal_nested", Quick: map[string]int{}, Unwind: [2]int{24, 24},
				What: "Equal[string,any] on maps holding nested ordered maps (go-cmp with the registered comparers): deep equality of keys, values, order; symmetric"},
		},
		Outside: []string{
			"maps with more slots than the bound (the inductive step covers histories of any length, but only states with at most `slots` slots)",
			"key types whose == is not an equivalence (NaN floats); values compared by cmp.Equal that are not scalars",
			"the byte-level output of encoding/json and yaml.v3 for individual keys and values",
			"Set/Replace on a nil *Map (documented to panic like Go's map; not called)",
		},
		Assumptions: []string{
			"cmp.Equal on int/string values is ==",
			"json.Marshal / yaml.Node.Encode of a string or int scalar is modelled in the abstract JSON data model (no byte-level quoting)",
		},
	})
	add(PropSpec{
		ID: "C11",
		Harnesses: []HSpec{
			{Pkg: ".", Name: "c11_validate", Quick: map[string]int{"dims": 2, "adjs": 1, "anon": 0}, Thorough: map[string]int{"dims": 2, "adjs": 2, "anon": 0}, Unwind: [2]int{16, 24}, Budget: [2]int{120, 3000},
				What: "validatePermutation accepts exactly what the specification sentence accepts, for every matrix, adjustment list and permutation within the bounds and every map iteration order; ShouldSkip truthiness"},
			{Pkg: ".", Name: "c11_validate", Quick: map[string]int{"dims": 1, "adjs": 2, "anon": 0}, Thorough: map[string]int{"dims": 1, "adjs": 3, "anon": 0}, Unwind: [2]int{16, 24},
				What: "same, fewer dimensions and more adjustments (repeated adjustments with conflicting skip flags)"},
			{Pkg: ".", Name: "c11_step", Quick: map[string]int{"dims": 1, "adjs": 1, "anon": 1}, Thorough: map[string]int{"dims": 2, "adjs": 1, "anon": 1}, Unwind: [2]int{24, 32}, Budget: [2]int{120, 1800},
				What: "InterpolateMatrixPermutation on steps with and without tokens, dimension names of 0-1 bytes (the anonymous dimension included): a permutation the specification rejects is rejected (for a token-free step that can only come from validation) and leaves command, label, key, env, plugins and matrix untouched; an accepted one applies without error to a token-free step"},
			{Pkg: ".", Name: "c11_validate", Quick: map[string]int{"dims": 1, "adjs": 1, "anon": 1}, Thorough: map[string]int{"dims": 2, "adjs": 1, "anon": 1}, Unwind: [2]int{16, 24}, Budget: [2]int{120, 1800},
				What: "validatePermutation with dimension names of 0-1 bytes, so that the anonymous dimension occurs alone and next to named ones (1 dimension / 1 adjustment quick, 2 / 1 thorough)"},
			{Pkg: ".", Name: "c11_tuple", Quick: map[string]int{"long": 5}, Thorough: map[string]int{"long": 7}, Unwind: [2]int{32, 48},
				What: "tuple equality is per dimension: two dimensions, one adjustment, permutation and adjustment values of 1 or `long` symbolic bytes over the characters that occur as constants in step_command_matrix.go (so separators of any internal encoding are in the alphabet): accepted iff equal in every dimension and not skipped"},
			{Pkg: ".", Name: "c11_skip", Quick: map[string]int{}, Unwind: [2]int{32, 32},
				What: "every kind of skip value (absent, false, true, a symbolic string of <= 5 printable bytes, int, float, sequence): ShouldSkip is false exactly for absent and false, and validatePermutation accepts the adjustment's tuple (as an adjustment tuple and as a setup combination) exactly when it does not skip"},
			{Pkg: ".", Name: "c11_frame", Quick: map[string]int{}, Unwind: [2]int{32, 32},
				What: "validatePermutation is a pure question: two dimensions, symbolic values in any order in a list with spare capacity, optional adjustment with a new value: after any verdict the setup lists, their spare capacity and the adjustments are as before, and a second call gives the same verdict"},
			{Pkg: ".", Name: "tv_validate_permutation", Quick: map[string]int{}, Unwind: [2]int{64, 64},
				What: "translator validation: a TestMatrix_ValidatePermutation_Multiple-style table, concrete, through the engine (all map iteration orders)"},
		},
		Outside: []string{
			"more dimensions/adjustments/values than the bounds; dimension names and values longer than one byte (they are only compared for equality)",
			"a setup dimension whose value list is nil (`dim: null`): the code treats it as an unknown dimension; excluded by construction, lists are non-nil",
		},
		Assumptions: []string{"regexp matching in c11_step uses the engine's backtracking matcher over the pattern read from the package initialiser"},
	})
	add(PropSpec{
		ID: "C15",
		Harnesses: []HSpec{
			{Pkg: ".", Name: "c15_type", Quick: map[string]int{"len": 8}, Unwind: [2]int{16, 16},
				What: "stepByType for every lower-case byte string of length <= 8 against the rule table; sentinel error"},
			{Pkg: ".", Name: "c15_scalar", Quick: map[string]int{"len": 8}, Unwind: [2]int{16, 16},
				What: "NewScalarStep for every lower-case byte string of length <= 8"},
			{Pkg: ".", Name: "c15_infer", Quick: map[string]int{"extralen": 8}, Unwind: [2]int{24, 24},
				What: "stepByKeyInference over all 2^10 subsets of the kind keys plus one arbitrary extra key (<= 8 bytes, first or last), optionally after an earlier step in the same process whose inference failed (the table has no memory)"},
			{Pkg: ".", Name: "c15_frommap", Quick: map[string]int{"len": 8, "keys": 2}, Thorough: map[string]int{"len": 8, "keys": 4}, Unwind: [2]int{32, 32},
				What: "stepFromMap end to end through the reflective unmarshaler: type absent/string/non-string, up to `keys` kind keys with minimal values, an ill-typed plugins value, an extra key; optionally after an earlier failed inference, unknown type or unknown scalar in the same process"},
		},
		Outside: []string{
			"type / scalar strings longer than 8 bytes or outside [a-z] (all table entries are <= 8 lower-case bytes)",
			"more than `keys` kind keys at once in the end-to-end harness (all subsets are covered at the inference function)",
		},
		Assumptions: []string{"reflect.* modelled over the engine's typed heap from go/types of the current source", "fmt.Errorf records its %w operands; message text opaque"},
	})
	add(PropSpec{
		ID: "C10",
		Harnesses: []HSpec{
			{Pkg: ".", Name: "c10_envblock", Quick: map[string]int{"entries": 2, "callervars": 1, "valueshapes": 2}, Thorough: map[string]int{"entries": 2, "callervars": 1, "valueshapes": 3}, Unwind: [2]int{40, 60}, Budget: [2]int{300, 2400},
				Models: []string{"github.com/buildkite/interpolate.Interpolate=vpModelInterpolate"}, Validate: []string{"interpolate"},
				What: "interpolateEnvBlock/Interpolate equal the in-order fold of the property statement: names and values expanded under caller env + earlier entries, rewritten in place, exported to the caller env unless runtime precedence applies, case-(in)sensitive caller env, later step strings expanded under the final env"},
			{Pkg: ".", Name: "c10_escapes", Quick: map[string]int{}, Unwind: [2]int{40, 60},
				Models: []string{"github.com/buildkite/interpolate.Interpolate=vpModelInterpolate"}, Validate: []string{"interpolate"},
				What:   "env block entries whose value (and optionally name) is one of ten escape shapes ($$A, a$$, a\\$, \\$, a lone or trailing $, \\$A, ...): recorded under the expanded name with the expanded value, exported to the caller, and seen expanded by later entries and steps"},
			{Pkg: ".", Name: "c10_collisions", Quick: map[string]int{"entries": 3}, Thorough: map[string]int{"entries": 4}, Unwind: [2]int{40, 60},
				Models: []string{"github.com/buildkite/interpolate.Interpolate=vpModelInterpolate"},
				What:   "names that collide after expansion: no panic, and the block equals the ordered-map model of the same in-place renames (colliding entry dropped, renamed entry keeps its position, dropped entries not visited)"},
		},
		Outside: []string{
			"the ${VAR:-default}/substring/required forms of the interpolate library (outside the model; abandoned paths are counted)",
			"name collisions after expansion (not defined by the property; excluded by assumption)",
			"more entries / longer strings than the bounds; non-ASCII",
		},
		Assumptions: []string{"github.com/buildkite/interpolate.Interpolate replaced by the Go-written model vpModelInterpolate (validated natively against the real library on every string of <= 6 symbols over a 11-symbol alphabet)", "strings.ToUpper modelled bytewise on ASCII"},
	})
	add(PropSpec{
		ID: "C04",
		Harnesses: []HSpec{
			{Pkg: ".", Name: "c04_positions", Quick: map[string]int{"groups": 8}, Unwind: [2]int{48, 48},
				Models: []string{"github.com/buildkite/interpolate.Interpolate=vpModelInterpolate"}, Validate: []string{"interpolate"},
				What: "(*Pipeline).Interpolate with the real envInterpolator on one instance of every step kind with a distinct string in every string position: each equals the single-pass expansion of the original (escaped references once), signature untouched, shapes unchanged; all map iteration orders and produced-or-skipped choices for entries inserted during iteration"},
			{Pkg: ".", Name: "c04_walkers", Quick: map[string]int{"depth": 1, "fan": 2}, Thorough: map[string]int{"depth": 2, "fan": 2}, Unwind: [2]int{24, 32}, Budget: [2]int{120, 2700},
				What: "interpolateAny/Slice/Map/OrderedMap and Plugin.interpolate with a marking transformer (injective, not idempotent) on arbitrary trees of strings, []any, []string, map[string]any, map[string]string, *MapSA, *MapSS, *Plugin, ints, bools, nil: result equals an independently built expected tree"},
			{Pkg: ".", Name: "c04_error", Quick: map[string]int{}, Unwind: [2]int{48, 48},
				Models: []string{"github.com/buildkite/interpolate.Interpolate=vpModelInterpolate"},
				What:   "a failing expansion at any of 27 positions (command, label, step env, plugin sources with no / map / scalar config, config keys, values and nested values, matrix setup, adjustment tuples and extras, cache paths and extras, unknown fields, wait / input / trigger / group / unknown step contents, env block names and values, nested top-level extras) next to strings that expand fine makes Interpolate return an error"},
			{Pkg: ".", Name: "c04_transform", Quick: map[string]int{"len": 4}, Thorough: map[string]int{"len": 6}, Unwind: [2]int{48, 64}, Budget: [2]int{120, 1500},
				Models: []string{"github.com/buildkite/interpolate.Interpolate=vpModelInterpolate"}, Validate: []string{"interpolate"},
				What: "envInterpolator.Transform on every string of <= len bytes over {A, x, $, backslash, braces, (} with A bound to a symbolic value: fails exactly when, and returns exactly what, the single-pass expansion does (no pre-filter or fast path treats escapes, trailing $ or braces differently)"},
		},
		Outside: []string{
			"trees deeper than the bound; maps with more than 2 entries; strings longer than 1 symbolic byte plus concrete tags",
			"subtrees shared between two positions (the decoder produces independent copies - C07)",
			"the ${VAR<op>...} forms of the interpolate library",
			"keys that collide after expansion (not defined by the property)",
		},
		Assumptions: []string{"github.com/buildkite/interpolate.Interpolate replaced by the validated Go-written model vpModelInterpolate"},
	})
	add(PropSpec{
		ID: "C12",
		Harnesses: []HSpec{
			{Pkg: ".", Name: "c12_lang", Quick: map[string]int{"tail": 3}, Thorough: map[string]int{"tail": 4}, Unwind: [2]int{64, 64},
				What: "bounded token-language agreement through matrixInterpolator.Transform on near-tokens ({{ junk matrix junk }} with symbolic junk): whole token for the code iff in the property's token language"},
			{Pkg: ".", Name: "c12_transform", Quick: map[string]int{"tokens": 1, "lit": 1, "name": 1}, Thorough: map[string]int{"tokens": 2, "lit": 1, "name": 2}, Unwind: [2]int{64, 96},
				What: "newMatrixInterpolator/Transform on lit·token·lit[·token·lit] with dangerous literals, optional inner whitespace, 0-2-byte dimension names and token-shaped values against a hand-written scanner of the property grammar: single pass, error iff unknown dimension"},
			{Pkg: ".", Name: "c12_scope", Quick: map[string]int{}, Unwind: [2]int{64, 64},
				What: "InterpolateMatrixPermutation field scope: command, label, plugin sources/configs, env values, unknown fields replaced; env names, key, matrix, signature untouched; empty permutation changes nothing"},
			{Pkg: ".", Name: "c12_badtoken", Quick: map[string]int{}, Unwind: [2]int{128, 128},
				What: "a token naming a dimension the permutation lacks, placed at each of 13 in-scope positions (command, label, source of a plugin without config / with a map config / with a scalar config, config key, value, nested value and scalar config, env value, unknown field key, value and nested value) next to valid tokens elsewhere: InterpolateMatrixPermutation returns an error"},
			{Pkg: ".", Name: "tv_matrix_transform", Quick: map[string]int{}, Unwind: [2]int{128, 128},
				What: "translator validation: the repository's own TestMatrixInterpolater_* tables, concrete, through the engine's regexp matcher"},
		},
		Extra: extraC12,
		Outside: []string{
			"strings longer than the bounds in the engine harnesses (the token-language equivalence query itself is unbounded)",
			"non-ASCII input: Unicode whitespace is not \\s in RE2; bytes >= 0x80 are not explored",
		},
		Assumptions: []string{"regexp.ReplaceAllStringFunc/FindStringSubmatch executed by the engine's backtracking matcher (leftmost-first, captures) over the syntax tree regexp/syntax parses from the pattern constant found in the package initialiser"},
	})
	add(PropSpec{
		ID: "C17",
		Harnesses: []HSpec{
			{Pkg: ".", Name: "c17_fullsource", Quick: map[string]int{"len": 8}, Thorough: map[string]int{"len": 12}, Unwind: [2]int{96, 128}, Budget: [2]int{120, 1500},
				Models: []string{"net/url.Parse=vpModelURLParse", "path.Join=vpModelPathJoin"}, Validate: []string{"urlparse", "pathjoin"},
				What: "FullSource on every source of up to len bytes over [ab0._/-#:@\\] inside the documented forms equals the documented rules; a second application is the identity; MarshalYAML keys by the canonical source"},
			{Pkg: ".", Name: "c17_dictionary", Quick: map[string]int{"words": 1}, Thorough: map[string]int{"words": 2}, Unwind: [2]int{128, 160}, Budget: [2]int{120, 1500},
				Models: []string{"net/url.Parse=vpModelURLParse", "path.Join=vpModelPathJoin"},
				What:   "same oracle on sources assembled from symbolic pieces and the string constants found in FullSource's current SSA (a dictionary that follows the code: suffixes, hosts, separators), so inputs far longer than the byte bound that contain the code's own magic strings are covered"},
			{Pkg: ".", Name: "c17_history", Quick: map[string]int{"calls": 300}, Thorough: map[string]int{"calls": 1200}, Unwind: [2]int{128, 128},
				Models: []string{"net/url.Parse=vpModelURLParse", "path.Join=vpModelPathJoin"},
				What:   "FullSource has no memory: five probe sources (bare, org/name, canonical, path, URL) give the same answer, and canonical forms stay fixed points, after n other distinct sources were canonicalised in the same process, n next to each integer constant of plugin.go / plugins.go (current SSA) and `calls`"},
			{Pkg: ".", Name: "tv_fullsource", Quick: map[string]int{}, Unwind: [2]int{128, 128},
				Models: []string{"net/url.Parse=vpModelURLParse", "path.Join=vpModelPathJoin"},
				What:   "translator validation: the repository's own TestPluginFullSource table, concrete, through the engine and the models"},
		},
		Outside: []string{
			"sources longer than the bound; upper-case scheme folding, percent-encoding, query strings, IPv6/port syntax (all hit `scheme => unchanged` before mattering)",
			"refs/names with empty or dot-only components, and characters outside [A-Za-z0-9._-] in names (outside the documented forms, excluded by assumption)",
		},
		Assumptions: []string{
			"net/url.Parse replaced by vpModelURLParse and path.Join by vpModelPathJoin (validated natively: every string <= 6 symbols over a 13-symbol alphabet, 300k random strings <= 14 bytes, and path.Join on 488k element combinations)",
		},
	})
	add(PropSpec{
		ID: "C07",
		Harnesses: []HSpec{
			{Pkg: "ordered", Name: "c07_merge_chain", Quick: map[string]int{"typedkeys": 0}, Unwind: [2]int{32, 32},
				What: "DecodeYAML on merge chains (root merges a and/or c by alias or sequence of aliases, a merges c, merge at any position, symbolic keys): content and order equal the reference of the merge rules"},
			{Pkg: "ordered", Name: "c07_reexpand", Quick: map[string]int{}, Unwind: [2]int{32, 32},
				What: "an anchored subtree that itself contains aliases (alias value, sequence of aliases, nested sequence, merge) expanded one or two more times as a value, inside a sequence or through a merge: decodes without error, content and key order equal the reference, ordered mappings at every depth (yaml.v3's own decoder, which yields Go maps, is modelled), every expansion an independent copy"},
			{Pkg: "ordered", Name: "c07_typed_merge", Quick: map[string]int{}, Unwind: [2]int{32, 32},
				What: "a mapping that merges an anchored one, both keyed by typed scalars (!!int 0x1F and 31, !!bool True, !!float 1.5; 1-2 keys in the source, 0-2 explicit keys, merge at any position): explicit-beats-merged and merge-position order are decided on the canonical key (31, true, 1.500000e+00), not on the spelling"},
			{Pkg: "ordered", Name: "c07_graph", Quick: map[string]int{"pool": 1, "poolentries": 1, "rootentries": 2, "poolnested": 1}, Thorough: map[string]int{"pool": 1, "poolentries": 2, "rootentries": 2, "poolnested": 0}, Unwind: [2]int{32, 48}, Budget: [2]int{120, 1500},
				What: "DecodeYAML on arbitrary small node graphs (value aliases incl. self/mutual cycles, aliases in sequences, alias keys, merges by alias / sequence / inline mapping, nested mappings): error iff a value cycle exists, otherwise equal to the reference; aliases expand to independent copies"},
			{Pkg: "ordered", Name: "c07_graph", Quick: map[string]int{"pool": 1, "poolentries": 2, "rootentries": 1, "poolnested": 0}, Thorough: map[string]int{"pool": 2, "poolentries": 1, "rootentries": 1, "poolnested": 1}, Unwind: [2]int{32, 48}, Budget: [2]int{120, 1500},
				What: "same, other distribution of entries between root and anchored mappings (two anchors in the thorough tier: mutual cycles, sequences of two merge sources)"},
		},
		Outside: []string{
			"the yaml.v3 scanner/parser that builds the node graph from bytes",
			"non-string key tags (!!int/!!bool/!!float canonicalisation goes through fmt.Sprintf and yaml.v3's scalar resolver)",
			"larger graphs; expansion-size blow-up; duplicate explicit keys within one mapping (rejected upstream)",
		},
		Assumptions: []string{"(*yaml.Node).Decode on a !!str scalar node yields its Value (engine intrinsic; natively the real library)"},
	})
	add(PropSpec{
		ID: "C08",
		Harnesses: []HSpec{
			{Pkg: "ordered", Name: "c08_decode_order", Quick: map[string]int{"entries": 3}, Thorough: map[string]int{"entries": 5}, Unwind: [2]int{32, 48},
				What: "DecodeYAML, Map[string,string].UnmarshalOrdered, MarshalJSON and MarshalYAML keep document order for every key set (0-2-byte keys incl. the empty key)"},
			{Pkg: "ordered", Name: "c08_roundtrip", Quick: map[string]int{"entries": 3, "ops": 0}, Thorough: map[string]int{"entries": 4, "ops": 0}, Unwind: [2]int{32, 48},
				What: "content variety: a programmatically built ordered map (Set of up to `entries` symbolic keys of 0-2 bytes, values nested one level) survives json.Marshal -> yaml.Unmarshal -> DecodeYAML and MarshalYAML -> DecodeYAML with keys, values and order (ordered.Equal, member keys of the JSON object)"},
			{Pkg: "ordered", Name: "c08_roundtrip", Quick: map[string]int{"entries": 4, "ops": 2}, Thorough: map[string]int{"entries": 4, "ops": 3}, Unwind: [2]int{32, 48}, Budget: [2]int{120, 1500},
				What: "history variety: four entries, then up to `ops` Delete, Replace (onto existing keys, or with an absent old key) and Set (fresh or existing key) operations followed against a list-of-pairs model of what was built: the map has the model's keys, values, order and lookups, and survives both encode -> decode legs"},
			{Pkg: "ordered", Name: "c08_exotic_keys", Quick: map[string]int{}, Unwind: [2]int{32, 48},
				What: "an ordered map (one level nested) whose keys are 1-2 symbolic bytes over the whole of \\x01-\\x7f (quotes, backslashes, control characters, DEL): json.Marshal succeeds (text written by MarshalJSON is read with the JSON string grammar, as encoding/json validates it), the object has exactly those keys in order, and the YAML node leg gives an Equal map"},
			{Pkg: "ordered", Name: "c07_merge_chain", Quick: map[string]int{"typedkeys": 0}, Unwind: [2]int{32, 32},
				What: "merged keys stand where the merge key stood (shared with C07: order is part of the reference comparison)"},
			{Pkg: "ordered", Name: "c07_reexpand", Quick: map[string]int{}, Unwind: [2]int{32, 32},
				What: "an anchored subtree that itself contains aliases (alias value, sequence of aliases, nested sequence, merge) expanded one or two more times as a value, inside a sequence or through a merge: decodes without error, content and key order equal the reference, ordered mappings at every depth (yaml.v3's own decoder, which yields Go maps, is modelled), every expansion an independent copy"},
			{Pkg: "ordered", Name: "c07_typed_merge", Quick: map[string]int{}, Unwind: [2]int{32, 32},
				What: "a mapping that merges an anchored one, both keyed by typed scalars (!!int 0x1F and 31, !!bool True, !!float 1.5; 1-2 keys in the source, 0-2 explicit keys, merge at any position): explicit-beats-merged and merge-position order are decided on the canonical key (31, true, 1.500000e+00), not on the spelling"},
			{Pkg: ".", Name: "c08_plugins_order", Quick: map[string]int{"entries": 3}, Thorough: map[string]int{"entries": 4}, Unwind: [2]int{48, 64},
				What: "Plugins.UnmarshalOrdered on the one-mapping form appends in mapping order; the pipeline env block decodes and marshals (JSON data model) in document order"},
			{Pkg: ".", Name: "c08_nested_unknown", Quick: map[string]int{}, Unwind: [2]int{64, 64},
				What: "mappings nested inside unknown steps and unknown fields keep document order through parse and JSON marshalling, at every depth (typed-field configs such as agents are emitted by encoding/json in sorted order and are not order-significant)"},
			{Pkg: ".", Name: "c08_yaml_order", Quick: map[string]int{}, Unwind: [2]int{64, 64},
				What: "document order through the YAML output on the node data model: env block and mappings nested (two levels) in an unknown step, symbolic keys of 0-2 bytes"},
		},
		Outside: []string{
			"token order in the bytes produced by encoding/json and yaml.v3 (library emitters); keys that need quoting (the libraries' quoting)",
			"sizes beyond the bounds: the engine explores every Go-map iteration order, so any routing through a Go map shows with 2 entries; Go's runtime small-map threshold is irrelevant to the symbolic semantics",
		},
		Assumptions: []string{"yaml.Node.Encode/Decode on string scalars modelled (Tag !!str, Value)", "json.Marshal in the abstract JSON data model"},
	})
	add(PropSpec{
		ID: "C18",
		Harnesses: []HSpec{
			{Pkg: "jwkutil", Name: "c18_validate", Quick: map[string]int{"alglen": 8}, Unwind: [2]int{24, 24},
				What: "jwkutil.Validate on an abstract key: symbolic structural validity, algorithm present/absent, algorithm of kind signature / key-encryption / invalid with a symbolic name of <= 8 bytes, symbolic key type of <= 3 bytes: accepted exactly for valid keys with RSA+PS512, EC+ES512 or OKP+EdDSA"},
			{Pkg: "jwkutil", Name: "c18_loadkey", Quick: map[string]int{"keys": 2}, Thorough: map[string]int{"keys": 3}, Unwind: [2]int{24, 24},
				What: "LoadKey (file reading and jwk.Parse stubbed to return the abstract set) on key sets of <= keys keys with symbolic ids (0-1 bytes over a, b and space) and a symbolic requested id (0-2 bytes; ids are compared exactly, blanks and padding included): requested or only key, refusal of ambiguous, absent and invalid keys"},
			{Pkg: "jwkutil", Name: "c18_reload", Quick: map[string]int{"loads": 2}, Thorough: map[string]int{"loads": 3}, Unwind: [2]int{24, 24},
				What: "histories of `loads` LoadKey calls in one process (package-level state symbolically carried from call to call; sync.Map modelled as an association list, RFC 7638 thumbprints as an injective function of key type and material): each file holds one key of type OKP/EC/RSA whose material is either that of an earlier key or fresh, with its own algorithm declaration (approved, other signature algorithms, symmetric, or none), key id and requested id, optionally preceded by a NewKeyPair request for an algorithm the library does not generate (whatever it answers, it must have no effect on later loads; slice capacity and aliasing of package-level tables are modelled); every load is accepted exactly when that key alone would be"},
		},
		Outside: []string{
			"NewKeyPair (crypto/rand, RSA/EC/Ed25519 generation) and `what one key signs verifies with its public half and no other` (real cryptography): not encodable; not claimed",
			"jwk.Parse's JSON decoding of key-set files; algorithm names longer than 8 bytes (no registered name of interest is longer: all approved names are <= 5 bytes)",
		},
		Assumptions: []string{
			"jwk.Key / jwk.Set are abstract objects whose Validate, Get(alg), Algorithm, KeyType, KeyID, Len, Key(i), LookupKeyID answer with harness-chosen symbolic attributes (their interfaces cannot be implemented outside jwx); natively the attributes are realised with real jwx keys",
			"os.Open / io.ReadAll / jwk.Parse stubbed to deliver the abstract key set; allow-list tables read from the package initialiser of the current source",
		},
	})
	add(PropSpec{
		ID: "C19",
		Harnesses: []HSpec{
			{Pkg: "ordered", Name: "c05_obs", Quick: map[string]int{"slots": 3}, Thorough: map[string]int{"slots": 5}, Unwind: [2]int{16, 24},
				What: "ordered.Map observers (Len, IsZero, Get, Contains, Range, ToMap) leave items, index and their nil-ness untouched on every state incl. tombstones"},
			{Pkg: "ordered", Name: "c05_equal", Quick: map[string]int{"slots": 3}, Thorough: map[string]int{"slots": 4}, Unwind: [2]int{16, 24},
				What: "Equal does not write to either argument"},
			{Pkg: "ordered", Name: "c19_marshal_frame", Quick: map[string]int{"slots": 3}, Thorough: map[string]int{"slots": 4}, Unwind: [2]int{16, 24},
				What: "MarshalJSON, MarshalYAML and ToMapRecursive do not write to the map (no lazy compaction)"},
			{Pkg: ".", Name: "c19_obs_plugin", Quick: map[string]int{}, Unwind: [2]int{64, 64},
				Models: []string{"net/url.Parse=vpModelURLParse", "path.Join=vpModelPathJoin"},
				What:   "Plugin.FullSource/MarshalJSON/MarshalYAML do not modify the plugin (no memoised canonical source, config untouched)"},
			{Pkg: ".", Name: "c19_obs_matrix", Quick: map[string]int{}, Unwind: [2]int{64, 64},
				What: "Matrix.validatePermutation/MarshalJSON/MarshalYAML/IsEmpty do not modify the matrix or the permutation, nor materialise absent fields"},
			{Pkg: ".", Name: "c19_obs_step", Quick: map[string]int{}, Unwind: [2]int{64, 64},
				Models: []string{"net/url.Parse=vpModelURLParse", "path.Join=vpModelPathJoin"},
				What:   "CommandStep.MarshalJSON does not modify the step nor materialise absent fields"},
			{Pkg: ".", Name: "c19_obs_extras", Quick: map[string]int{}, Unwind: [2]int{128, 128}, FixedMapOrder: true,
				Models: []string{"net/url.Parse=vpModelURLParse", "path.Join=vpModelPathJoin"},
				What:   "json.Marshal of a command step, group step, matrix, cache and pipeline that carry n unknown fields, n next to each integer constant of the marshalling code (current SSA) and 12: the unknown-field map keeps exactly its entries, named fields are untouched, a second marshal gives the same JSON and YAML marshalling still succeeds"},
			{Pkg: ".", Name: "c19_warnings", Quick: map[string]int{}, Unwind: [2]int{128, 128}, FixedMapOrder: true,
				Models: []string{"net/url.Parse=vpModelURLParse", "path.Join=vpModelPathJoin"},
				What:   "two parses in one process that each fall back on some steps (kind not inferable, unknown type, unknown scalar, malformed field; 1-2 and 1 steps): the two warnings, and the two pipelines, share no mutable heap object, and the later parse neither changes the earlier warning nor reports anything but its own fallbacks"},
			{Pkg: ".", Name: "c19_disjoint", Quick: map[string]int{}, Unwind: [2]int{128, 128}, FixedMapOrder: true,
				Models: []string{"net/url.Parse=vpModelURLParse", "path.Join=vpModelPathJoin", "github.com/buildkite/interpolate.Interpolate=vpModelInterpolate"},
				What:   "separation: a document whose two steps spell an unknown field, the step env, plugins with configs, a matrix, a whole step or a group's children once with an anchor and twice with aliases is parsed twice; the three steps of one parse, and the two parses, share no mutable heap object (walk over the engine heap: pointer targets, slice backing arrays, maps), and interpolating one step changes neither its sibling nor the other parse"},
			{Pkg: "signature", Name: "c06_signsteps", Quick: map[string]int{"depth": 0, "width": 2, "lite": 0}, Unwind: [2]int{64, 64}, FixedMapOrder: true,
				Models: []string{"net/url.Parse=vpModelURLParse", "path.Join=vpModelPathJoin"},
				What:   "SignSteps/Sign/Verify write nothing but the Signature field: step scalars, step env, plugins and the caller's env map are unchanged (frame assertions of the C06 harness)"},
		},
		Extra: extraC19,
		Outside: []string{
			"actual goroutine interleavings: schedules are not symbolic variables in this engine; the claim is the absence of writes (no write, no race) for every state within the bounds, plus the absence of stores to package-level state in any function",
			"races inside third-party libraries (yaml.v3, encoding/json, jwx, regexp - the latter documented safe for concurrent use)",
			"Sign/Verify not writing the step or the caller's env is decided under C06",
		},
		Assumptions: []string{"a data race requires a write; concurrent use of distinct objects shares only package-level state"},
	})
	add(PropSpec{
		ID: "C16",
		Harnesses: []HSpec{
			{Pkg: "ordered", Name: "c16_scalars", Quick: map[string]int{"free": 1}, Thorough: map[string]int{"free": 2}, Unwind: [2]int{48, 64}, Budget: [2]int{120, 1500},
				What: "Unmarshal/decodeInto into a struct with plain, aliased, omitempty, `-`, untagged and unexported fields and an inline map: every key (each named key present / null / absent, plus free keys of 0-2 symbolic bytes) goes to exactly one destination"},
			{Pkg: "ordered", Name: "c16_containers", Quick: map[string]int{}, Unwind: [2]int{48, 64},
				What: "slice, map, nested struct, pointer-to-struct (with alias) fields and an ordered inline *MapSA: append/fill/zero semantics, nested alias precedence, leftovers in document order"},
			{Pkg: "ordered", Name: "c16_inline_struct", Quick: map[string]int{}, Unwind: [2]int{48, 64},
				What: "inline pointer-to-struct (the CommandStep pattern): leftovers of the outer level are partitioned again by the inline struct"},
			{Pkg: "ordered", Name: "c16_tags", Quick: map[string]int{}, Unwind: [2]int{48, 64},
				What: "tag spellings: fields tagged with flags only (`,omitempty`, `,flow`) take their lower-cased names like untagged fields, flags after a key change nothing, the empty input key and free keys (1-2 symbolic bytes) go to the inline map and nothing else does"},
			{Pkg: "ordered", Name: "c16_scalar_kinds", Quick: map[string]int{}, Unwind: [2]int{48, 64},
				What: "unmarshalScalar: every scalar kind (string, int, float, bool) into every scalar-accepting destination (string, int, float, bool, any, []any, []string, []int): copied, appended, formatted, or an error - never silently converted or dropped"},
		},
		Outside: []string{
			"`equals what yaml.Node.Decode produces`: needs yaml.v3's reflective decoder, which a hand-written SSA executor cannot run - not claimed",
			"two fields sharing one alias (no type of the repository does that; the statement does not define it)",
			"ill-typed documents (error-or-fallback behaviour is asserted under C13/C15)",
		},
		Assumptions: []string{"reflect.* modelled over the engine's typed heap; types, tags and field lists come from go/types of the current source"},
	})
	add(PropSpec{
		ID: "C13",
		Harnesses: []HSpec{
			{Pkg: ".", Name: "c13_steps", Quick: map[string]int{"entries": 2, "depth": 0, "short": 0}, Unwind: [2]int{64, 64}, Budget: [2]int{120, 1500},
				Models: []string{"net/url.Parse=vpModelURLParse", "path.Join=vpModelPathJoin"},
				What:   "ordered.Unmarshal into Pipeline (Pipeline/Steps/GroupStep.UnmarshalOrdered, unmarshalStep, stepFromMap, the reflective unmarshaler) on decoded documents whose step sequence mixes valid and invalid scalars, well-formed maps of every kind, ill-typed and unknown-type maps, ints, nulls and groups; top level bare list / mapping / steps null / steps absent: no panic; a usable result is complete, ordered, non-nil, falls back verbatim with one warning leaf per fallback, and marshals to JSON"},
			{Pkg: ".", Name: "c13_steps", Quick: map[string]int{"entries": 1, "depth": 1, "short": 0}, Thorough: map[string]int{"entries": 2, "depth": 1, "short": 0}, Unwind: [2]int{64, 64}, Budget: [2]int{120, 1500},
				Models: []string{"net/url.Parse=vpModelURLParse", "path.Join=vpModelPathJoin"},
				What:   "same with groups holding up to two children of every kind (recursion into groups, failures absorbed by the enclosing step)"},
			{Pkg: ".", Name: "c13_steps", ThoroughOnly: true, Quick: map[string]int{"entries": 3, "depth": 0, "short": 1}, Unwind: [2]int{64, 64}, Budget: [2]int{120, 3000},
				Models: []string{"net/url.Parse=vpModelURLParse", "path.Join=vpModelPathJoin"},
				What:   "thorough tier only: three entries per step sequence, with the symbolic scalar and type strings shortened to <= 1 byte"},
			{Pkg: ".", Name: "c13_exotic_keys", Quick: map[string]int{}, Unwind: [2]int{64, 64}, Budget: [2]int{120, 1500},
				Models: []string{"net/url.Parse=vpModelURLParse", "path.Join=vpModelPathJoin", "github.com/buildkite/interpolate.Interpolate=vpModelInterpolate"},
				What:   "mapping keys of 1-2 symbolic bytes over \\x01-\\x7f (quotes, backslashes, control characters, DEL) wherever a mapping is kept verbatim (unknown step, env block, nested unknown field of a step, top-level extra): a usable result marshals to JSON (text written by MarshalJSON methods is validated with the JSON string grammar) and to YAML"},
			{Pkg: ".", Name: "c13_long", Quick: map[string]int{"max": 24}, Thorough: map[string]int{"max": 96}, Unwind: [2]int{256, 512}, Budget: [2]int{120, 1500},
				Models: []string{"net/url.Parse=vpModelURLParse", "path.Join=vpModelPathJoin"},
				What:   "long step lists (top level or inside a group) of identical unknown-kind, malformed-field or command entries at boundary sizes: every size c-1, c, c+1 for the integer constants 2 < c <= max that occur in the current SSA of steps.go, step_group.go, step.go, parser.go and pipeline.go, and max itself: one step per entry, expected kinds, one warning leaf per fallback, JSON marshalling succeeds"},
		},
		Outside: []string{
			"`for any byte sequence ... bounded time ... never panics` through yaml.v3's scanner/parser/resolver (about 10 kLoC of third-party byte-level code) - a hand-written SSA->SMT executor cannot run it symbolically; this half of C13 is not claimed",
			"YAML marshalling of the result (yaml.v3 encoder); more entries / deeper groups than the bounds",
		},
		Assumptions: []string{"reflect.* over the engine heap; json.Marshal in the abstract JSON data model (marshal errors from MarshalJSON methods are propagated)"},
	})
	add(PropSpec{
		ID: "C03",
		Harnesses: []HSpec{
			{Pkg: ".", Name: "c03_command", Quick: map[string]int{"cmdmodes": 6, "extras": 1, "yaml": 0}, Thorough: map[string]int{"cmdmodes": 6, "extras": 2, "yaml": 0}, Unwind: [2]int{64, 64}, Budget: [2]int{120, 1500}, Models: []string{"net/url.Parse=vpModelURLParse", "path.Join=vpModelPathJoin"},
				What: "command step: every combination of key/id/identifier, label/name, command/commands (string or list, or both keys), up to two unknown extra keys with nested values of every scalar kind; bare list or mapping document: JSON data model of the marshalled pipeline is the documented normal form with every other key exactly once and unchanged"},
			{Pkg: ".", Name: "c03_command", Quick: map[string]int{"cmdmodes": 5, "extras": 0, "yaml": 1}, Thorough: map[string]int{"cmdmodes": 5, "extras": 1, "yaml": 1}, Unwind: [2]int{64, 64}, Budget: [2]int{120, 1500}, FixedMapOrder: true, Models: []string{"net/url.Parse=vpModelURLParse", "path.Join=vpModelPathJoin"},
				What: "same documents, additionally through the YAML leg on the node data model: yaml.Marshal of the parsed pipeline, parsed again, carries the same data as the JSON output"},
			{Pkg: ".", Name: "c03_plugins", Quick: map[string]int{"yaml": 1}, Unwind: [2]int{64, 64}, FixedMapOrder: true, Models: []string{"net/url.Parse=vpModelURLParse", "path.Join=vpModelPathJoin"},
				What: "plugins as list of strings / one-key maps / one mapping, config absent / {} / nested / any key order: ordered list of single-entry objects keyed by canonical source, empty configs null, configs unchanged at every depth"},
			{Pkg: ".", Name: "c03_matrix", Quick: map[string]int{"yaml": 1}, Unwind: [2]int{64, 64}, FixedMapOrder: true, Models: []string{"net/url.Parse=vpModelURLParse", "path.Join=vpModelPathJoin"},
				What: "matrix shorthands (list, setup list, named dimensions, adjustments with scalar or map `with`, extras): canonical shape, scalars become strings, nothing lost"},
			{Pkg: ".", Name: "c03_cache_env", Quick: map[string]int{"yaml": 1}, Unwind: [2]int{64, 64}, FixedMapOrder: true, Models: []string{"net/url.Parse=vpModelURLParse", "path.Join=vpModelPathJoin"},
				What: "cache shorthands (false, string, list, map with extras) and env scalars"},
			{Pkg: ".", Name: "c03_kinds", Quick: map[string]int{}, Unwind: [2]int{64, 64}, Models: []string{"net/url.Parse=vpModelURLParse", "path.Join=vpModelPathJoin"},
				What: "scalar and mapping wait/input/trigger/unknown steps, groups with aliases and children, and the pipeline level (env order and scalars, top-level extras, bare list)"},
		},
		Outside: []string{
			"the YAML leg: yaml.v3 interprets the struct tags itself when emitting; byte-level rendering of either format",
			"input syntax variants (block/flow, quoting, anchors, merges): gone once yaml.v3 has produced nodes; the resolver is C07",
			"extra keys inside `signature` (a closed record written by this library, not authored input)",
			"empty-string values of omitempty fields (key: \"\", label: \"\") and empty containers (plugins: [], env: {}): whether dropping them is data loss is not settled by the statement; left to the C09 fixpoint check",
		},
		Assumptions: []string{"reflect.* over the engine heap; encoding/json.Marshal in the abstract JSON data model (documented dispatch, real MarshalJSON methods executed); reflections.Fields/GetField/GetFieldTag by their documented contracts", "net/url.Parse and path.Join models as in C17"},
	})
	add(PropSpec{
		ID: "C06",
		Harnesses: []HSpec{
			{Pkg: "signature", Name: "c06_signsteps", Quick: map[string]int{"depth": 0, "width": 2, "lite": 0}, Thorough: map[string]int{"depth": 1, "width": 2, "lite": 0}, Unwind: [2]int{64, 64}, Budget: [2]int{120, 1500}, FixedMapOrder: true,
				Models: []string{"net/url.Parse=vpModelURLParse", "path.Join=vpModelPathJoin"},
				What:   "SignSteps over step lists of every kind mix (command, wait, input, trigger, group, unknown), pipeline env / step env overlaps, EdDSA/ES512/PS512 JWKs and an ES256 crypto.Signer: refusal iff an unknown step occurs anywhere; otherwise every command step at every depth has a signature naming the key's algorithm with exactly the expected sorted field list, it verifies, and nothing but Signature is written (step, plugins, caller env)"},
			{Pkg: "signature", Name: "c06_signsteps", Quick: map[string]int{"depth": 2, "width": 1, "lite": 0}, Thorough: map[string]int{"depth": 3, "width": 1, "lite": 0}, Unwind: [2]int{64, 64}, Budget: [2]int{120, 1500},
				Models: []string{"net/url.Parse=vpModelURLParse", "path.Join=vpModelPathJoin"},
				What:   "same with one step per level and groups nested to depth 2 (quick) / 3 (thorough)"},
			{Pkg: "signature", Name: "c06_signsteps", Quick: map[string]int{"depth": 1, "width": 2, "lite": 1}, Thorough: map[string]int{"depth": 2, "width": 2, "lite": 1}, Unwind: [2]int{64, 64}, Budget: [2]int{120, 1500}, FixedMapOrder: true,
				Models: []string{"net/url.Parse=vpModelURLParse", "path.Join=vpModelPathJoin"},
				What:   "step-kind mixes with two steps per level inside nested groups (every position of an unknown step relative to groups and other steps); command steps kept minimal, one key kind"},
			{Pkg: "signature", Name: "c06_resign", Quick: map[string]int{}, Unwind: [2]int{64, 64}, Budget: [2]int{120, 1500}, FixedMapOrder: true,
				Models: []string{"net/url.Parse=vpModelURLParse", "path.Join=vpModelPathJoin"},
				What:   "histories of two SignSteps calls on the same step objects (top level or in a group) with the same key: first any subset of {A, B} as pipeline env, then another subset, value and repository: the result is that of signing fresh steps (exact field list for the env given now, verifies, changed/removed variables and another repository refused)"},
			{Pkg: "signature", Name: "c06_rotation", Quick: map[string]int{"group": 0}, Thorough: map[string]int{"group": 1}, Unwind: [2]int{64, 64}, Budget: [2]int{120, 1500}, FixedMapOrder: true,
				Models: []string{"net/url.Parse=vpModelURLParse", "path.Join=vpModelPathJoin"},
				What:   "key rotation that keeps the key id: identical steps signed first with one key and then, in the same process, with another key of the same algorithm and key id verify under the key that signed them and not under the other (no memory of earlier signings)"},
			{Pkg: "signature", Name: "c06_envnames", Quick: map[string]int{}, Unwind: [2]int{64, 64}, Budget: [2]int{120, 1500}, FixedMapOrder: true,
				Models: []string{"net/url.Parse=vpModelURLParse", "path.Join=vpModelPathJoin"},
				What:   "one command step and one pipeline variable whose name is 0-3 symbolic bytes over the characters that occur in the signing code's own constants (read from the current SSA of sign.go: the env:: prefix, separators) plus A, _, a; shadowed or not: SignSteps signs env::NAME exactly when unshadowed, the field list is sorted and distinct, the signature verifies, and a changed value is refused"},
		},
		Outside: []string{"nesting depth 4 (bound: 2 quick / 3 thorough with one step per level; 0 / 1 with two steps per level); real cryptography (idealised)"},
		Assumptions: []string{"ideal signature scheme: jws.Sign(k, alg, P) is the atom sigma(k, alg, P); jws.Verify succeeds iff the presented value is such an atom made with an offered key (same key-pair identity and algorithm) over an equal payload; values not produced by Sign never verify. Natively replays use real generated EdDSA/ES512/PS512/ES256 keys",
			"canonical encoding: encoding/json.Marshal + jcs.Transform are injective on, and a function of, the JSON data model (member order and number spelling canonicalised); byte-level escaping/number formatting is the libraries' and is not covered",
			"abstract jwk.Key / jwk.Set / crypto.Signer objects; thumbprint, x509 and sha256 calls (logging only) stubbed"},
	})
	add(PropSpec{
		ID: "C14",
		Harnesses: []HSpec{
			{Pkg: "signature", Name: "c14_payload", Quick: map[string]int{"verifyside": 0}, Unwind: [2]int{64, 64}, Budget: [2]int{180, 1500}, Models: []string{"net/url.Parse=vpModelURLParse", "path.Join=vpModelPathJoin"},
				What: "payload handed to the Logger by Sign (SignedFields, env namespacing, canonicalPayload, EmptyToNil*, Plugin/Matrix MarshalJSON) for pairs of worlds: must collide for re-orderings (every Go map iteration order explored), nil vs empty env/plugins/matrix/config, short vs canonical plugin source; must differ for any single differing signed field, for characters moved between adjacent fields, between an env key and its value, between pipeline env entries, and for step env vs pipeline env"},
			{Pkg: "signature", Name: "c14_payload", Quick: map[string]int{"verifyside": 1}, Unwind: [2]int{64, 64}, Budget: [2]int{180, 1500}, FixedMapOrder: true, Models: []string{"net/url.Parse=vpModelURLParse", "path.Join=vpModelPathJoin"},
				What: "the same pairs of worlds with the payload that Verify rebuilds (also logged under debug signing): identical and accepted for equivalent worlds, never equal to the signed payload when the presented world's signed content differs (e.g. a signed variable with an empty value that is absent at verify time); insertion order only"},
		},
		Outside: []string{"JCS / encoding/json byte canonicalisation itself (number spelling, escaping, UTF-16 key sort): assumed injective on the data model", "longer strings / larger containers than the harness builds"},
		Assumptions: []string{"ideal signature scheme: jws.Sign(k, alg, P) is the atom sigma(k, alg, P); jws.Verify succeeds iff the presented value is such an atom made with an offered key (same key-pair identity and algorithm) over an equal payload; values not produced by Sign never verify. Natively replays use real generated EdDSA/ES512/PS512/ES256 keys",
			"canonical encoding: encoding/json.Marshal + jcs.Transform are injective on, and a function of, the JSON data model (member order and number spelling canonicalised); byte-level escaping/number formatting is the libraries' and is not covered",
			"abstract jwk.Key / jwk.Set / crypto.Signer objects; thumbprint, x509 and sha256 calls (logging only) stubbed"},
	})
	add(PropSpec{
		ID: "C01",
		Harnesses: []HSpec{
			{Pkg: "signature", Name: "c01_tamper", Quick: map[string]int{"matrix": 0}, Unwind: [2]int{64, 64}, Budget: [2]int{120, 1500}, FixedMapOrder: true, Models: []string{"net/url.Parse=vpModelURLParse", "path.Join=vpModelPathJoin"},
				What: "Sign then Verify with a presented world that differs from the signed one in exactly one of 23 ways (command, step env value/added/removed/shadowing, plugin source/config/order/added/removed, matrix, repository URL, signed pipeline variable changed/absent, algorithm string, mandatory field or env:: field dropped, unknown or unsigned field added, forged value, another step's value, another key) - Verify must return an error; untouched world verifies. JWK keys of all three algorithms and an ES256 crypto.Signer"},
			{Pkg: "signature", Name: "c01_tamper", Quick: map[string]int{"matrix": 1}, Unwind: [2]int{64, 64}, Budget: [2]int{120, 1500}, FixedMapOrder: true, Models: []string{"net/url.Parse=vpModelURLParse", "path.Join=vpModelPathJoin"},
				What: "same with a signed matrix that mixes the anonymous dimension with a named one and carries an adjustment: changing the named dimension, the anonymous one, removing a dimension or flipping the skip flag must be rejected"},
			{Pkg: "signature", Name: "c01_fields", Quick: map[string]int{"fields": 5}, Thorough: map[string]int{"fields": 7}, Unwind: [2]int{64, 64}, Budget: [2]int{120, 1500},
				What: "CommandStepWithInvariants.ValuesForFields on every field list of <= `fields` entries over the five mandatory names and an env:: entry (any order, repeats): values are handed out exactly when all five mandatory fields occur"},
			{Pkg: "signature", Name: "c01_config", Quick: map[string]int{}, Unwind: [2]int{64, 64}, Budget: [2]int{120, 1500}, FixedMapOrder: true, Models: []string{"net/url.Parse=vpModelURLParse", "path.Join=vpModelPathJoin"},
				What: "a plugin config signed as one of nil, {}, [], false, 0, empty string, true, a string, 1.5, [false], {k: null} and presented as another: refused unless both are nil or an empty container"},
			{Pkg: "signature", Name: "c01_legacy", Quick: map[string]int{}, Unwind: [2]int{64, 64}, Budget: [2]int{120, 1500}, FixedMapOrder: true, Models: []string{"net/url.Parse=vpModelURLParse", "path.Join=vpModelPathJoin"},
				What: "a genuine signature made by a signer that omits one of the five mandatory fields, its (unsigned) field list padded at either end with up to two repeats of fields it has, presented with the uncovered field changed or not: Verify must refuse"},
		},
		Outside: []string{"unforgeability of EdDSA/ES512/PS512/ES256 and injectivity of json.Marshal+JCS on bytes (assumed, see assumptions)", "pure re-ordering or duplication of the signed-field list (the payload is unchanged by construction; not a semantic change)", "Go map iteration orders are not varied in this harness (order-insensitivity of the payload is C14's)"},
		Assumptions: []string{"ideal signature scheme: jws.Sign(k, alg, P) is the atom sigma(k, alg, P); jws.Verify succeeds iff the presented value is such an atom made with an offered key (same key-pair identity and algorithm) over an equal payload; values not produced by Sign never verify. Natively replays use real generated EdDSA/ES512/PS512/ES256 keys",
			"canonical encoding: encoding/json.Marshal + jcs.Transform are injective on, and a function of, the JSON data model (member order and number spelling canonicalised); byte-level escaping/number formatting is the libraries' and is not covered",
			"abstract jwk.Key / jwk.Set / crypto.Signer objects; thumbprint, x509 and sha256 calls (logging only) stubbed"},
	})
	add(PropSpec{
		ID: "C09",
		Harnesses: []HSpec{
			{Pkg: ".", Name: "c09_cmd_basic", Quick: map[string]int{}, Unwind: [2]int{64, 64}, FixedMapOrder: true, Models: []string{"net/url.Parse=vpModelURLParse", "path.Join=vpModelPathJoin"},
				What: "command step (key, label, command incl. multi-line, env nil/empty/populated, signature, extras incl. an alias kept next to an empty primary): json.Marshal -> CommandStep.UnmarshalJSON -> same fields; marshal again -> same data"},
			{Pkg: ".", Name: "c09_cmd_plugins", Quick: map[string]int{}, Unwind: [2]int{64, 64}, FixedMapOrder: true, Models: []string{"net/url.Parse=vpModelURLParse", "path.Join=vpModelPathJoin"},
				What: "plugins nil / [] / two plugins with config nil / {} / flat / nested with every scalar kind / []: round trip keeps order, canonical sources, configs"},
			{Pkg: ".", Name: "c09_cmd_matrix", Quick: map[string]int{}, Unwind: [2]int{64, 64}, FixedMapOrder: true, Models: []string{"net/url.Parse=vpModelURLParse", "path.Join=vpModelPathJoin"},
				What: "every Matrix.MarshalJSON shape (nil, {}, simple list, named setup with empty list, adjustments with scalar/map `with` and every skip kind, only extras, only adjustments, empty setup) is accepted by the matching UnmarshalOrdered and round-trips"},
			{Pkg: ".", Name: "c09_cmd_cache", Quick: map[string]int{}, Unwind: [2]int{64, 64}, FixedMapOrder: true, Models: []string{"net/url.Parse=vpModelURLParse", "path.Join=vpModelPathJoin"},
				What: "every Cache.MarshalJSON shape (false, paths, full map with extras, {}, name only) round-trips"},
			{Pkg: ".", Name: "c09_pipeline", Quick: map[string]int{}, Unwind: [2]int{64, 64}, FixedMapOrder: true, Models: []string{"net/url.Parse=vpModelURLParse", "path.Join=vpModelPathJoin"},
				What: "a small pipeline (command with plugin, group with children, wait/input/trigger/unknown step, env block, extras) through the whole-document path: same step kinds, group contents, env order; idempotent"},
			{Pkg: ".", Name: "c09_mixed_keys", Quick: map[string]int{}, Unwind: [2]int{64, 64}, FixedMapOrder: true, Models: []string{"net/url.Parse=vpModelURLParse", "path.Join=vpModelPathJoin"},
				What: "a step without `type` that carries keys of two kind families (every ordered pair of command, plugins, wait, block, input, trigger, group): whatever kind it parses to, the JSON and the YAML form parse to the same kind again and the JSON normal form is a fixpoint (the marshallers re-order keys: the decision must not depend on key order)"},
			{Pkg: ".", Name: "c09_yaml_step", Quick: map[string]int{}, Unwind: [2]int{64, 64}, FixedMapOrder: true, Budget: [2]int{120, 900}, Models: []string{"net/url.Parse=vpModelURLParse", "path.Join=vpModelPathJoin"},
				What: "YAML leg on the node data model: yaml.Marshal of a pipeline holding one command step from the option lattice (env, plugins, every matrix and cache shape, signature, extras) -> node tree -> parse again: no warning, still a command step, and the same JSON data model as before (both formats carry the same data)"},
			{Pkg: ".", Name: "c09_yaml_pipeline", Quick: map[string]int{}, Unwind: [2]int{64, 64}, FixedMapOrder: true, Models: []string{"net/url.Parse=vpModelURLParse", "path.Join=vpModelPathJoin"},
				What: "YAML leg on the node data model for a small pipeline: scalar and mapping wait/input/trigger/unknown steps, a group with and without name, env block, extras"},
		},
		Outside: []string{
			"the entire YAML leg (yaml.v3 interprets the struct tags, emits and re-scans), whether an emitted scalar (yes, 0x1f, 2002-08-15, <<, multi-line text) re-parses to the same typed value, and byte-identical repeated marshalling: properties of the yaml.v3 / encoding/json emitters and parsers, which a hand-written SSA->SMT executor cannot run - not claimed",
			"the JSON -> node step is modelled: JSON bytes read by yaml.v3 give flow mappings/sequences whose scalars resolve to !!str (quoted), !!int, !!float, !!bool, !!null",
		},
		Assumptions: []string{"yaml.Unmarshal of JSON bytes is modelled by converting the abstract JSON tree to the node graph yaml.v3's parser produces for JSON input; yaml.Node.Decode on scalar nodes by tag", "encoding/json.Marshal in the abstract JSON data model", "url/path models as in C17"},
	})
	add(PropSpec{
		ID: "C02",
		Harnesses: []HSpec{
			{Pkg: "signature", Name: "c02_roundtrip", Quick: map[string]int{}, Unwind: [2]int{64, 64}, Budget: [2]int{120, 1500}, FixedMapOrder: true, Models: []string{"net/url.Parse=vpModelURLParse", "path.Join=vpModelPathJoin"},
				What: "SignSteps on a command step drawn from an option lattice (command incl. multi-line, env nil/empty/populated with type-looking strings, plugins nil/empty/short source/canonical source with every scalar kind in configs, matrix nil/empty/simple/named+adjustments/only adjustments, pipeline env with a shadowed variable, all key kinds) plus wait and group steps -> json.Marshal -> re-parse via CommandStep.UnmarshalJSON and via the whole-pipeline path -> Verify with the pipeline env plus an unrelated variable: signature unchanged and still verifies, also inside groups"},
			{Pkg: "signature", Name: "c02_yaml", Quick: map[string]int{}, Unwind: [2]int{64, 64}, Budget: [2]int{120, 1500}, FixedMapOrder: true, Models: []string{"net/url.Parse=vpModelURLParse", "path.Join=vpModelPathJoin"},
				What: "the same signed worlds through the YAML leg on the node data model: yaml.Marshal of the signed pipeline -> node tree -> parse -> Verify; signature value unchanged, still verifies, also inside groups"},
			{Pkg: "signature", Name: "c02_parsed", Quick: map[string]int{}, Unwind: [2]int{64, 64}, Budget: [2]int{120, 1500}, FixedMapOrder: true, Models: []string{"net/url.Parse=vpModelURLParse", "path.Join=vpModelPathJoin"},
				What: "the upload path on steps that come out of the parser: a command-step document in the decoder's input form (9 matrix spellings incl. `matrix: []`, `setup: []`, `setup: {}`, `setup: null`, mixed scalar kinds; 3 env spellings with non-string scalars and null; 4 plugin spellings; label and an unknown key) -> ordered.Unmarshal -> SignSteps -> json.Marshal and yaml.Marshal -> re-parse (whole pipeline, and CommandStep.UnmarshalJSON) -> Verify"},
			{Pkg: "signature", Name: "c02_resigned", Quick: map[string]int{}, Unwind: [2]int{64, 64}, Budget: [2]int{120, 1500}, FixedMapOrder: true, Models: []string{"net/url.Parse=vpModelURLParse", "path.Join=vpModelPathJoin"},
				What: "documents that already carry a (stale) signature block, and plugin sources in unusual spellings (trailing or doubled slashes, dot segments, canonical source with a trailing slash): parse -> SignSteps now -> verifies in memory and after the JSON and YAML round trips"},
		},
		Outside: []string{
			"the YAML leg and real bytes: the round trip through yaml.v3's emitter/scanner and encoding/json's byte output, and real signatures - this part of C02 is not claimed",
			"interpolation before signing (C04/C10); Go map iteration orders are not varied here (C14 decides payload order-insensitivity)",
		},
		Assumptions: []string{"ideal signature scheme: jws.Sign(k, alg, P) is the atom sigma(k, alg, P); jws.Verify succeeds iff the presented value is such an atom made with an offered key (same key-pair identity and algorithm) over an equal payload; values not produced by Sign never verify. Natively replays use real generated EdDSA/ES512/PS512/ES256 keys",
			"canonical encoding: encoding/json.Marshal + jcs.Transform are injective on, and a function of, the JSON data model (member order and number spelling canonicalised: an int re-read as a float of the same value is the same number)",
			"yaml.Unmarshal of JSON bytes modelled on the JSON data model (C09)"},
	})
	return r
}
