package main

// A tiny abstract domain used only to avoid solver calls: for byte-like
// symbolic integers (values within 0..255) the set of values not yet excluded
// by the path condition is tracked as a bitset. It over-approximates the path
// condition, so "no value of the domain satisfies c" implies c is infeasible
// and "every value satisfies c" implies not-c is infeasible; anything else is
// left to the solver.

type bitset [4]uint64

func (b *bitset) has(v int64) bool { return v >= 0 && v < 256 && b[v>>6]&(1<<(uint(v)&63)) != 0 }
func (b *bitset) set(v int64)      { b[v>>6] |= 1 << (uint(v) & 63) }
func (b *bitset) clear(v int64) {
	if v >= 0 && v < 256 {
		b[v>>6] &^= 1 << (uint(v) & 63)
	}
}
func (b *bitset) count() int {
	n := 0
	for _, w := range b {
		for ; w != 0; w &= w - 1 {
			n++
		}
	}
	return n
}

const (
	d3F = 0
	d3T = 1
	d3U = 2
)

func not3(a int) int {
	switch a {
	case d3T:
		return d3F
	case d3F:
		return d3T
	}
	return d3U
}

// atomVarConst recognises (op x k) / (op k x) with x a tracked variable and k a constant.
func (e *Engine) atomVarConst(t *Term) (dom *bitset, op string, k int64, ok bool) {
	if len(t.args) != 2 {
		return nil, "", 0, false
	}
	a, b := t.args[0], t.args[1]
	op = t.op
	if a.konst && b.op == "var" {
		a, b = b, a
		switch op {
		case "<":
			op = ">"
		case "<=":
			op = ">="
		case ">":
			op = "<"
		case ">=":
			op = "<="
		}
	}
	if a.op != "var" || !b.konst || a.isBool {
		return nil, "", 0, false
	}
	d, has := e.doms[a.s]
	if !has {
		return nil, "", 0, false
	}
	return d, op, b.iv, true
}

func sat1(op string, v, k int64) bool {
	switch op {
	case "=":
		return v == k
	case "<":
		return v < k
	case "<=":
		return v <= k
	case ">":
		return v > k
	case ">=":
		return v >= k
	}
	return false
}

// singleVar reports the one tracked variable a term depends on (no other
// variables at all), if that is the case.
func (e *Engine) singleVar(t *Term, found *string, budget *int) bool {
	*budget--
	if *budget < 0 {
		return false
	}
	if t.konst {
		return true
	}
	if t.op == "var" {
		if t.isBool {
			return false
		}
		if _, ok := e.doms[t.s]; !ok {
			return false
		}
		if *found != "" && *found != t.s {
			return false
		}
		*found = t.s
		return true
	}
	if len(t.args) == 0 {
		return false
	}
	for _, a := range t.args {
		if !e.singleVar(a, found, budget) {
			return false
		}
	}
	return true
}

// evalConc evaluates a term with its single variable bound to v.
// Integers and Booleans are both returned as int64 (0/1 for Booleans).
func evalConc(t *Term, v int64) (int64, bool) {
	if t.konst {
		if t.isBool {
			if t.bv {
				return 1, true
			}
			return 0, true
		}
		return t.iv, true
	}
	if t.op == "var" {
		return v, true
	}
	xs := make([]int64, len(t.args))
	for i, a := range t.args {
		x, ok := evalConc(a, v)
		if !ok {
			return 0, false
		}
		xs[i] = x
	}
	b := func(c bool) (int64, bool) {
		if c {
			return 1, true
		}
		return 0, true
	}
	switch t.op {
	case "not":
		return 1 - xs[0], true
	case "and":
		for _, x := range xs {
			if x == 0 {
				return 0, true
			}
		}
		return 1, true
	case "or":
		for _, x := range xs {
			if x != 0 {
				return 1, true
			}
		}
		return 0, true
	case "=":
		return b(xs[0] == xs[1])
	case "<":
		return b(xs[0] < xs[1])
	case "<=":
		return b(xs[0] <= xs[1])
	case ">":
		return b(xs[0] > xs[1])
	case ">=":
		return b(xs[0] >= xs[1])
	case "+":
		return xs[0] + xs[1], true
	case "-":
		return xs[0] - xs[1], true
	case "*":
		return xs[0] * xs[1], true
	case "ite":
		if xs[0] != 0 {
			return xs[1], true
		}
		return xs[2], true
	case "div", "mod":
		// SMT-LIB semantics for a positive divisor: floor division, 0 <= mod < d
		if xs[1] <= 0 {
			return 0, false
		}
		q := xs[0] / xs[1]
		r := xs[0] % xs[1]
		if r < 0 {
			r += xs[1]
			q--
		}
		if t.op == "div" {
			return q, true
		}
		return r, true
	}
	return 0, false
}

// eval3 evaluates a Boolean term over the domains: true for every choice of
// values, false for every choice, or unknown.
func (e *Engine) eval3(t *Term) int {
	if t.konst {
		if t.bv {
			return d3T
		}
		return d3F
	}
	name, budget := "", 64
	if e.singleVar(t, &name, &budget) && name != "" {
		d := e.doms[name]
		anyT, anyF := false, false
		for v := int64(0); v < 256; v++ {
			if !d.has(v) {
				continue
			}
			r, ok := evalConc(t, v)
			if !ok {
				return d3U
			}
			if r != 0 {
				anyT = true
			} else {
				anyF = true
			}
			if anyT && anyF {
				return d3U
			}
		}
		if anyT && !anyF {
			return d3T
		}
		if anyF && !anyT {
			return d3F
		}
		return d3U
	}
	switch t.op {
	case "not":
		return not3(e.eval3(t.args[0]))
	case "and":
		r := d3T
		for _, a := range t.args {
			switch e.eval3(a) {
			case d3F:
				return d3F
			case d3U:
				r = d3U
			}
		}
		return r
	case "or":
		r := d3F
		for _, a := range t.args {
			switch e.eval3(a) {
			case d3T:
				return d3T
			case d3U:
				r = d3U
			}
		}
		return r
	case "=", "<", "<=", ">", ">=":
		d, op, k, ok := e.atomVarConst(t)
		if !ok {
			return d3U
		}
		anyT, anyF := false, false
		for w := 0; w < 4; w++ {
			bits := d[w]
			for bits != 0 {
				low := bits & -bits
				v := int64(w*64 + trailingZeros(low))
				bits &^= low
				if sat1(op, v, k) {
					anyT = true
				} else {
					anyF = true
				}
				if anyT && anyF {
					return d3U
				}
			}
		}
		if anyT && !anyF {
			return d3T
		}
		if anyF && !anyT {
			return d3F
		}
		return d3U
	}
	return d3U
}

func trailingZeros(x uint64) int {
	n := 0
	for x&1 == 0 {
		x >>= 1
		n++
	}
	return n
}

// narrow refines the domains with a fact that has just been asserted.
func (e *Engine) narrow(t *Term, positive bool) {
	name, budget := "", 64
	if e.singleVar(t, &name, &budget) && name != "" {
		d := e.doms[name]
		for v := int64(0); v < 256; v++ {
			if !d.has(v) {
				continue
			}
			if r, ok := evalConc(t, v); ok && (r != 0) != positive {
				d.clear(v)
			}
		}
		return
	}
	switch t.op {
	case "not":
		e.narrow(t.args[0], !positive)
		return
	case "and":
		if positive {
			for _, a := range t.args {
				e.narrow(a, true)
			}
		}
		return
	case "or":
		if !positive {
			for _, a := range t.args {
				e.narrow(a, false)
			}
		}
		return
	case "=", "<", "<=", ">", ">=":
		d, op, k, ok := e.atomVarConst(t)
		if !ok {
			return
		}
		for v := int64(0); v < 256; v++ {
			if d.has(v) && sat1(op, v, k) != positive {
				d.clear(v)
			}
		}
	}
}

// newDomain starts tracking a fresh variable known to lie in [lo,hi] ⊆ [0,255].
func (e *Engine) newDomain(name string, lo, hi int64) {
	if lo < 0 || hi > 255 || lo > hi {
		return
	}
	d := &bitset{}
	for v := lo; v <= hi; v++ {
		d.set(v)
	}
	e.doms[name] = d
}
