package main

import (
	"regexp"
	"strconv"
	"fmt"
	"go/types"
	"reflect"
	"strings"

	"golang.org/x/tools/go/ssa"
)

// recordPrim notes a harness primitive's value for the replay script.
func (e *Engine) recordPrim(kind string, terms ...*Term) {
	e.prims = append(e.prims, PrimRec{Kind: kind, Terms: terms})
}

func (e *Engine) classConstraint(b *Term, class string) *Term {
	if class == "" {
		return tAnd(tCmp("<=", mkInt(32), b), tCmp("<=", b, mkInt(126)))
	}
	return tAnd(tAnd(tCmp("<=", mkInt(0), b), tCmp("<=", b, mkInt(255))), e.reMatch("^["+class+"]$", StrVal{bytes: []*Term{b}}))
}

func (e *Engine) freshStr(n int, class string) StrVal {
	sv := StrVal{bytes: make([]*Term, n)}
	for k := range sv.bytes {
		b := e.fresh("c", false)
		e.newDomain(b.s, 0, 255)
		e.assertPC(e.classConstraint(b, class))
		sv.bytes[k] = b
	}
	return sv
}

func (e *Engine) mustStr(v Value, what string) string {
	s, ok := concreteStr(v)
	if !ok {
		unsupported("%s needs a concrete string", what)
	}
	return s
}

func (e *Engine) newError(msg StrVal, wrapped ...IfaceVal) IfaceVal {
	slot := new(Value)
	*slot = &FmtErr{msg: msg, wrapped: wrapped}
	return IfaceVal{typ: e.sh.marks.fmtErr, val: PtrVal{slot}}
}

func (e *Engine) opaqueStr() StrVal {
	e.atomSeq++
	return StrVal{atom: &Atom{kind: "opaque", id: e.atomSeq}}
}

func (e *Engine) intrinsic(fn *ssa.Function, args []Value) (Value, bool) {
	name := fn.Name()
	if strings.HasPrefix(name, "vp") && e.isHarnessFn(fn) {
		if v, ok := e.harnessPrim(fn, name, args); ok {
			return v, true
		}
	}
	full := fn.String()
	if full == "net/url.Parse" {
		// concrete input: the real library is exact; the Go-written model of a
		// harness package is for symbolic strings
		if v, ok := e.urlIntrinsic(fn, full, args); ok {
			return v, true
		}
	}
	if r, ok := e.sh.replace[full]; ok {
		return e.call(r, args), true
	}
	if e.inScope(fn) {
		// a few in-scope functions whose bodies are pure formatting
		switch full {
		case "(*github.com/buildkite/go-pipeline/warning.Warning).Error":
			// the text is opaque, but the body is run for whatever it does to the
			// warning itself (it should do nothing): formatting that the engine
			// cannot follow ends the attempt, not the path
			e.runForEffects(fn, args)
			return e.opaqueStr(), true
		}
		return nil, false
	}
	if v, ok := e.libIntrinsic(fn, full, args); ok {
		return v, true
	}
	if v, ok := e.strIntrinsic(fn, full, args); ok {
		return v, true
	}
	if v, ok := e.jsonIntrinsic(fn, full, args); ok {
		return v, true
	}
	if v, ok := e.reflectIntrinsic(fn, full, args); ok {
		return v, true
	}
	if v, ok := e.yamlIntrinsic(fn, full, args); ok {
		return v, true
	}
	if v, ok := e.cryptoIntrinsic(fn, full, args); ok {
		return v, true
	}
	if v, ok := e.urlIntrinsic(fn, full, args); ok {
		return v, true
	}
	return nil, false
}

func (e *Engine) isHarnessFn(fn *ssa.Function) bool {
	return fn.Pkg != nil && fn.Pkg == e.sh.pkg
}

func (e *Engine) harnessPrim(fn *ssa.Function, name string, args []Value) (Value, bool) {
	switch name {
	case "vpInt":
		lo, hi := args[0].(*Term), args[1].(*Term)
		t := e.fresh("i", false)
		if lo.konst && hi.konst {
			e.newDomain(t.s, lo.iv, hi.iv)
		}
		e.assertPC(tAnd(tCmp("<=", lo, t), tCmp("<=", t, hi)))
		e.recordPrim("i", t)
		return t, true
	case "vpSnapshot":
		// a deep copy of everything reachable from the argument (all fields,
		// exported or not), to be compared with the live object later
		cp := snapCopy(args[0], map[*Value]*Value{}, map[*ArrayVal]*ArrayVal{}, map[*MapObj]*MapObj{})
		return e.opaqueIface(&SnapObj{v: cp}), true
	case "vpUnchanged":
		obj, ok := opaqueObj(args[1])
		sn, ok2 := obj.(*SnapObj)
		if !ok || !ok2 {
			unsupported("vpUnchanged without a snapshot")
		}
		return snapEq(e, args[0], sn.v, map[[2]*Value]bool{}), true
	case "vpShared":
		// number of mutable heap objects (pointer targets, slice backing arrays,
		// maps) reachable from both arguments; strings, functions and opaque
		// library objects are immutable and do not count
		seen := map[any]bool{}
		heapWalk(args[0], seen, nil)
		n := 0
		heapWalk(args[1], map[any]bool{}, func(id any) {
			if seen[id] {
				n++
			}
		})
		return mkInt(int64(n)), true
	case "vpBoundarySize":
		// a size next to one of the integer constants of the named code (current
		// SSA): c-1, c, c+1 for each constant 2 < c <= max, and max itself - the
		// sizes at which a threshold in the code flips
		cands := e.sh.sizeCandidates(e.mustStr(args[0], "vpBoundarySize"), int(e.concretize(args[1].(*Term), 0, 4096)))
		t := e.fresh("i", false)
		c := tFalse
		for _, v := range cands {
			c = tOr(c, tEq(t, mkInt(int64(v))))
		}
		e.assertPC(c)
		e.recordPrim("i", t)
		return mkInt(int64(cands[e.concretizeAmong(t, cands)])), true
	case "vpBool":
		t := e.fresh("b", true)
		e.recordPrim("b", t)
		return t, true
	case "vpByte":
		b := e.fresh("c", false)
		e.newDomain(b.s, 0, 255)
		e.assertPC(e.classConstraint(b, e.mustStr(args[0], "vpByte class")))
		e.recordPrim("i", b)
		return b, true
	case "vpStr":
		n := e.concretize(args[0].(*Term), 0, 64)
		sv := e.freshStr(n, e.mustStr(args[1], "vpStr class"))
		e.recordPrim("s", sv.bytes...)
		return sv, true
	case "vpStrUpTo":
		max := e.concretize(args[0].(*Term), 0, 64)
		class := e.mustStr(args[1], "vpStrUpTo class")
		lt := e.fresh("len", false)
		e.newDomain(lt.s, 0, int64(max))
		e.assertPC(tAnd(tCmp("<=", mkInt(0), lt), tCmp("<=", lt, mkInt(int64(max)))))
		n := e.concretize(lt, 0, max)
		sv := e.freshStr(n, class)
		e.recordPrim("s", sv.bytes...)
		return sv, true
	case "vpAssume":
		if !e.decide(args[0].(*Term)) {
			panic(pathEnd{"assume", ""})
		}
		return nil, true
	case "vpOutside":
		panic(pathEnd{"outside", e.mustStr(args[0], "vpOutside")})
	case "vpUnsupported":
		unsupported("harness: %s", e.mustStr(args[0], "vpUnsupported"))
	case "vpParam":
		pn := e.mustStr(args[0], "vpParam")
		v, ok := e.sh.params[pn]
		if !ok {
			unsupported("harness parameter %q not set", pn)
		}
		return mkInt(int64(v)), true
	case "vpCover":
		e.sh.cover(e.mustStr(args[0], "vpCover"))
		return nil, true
	case "vpExpectPanic":
		e.expectPanic = e.mustStr(args[0], "vpExpectPanic")
		return nil, true
	case "vpNote":
		e.notes = append(e.notes, e.mustStr(args[0], "vpNote")+"="+describe(args[1], 0))
		return nil, true
	case "vpSymbolic":
		return tTrue, true
	case "vpBoundedRecursion":
		// from here on, exceeding the call-depth bound is a finding (the
		// input is finite, so unbounded recursion is non-termination)
		e.depthIsFinding = true
		return nil, true
	case "vpAssert":
		c := args[0].(*Term)
		label := e.mustStr(args[1], "vpAssert label")
		e.st.AssertsChecked++
		e.sh.mu.Lock()
		e.sh.assertSites[label]++
		e.sh.mu.Unlock()
		if c.konst && c.bv {
			return nil, true
		}
		neg := tNot(c)
		var r string
		if c.konst {
			r = "sat" // the path condition itself is satisfiable
		} else {
			e.st.AssertQueries++
			r = e.sol.CheckWith(neg)
			switch r {
			case "sat":
				e.st.Sat++
			case "unsat":
				e.st.Unsat++
			default:
				e.st.UnknownQ++
			}
		}
		if r == "sat" {
			e.st.AssertsFailed++
			e.sol.Push()
			e.sol.Assert(neg)
			e.reportFinding("assert", label, "")
			e.sol.Pop()
			panic(pathEnd{"assert", label})
		}
		if r != "unsat" {
			panic(pathEnd{"unknown", "assertion " + label + ": solver unknown"})
		}
		if !e.secondOpinion(neg) {
			e.sh.noteInconclusive("second solver did not confirm unsat for assertion " + label)
		}
		e.assertPC(c)
		return nil, true
	case "vpStrConst":
		// one of the string constants that occur in the named functions of the
		// package under test (read from the current SSA): a dictionary that
		// follows the code, so inputs can contain the code's own magic strings
		words := e.sh.strConsts(e.mustStr(args[0], "vpStrConst"))
		if len(words) == 0 {
			unsupported("vpStrConst: no string constants found")
		}
		it := e.fresh("dict", false)
		e.newDomain(it.s, 0, int64(len(words)-1))
		e.assertPC(tAnd(tCmp("<=", mkInt(0), it), tCmp("<=", it, mkInt(int64(len(words)-1)))))
		w := mkStr(words[e.concretize(it, 0, len(words)-1)])
		e.recordPrim("s", w.bytes...)
		return w, true
	case "vpStrConstOr":
		// like vpStrConst with one more word, the given default - so the choice
		// is trivial (no fork) while the named code has no string constants
		words := append([]string{e.mustStr(args[1], "vpStrConstOr default")}, e.sh.strConsts(e.mustStr(args[0], "vpStrConstOr"))...)
		it := e.fresh("dict", false)
		e.newDomain(it.s, 0, int64(len(words)-1))
		e.assertPC(tAnd(tCmp("<=", mkInt(0), it), tCmp("<=", it, mkInt(int64(len(words)-1)))))
		w := mkStr(words[e.concretize(it, 0, len(words)-1)])
		e.recordPrim("s", w.bytes...)
		return w, true
	case "vpStrConstLike":
		// (names, pattern, default): the default, or one of the string constants of
		// the named code ("*": the whole package under test) that match the pattern
		words := []string{e.mustStr(args[2], "vpStrConstLike default")}
		re, err := regexp.Compile(e.mustStr(args[1], "vpStrConstLike pattern"))
		if err != nil {
			unsupported("vpStrConstLike: bad pattern")
		}
		for _, w := range e.sh.strConsts(e.mustStr(args[0], "vpStrConstLike")) {
			if re.MatchString(w) && w != words[0] {
				words = append(words, w)
			}
		}
		it := e.fresh("dict", false)
		e.newDomain(it.s, 0, int64(len(words)-1))
		e.assertPC(tAnd(tCmp("<=", mkInt(0), it), tCmp("<=", it, mkInt(int64(len(words)-1)))))
		w := mkStr(words[e.concretize(it, 0, len(words)-1)])
		e.recordPrim("s", w.bytes...)
		return w, true
	case "vpConstChars":
		// the distinct printable bytes that occur in string and byte constants of
		// the named functions (current SSA), as a character-class body
		return mkStr(e.sh.constChars(e.mustStr(args[0], "vpConstChars"))), true
	case "vpReMatch":
		return e.reMatchUnanchored(e.mustStr(args[0], "vpReMatch"), args[1].(StrVal)), true
	}
	if v, ok := e.jInspect(name, args); ok {
		return v, true
	}
	if v, ok := e.harnessExtra(fn, name, args); ok {
		return v, true
	}
	return nil, false
}

// fmtVerbs returns the verb letter for each operand of a format string.
func fmtVerbs(f string) []byte {
	var out []byte
	for i := 0; i < len(f); i++ {
		if f[i] != '%' {
			continue
		}
		i++
		for i < len(f) && strings.IndexByte("+-# 0123456789.*[]", f[i]) >= 0 {
			i++
		}
		if i >= len(f) {
			break
		}
		if f[i] == '%' {
			continue
		}
		out = append(out, f[i])
	}
	return out
}

// goValue converts a fully concrete engine scalar to a native Go value.
func goValue(v Value) (any, bool) {
	switch v := v.(type) {
	case *Term:
		if !v.konst {
			return nil, false
		}
		if v.isBool {
			return v.bv, true
		}
		return int(v.iv), true
	case StrVal:
		s, ok := concreteStr(v)
		return s, ok
	case FloatVal:
		return v.f, true
	case U64Val:
		return v.u, true
	case IfaceVal:
		if v.typ == nil {
			return nil, true
		}
		if b, ok := v.typ.Underlying().(*types.Basic); ok {
			_ = b
			return goValue(v.val)
		}
		return nil, false
	}
	return nil, false
}

func (e *Engine) sprint(args []Value) Value {
	if len(args) == 1 {
		a := args[0]
		if iv, ok := a.(IfaceVal); ok {
			if iv.typ == nil {
				return mkStr("<nil>")
			}
			if b, ok := iv.typ.Underlying().(*types.Basic); ok {
				switch {
				case b.Info()&types.IsString != 0:
					return iv.val
				case b.Info()&types.IsBoolean != 0:
					if e.decide(iv.val.(*Term)) {
						return mkStr("true")
					}
					return mkStr("false")
				case b.Info()&types.IsInteger != 0:
					if u, big := iv.val.(U64Val); big {
						return mkStr(strconv.FormatUint(u.u, 10))
					}
					t := iv.val.(*Term)
					if t.konst {
						return mkStr(fmt.Sprint(t.iv))
					}
					// small non-negative symbolic integers: decimal digits
					if !e.decide(tAnd(tCmp("<=", mkInt(0), t), tCmp("<=", t, mkInt(9)))) {
						unsupported("fmt.Sprint of symbolic integer outside 0..9")
					}
					return StrVal{bytes: []*Term{tArith("+", t, mkInt(48))}}
				case b.Info()&types.IsFloat != 0:
					return mkStr(fmt.Sprint(iv.val.(FloatVal).f))
				}
			}
		}
	}
	if len(args) == 1 {
		if iv, ok := args[0].(IfaceVal); ok && iv.typ != nil {
			if st, isSl := iv.typ.Underlying().(*types.Slice); isSl {
				if b, isB := st.Elem().Underlying().(*types.Basic); isB && b.Kind() == types.String {
					if _, named := st.Elem().(*types.Named); !named {
						out := StrVal{bytes: []*Term{mkInt('[')}}
						for i, x := range sliceElems(iv.val.(SliceVal)) {
							xs := x.(StrVal)
							if xs.atom != nil {
								return e.opaqueStr()
							}
							if i > 0 {
								out.bytes = append(out.bytes, mkInt(' '))
							}
							out.bytes = append(out.bytes, xs.bytes...)
						}
						out.bytes = append(out.bytes, mkInt(']'))
						return out
					}
				}
			}
		}
	}
	gs := make([]any, len(args))
	for i, a := range args {
		g, ok := goValue(a)
		if !ok {
			return e.opaqueStr()
		}
		gs[i] = g
	}
	return mkStr(fmt.Sprint(gs...))
}

func variadic(v Value) []Value {
	return sliceElems(v.(SliceVal))
}

func (e *Engine) libIntrinsic(fn *ssa.Function, full string, args []Value) (Value, bool) {
	switch full {
	case "errors.New":
		return e.newError(args[0].(StrVal)), true
	case "fmt.Errorf":
		f := e.mustStr(args[0], "fmt.Errorf format")
		ops := variadic(args[1])
		verbs := fmtVerbs(f)
		var wrapped []IfaceVal
		for i, vb := range verbs {
			if vb == 'w' && i < len(ops) {
				if iv, ok := ops[i].(IfaceVal); ok && iv.typ != nil {
					wrapped = append(wrapped, iv)
				}
			}
		}
		return e.newError(e.opaqueStr(), wrapped...), true
	case "errors.Join":
		var wrapped []IfaceVal
		for _, x := range variadic(args[0]) {
			if iv, ok := x.(IfaceVal); ok && iv.typ != nil {
				wrapped = append(wrapped, iv)
			}
		}
		if len(wrapped) == 0 {
			return IfaceVal{}, true
		}
		return e.newError(e.opaqueStr(), wrapped...), true
	case "errors.As":
		tgt := args[1].(IfaceVal)
		pt, isPtr := tgt.typ.Underlying().(*types.Pointer)
		tp, isP := tgt.val.(PtrVal)
		if !isPtr || !isP || tp.slot == nil {
			e.goPanic("errors.As: target must be a non-nil pointer")
		}
		return mkBool(e.errorsAs(args[0].(IfaceVal), pt.Elem(), tp.slot, 0)), true
	case "errors.Is":
		return mkBool(e.errorsIs(args[0].(IfaceVal), args[1].(IfaceVal), 0)), true
	case "errors.Unwrap":
		iv := args[0].(IfaceVal)
		if iv.typ == e.sh.marks.fmtErr {
			fe := (*iv.val.(PtrVal).slot).(*FmtErr)
			if len(fe.wrapped) == 1 {
				return fe.wrapped[0], true
			}
		}
		return IfaceVal{}, true
	case "fmt.Sprintf":
		f := e.mustStr(args[0], "fmt.Sprintf format")
		ops := variadic(args[1])
		if f == "%s" && len(ops) == 1 {
			return e.sprint(ops), true
		}
		gs := make([]any, len(ops))
		allConc := true
		for i, a := range ops {
			g, ok := goValue(a)
			if !ok {
				allConc = false
				break
			}
			gs[i] = g
		}
		if allConc {
			return mkStr(fmt.Sprintf(f, gs...)), true
		}
		// plain %s / %v / %d verbs with symbolic operands: literal pieces and
		// the operands' text; anything fancier stays opaque
		out := StrVal{}
		argi := 0
		for i := 0; i < len(f); i++ {
			if f[i] != '%' {
				out.bytes = append(out.bytes, mkInt(int64(f[i])))
				continue
			}
			i++
			if i >= len(f) {
				return e.opaqueStr(), true
			}
			switch f[i] {
			case '%':
				out.bytes = append(out.bytes, mkInt('%'))
			case 's', 'v', 'd':
				if argi >= len(ops) {
					return e.opaqueStr(), true
				}
				iv, isI := ops[argi].(IfaceVal)
				if !isI || iv.typ == nil {
					return e.opaqueStr(), true
				}
				if b, ok := iv.typ.Underlying().(*types.Basic); !ok || b.Info()&(types.IsString|types.IsInteger|types.IsBoolean) == 0 ||
					(f[i] == 'd' && b.Info()&types.IsInteger == 0) || (f[i] == 's' && b.Info()&types.IsString == 0) {
					return e.opaqueStr(), true
				}
				if _, isNamed := iv.typ.(*types.Named); isNamed {
					return e.opaqueStr(), true // may have a String method
				}
				piece, ok := e.sprint([]Value{ops[argi]}).(StrVal)
				if !ok || piece.atom != nil {
					return e.opaqueStr(), true
				}
				out.bytes = append(out.bytes, piece.bytes...)
				argi++
			default:
				return e.opaqueStr(), true
			}
		}
		if argi != len(ops) {
			return e.opaqueStr(), true
		}
		return out, true
	case "fmt.Sprint":
		return e.sprint(variadic(args[0])), true
	case "fmt.Fprint", "fmt.Fprintf", "fmt.Fprintln", "fmt.Printf", "fmt.Println", "fmt.Print":
		return TupleVal{mkInt(0), IfaceVal{}}, true
	case "sort.Strings":
		e.sortStrings(args[0].(SliceVal))
		return nil, true
	case "sort.Slice", "sort.SliceStable":
		// insertion sort driven by the caller's less function (forks on its answers).
		// sort.SliceStable keeps equal elements in place; sort.Slice promises
		// nothing about them, so for sort.Slice two elements that less orders
		// neither way may come out in either order (a free choice per comparison)
		iv := args[0].(IfaceVal)
		sl, ok := iv.val.(SliceVal)
		if !ok {
			unsupported("sort.Slice of %v", iv.typ)
		}
		less := args[1].(FuncVal)
		unstable := full == "sort.Slice"
		for i := 1; i < sl.len; i++ {
			for j := i; j > 0; j-- {
				r := e.callFuncVal(less, []Value{mkInt(int64(j)), mkInt(int64(j - 1))}).(*Term)
				if !e.decide(r) {
					if !unstable {
						break
					}
					back := e.callFuncVal(less, []Value{mkInt(int64(j - 1)), mkInt(int64(j))}).(*Term)
					if e.decide(back) || !e.decide(e.fresh("tie", true)) {
						break
					}
				}
				a, b := &sl.arr.elems[sl.off+j], &sl.arr.elems[sl.off+j-1]
				ta, tb := copyVal(*a), copyVal(*b)
				assign(a, tb)
				assign(b, ta)
			}
		}
		return nil, true
	case "(*strings.Builder).WriteString":
		p := args[0].(PtrVal)
		cur := e.sbufs[p.slot]
		add := args[1].(StrVal)
		if add.atom != nil || cur.atom != nil {
			unsupported("strings.Builder with opaque string")
		}
		e.sbufs[p.slot] = StrVal{bytes: append(append([]*Term{}, cur.bytes...), add.bytes...)}
		return TupleVal{mkInt(int64(len(add.bytes))), IfaceVal{}}, true
	case "(*strings.Builder).WriteByte", "(*strings.Builder).WriteRune":
		p := args[0].(PtrVal)
		cur := e.sbufs[p.slot]
		c := args[1].(*Term)
		if c.konst && c.iv >= 128 {
			unsupported("strings.Builder.WriteRune of non-ASCII rune")
		}
		e.sbufs[p.slot] = StrVal{bytes: append(append([]*Term{}, cur.bytes...), c)}
		if full == "(*strings.Builder).WriteByte" {
			return IfaceVal{}, true
		}
		return TupleVal{mkInt(1), IfaceVal{}}, true
	case "(*strings.Builder).String":
		return e.sbufs[args[0].(PtrVal).slot], true
	case "(*strings.Builder).Len":
		return mkInt(int64(len(e.sbufs[args[0].(PtrVal).slot].bytes))), true
	case "(*strings.Builder).Grow":
		p := args[0].(PtrVal)
		if n := args[1].(*Term); n.konst && int(n.iv) > e.sbufCap[p.slot] {
			e.sbufCap[p.slot] = int(n.iv)
		} else if !n.konst {
			e.sbufCap[p.slot] = 1 << 20
		}
		return nil, true
	case "(*strings.Builder).Cap":
		p := args[0].(PtrVal)
		return mkInt(int64(max(e.sbufCap[p.slot], len(e.sbufs[p.slot].bytes)))), true
	case "(*strings.Builder).Reset":
		delete(e.sbufs, args[0].(PtrVal).slot)
		return nil, true
	case "context.Background", "context.TODO":
		return IfaceVal{typ: e.sh.marks.opaque, val: mkInt(0)}, true
	case "github.com/google/go-cmp/cmp.Comparer":
		return IfaceVal{typ: e.sh.marks.opaque, val: args[0].(IfaceVal).val}, true
	case "github.com/google/go-cmp/cmp.Equal":
		var comparers []FuncVal
		for _, o := range variadic(args[2]) {
			if oi, ok := o.(IfaceVal); ok {
				if fv, ok := oi.val.(FuncVal); ok {
					comparers = append(comparers, fv)
				}
			}
		}
		return e.cmpEqual(args[0].(IfaceVal), args[1].(IfaceVal), comparers, 0), true
	case "regexp.MustCompile":
		slot := new(Value)
		*slot = &RegexObj{pattern: e.mustStr(args[0], "regexp.MustCompile")}
		return PtrVal{slot}, true
	case "(*regexp.Regexp).ReplaceAllStringFunc":
		re := (*args[0].(PtrVal).slot).(*RegexObj)
		return e.reReplaceAllFunc(re.pattern, args[1].(StrVal), args[2].(FuncVal)), true
	case "(*regexp.Regexp).FindStringSubmatch":
		re := (*args[0].(PtrVal).slot).(*RegexObj)
		return e.reFindSubmatch(re.pattern, args[1].(StrVal)), true
	case "(*regexp.Regexp).MatchString":
		re := (*args[0].(PtrVal).slot).(*RegexObj)
		return e.reMatchUnanchored(re.pattern, args[1].(StrVal)), true
	case "(*regexp.Regexp).Match":
		re := (*args[0].(PtrVal).slot).(*RegexObj)
		return e.reMatchUnanchored(re.pattern, e.bytesText(args[1])), true
	case "(*regexp.Regexp).String":
		re := (*args[0].(PtrVal).slot).(*RegexObj)
		return mkStr(re.pattern), true
	}
	return nil, false
}

// cmpEqual implements go-cmp's Equal on the value shapes the repo passes to
// it: registered comparers first (the repo registers its own Equal for
// ordered maps), then comparable scalars, slices and string-keyed maps.
func (e *Engine) cmpEqual(a, b IfaceVal, comparers []FuncVal, depth int) *Term {
	if depth > 30 {
		unsupported("cmp.Equal nesting too deep")
	}
	if a.typ == nil || b.typ == nil {
		return mkBool(a.typ == nil && b.typ == nil)
	}
	if !types.Identical(a.typ, b.typ) {
		return tFalse
	}
	for _, c := range comparers {
		if c.fn != nil && c.fn.Signature.Params().Len() == 2 && types.Identical(c.fn.Signature.Params().At(0).Type(), a.typ) {
			return e.callFuncVal(c, []Value{a.val, b.val}).(*Term)
		}
	}
	box := func(t types.Type, v Value) IfaceVal {
		if isIfaceType(t) {
			return v.(IfaceVal)
		}
		return IfaceVal{typ: t, val: v}
	}
	switch u := a.typ.Underlying().(type) {
	case *types.Basic:
		return e.eq(a.val, b.val)
	case *types.Slice:
		as, bs := a.val.(SliceVal), b.val.(SliceVal)
		if (as.arr == nil) != (bs.arr == nil) || as.len != bs.len {
			return tFalse
		}
		r := tTrue
		for i := 0; i < as.len; i++ {
			r = tAnd(r, e.cmpEqual(box(u.Elem(), as.arr.elems[as.off+i]), box(u.Elem(), bs.arr.elems[bs.off+i]), comparers, depth+1))
		}
		return r
	case *types.Map:
		am, bm := a.val.(MapVal), b.val.(MapVal)
		if (am.m == nil) != (bm.m == nil) {
			return tFalse
		}
		if am.m == nil {
			return tTrue
		}
		if len(am.m.entries) != len(bm.m.entries) {
			return tFalse
		}
		r := tTrue
		for _, en := range am.m.entries {
			other := e.mapFind(bm.m, en.key)
			if other == nil {
				return tFalse
			}
			r = tAnd(r, e.cmpEqual(box(u.Elem(), en.val), box(u.Elem(), other.val), comparers, depth+1))
		}
		return r
	}
	unsupported("cmp.Equal on %v", a.typ)
	return nil
}

func (e *Engine) errorsIs(err, target IfaceVal, depth int) bool {
	if err.typ == nil || depth > 50 {
		return false
	}
	if types.Identical(err.typ, target.typ) || (target.typ != nil && err.typ == target.typ) {
		if types.Comparable(err.typ) || err.typ == e.sh.marks.fmtErr {
			if e.decide(e.eq(err, target)) {
				return true
			}
		}
	}
	if err.typ == e.sh.marks.fmtErr {
		fe := (*err.val.(PtrVal).slot).(*FmtErr)
		for _, w := range fe.wrapped {
			if e.errorsIs(w, target, depth+1) {
				return true
			}
		}
		return false
	}
	if m := e.findMethod(err.typ, "Unwrap"); m != nil {
		r := e.call(m, []Value{err.val})
		switch r := r.(type) {
		case IfaceVal:
			return e.errorsIs(r, target, depth+1)
		case SliceVal:
			for _, x := range sliceElems(r) {
				if e.errorsIs(x.(IfaceVal), target, depth+1) {
					return true
				}
			}
		}
	}
	return false
}

// errorsAs walks the error tree like errors.As: the first error whose dynamic
// type is assignable to the target's element type is stored there.
func (e *Engine) errorsAs(err IfaceVal, want types.Type, slot *Value, depth int) bool {
	if err.typ == nil || depth > 50 {
		return false
	}
	if it, isIface := want.Underlying().(*types.Interface); isIface {
		if e.implementsVal(err, it) {
			assign(slot, err)
			return true
		}
	} else if types.Identical(err.typ, want) {
		assign(slot, err.val)
		return true
	}
	if err.typ != e.sh.marks.fmtErr {
		if m := e.findMethod(err.typ, "As"); m != nil {
			unsupported("errors.As on a type with an As method")
		}
	}
	if err.typ == e.sh.marks.fmtErr {
		fe := (*err.val.(PtrVal).slot).(*FmtErr)
		for _, w := range fe.wrapped {
			if e.errorsAs(w, want, slot, depth+1) {
				return true
			}
		}
		return false
	}
	if m := e.findMethod(err.typ, "Unwrap"); m != nil {
		switch r := e.call(m, []Value{err.val}).(type) {
		case IfaceVal:
			return e.errorsAs(r, want, slot, depth+1)
		case SliceVal:
			for _, x := range sliceElems(r) {
				if e.errorsAs(x.(IfaceVal), want, slot, depth+1) {
					return true
				}
			}
		}
	}
	return false
}

func (e *Engine) fmtErrMethod(recv IfaceVal, name string, args []Value) Value {
	fe := (*recv.val.(PtrVal).slot).(*FmtErr)
	switch name {
	case "Error":
		return fe.msg
	case "Unwrap":
		if len(fe.wrapped) == 1 {
			return fe.wrapped[0]
		}
		return IfaceVal{}
	}
	unsupported("method %s on engine error value", name)
	return nil
}

// sortStrings sorts a slice of byte-vector strings in place by forking on
// comparisons (insertion sort).
func (e *Engine) sortStrings(s SliceVal) {
	el := sliceElems(s)
	for i := 1; i < len(el); i++ {
		for j := i; j > 0; j-- {
			a, b := el[j-1].(StrVal), el[j].(StrVal)
			if e.decide(strLess(b, a)) {
				el[j-1], el[j] = el[j], el[j-1]
			} else {
				break
			}
		}
	}
}

func (e *Engine) findMethod(t types.Type, name string) *ssa.Function {
	if t == e.sh.marks.fmtErr || t == e.sh.marks.rtype || t == e.sh.marks.regex || t == e.sh.marks.opaque {
		return nil
	}
	ms := e.sh.prog.MethodSets.MethodSet(t)
	for i := 0; i < ms.Len(); i++ {
		if ms.At(i).Obj().Name() == name {
			return e.sh.prog.MethodValue(ms.At(i))
		}
	}
	return nil
}

// heapWalk visits the mutable heap objects reachable from v once each.
func heapWalk(v Value, seen map[any]bool, visit func(id any)) {
	mark := func(id any) bool {
		if seen[id] {
			return false
		}
		seen[id] = true
		if visit != nil {
			visit(id)
		}
		return true
	}
	switch x := v.(type) {
	case PtrVal:
		if x.slot != nil && mark(x.slot) {
			switch (*x.slot).(type) {
			case *AbsKey, *AbsSet, *AbsSigner, *OptVal, *FmtErr, *RegexObj:
				return
			}
			heapWalk(*x.slot, seen, visit)
		}
	case *StructVal:
		for _, f := range x.fields {
			heapWalk(f, seen, visit)
		}
	case *ArrayVal:
		for _, f := range x.elems {
			heapWalk(f, seen, visit)
		}
	case SliceVal:
		if x.arr != nil && x.cap > 0 && mark(x.arr) {
			for i := 0; i < x.len; i++ {
				heapWalk(x.arr.elems[x.off+i], seen, visit)
			}
		}
	case MapVal:
		if x.m != nil && mark(x.m) {
			for _, en := range x.m.entries {
				heapWalk(en.key, seen, visit)
				heapWalk(en.val, seen, visit)
			}
		}
	case IfaceVal:
		if x.typ != nil {
			heapWalk(x.val, seen, visit)
		}
	case TupleVal:
		for _, f := range x {
			heapWalk(f, seen, visit)
		}
	}
}

// SnapObj holds a deep copy made by vpSnapshot.
type SnapObj struct{ v Value }

func snapCopy(v Value, ptrs map[*Value]*Value, arrs map[*ArrayVal]*ArrayVal, maps map[*MapObj]*MapObj) Value {
	switch x := v.(type) {
	case PtrVal:
		if x.slot == nil {
			return x
		}
		if c, ok := ptrs[x.slot]; ok {
			return PtrVal{c}
		}
		c := new(Value)
		ptrs[x.slot] = c
		switch (*x.slot).(type) {
		case *AbsKey, *AbsSet, *AbsSigner, *OptVal, *FmtErr, *RegexObj, *SnapObj:
			*c = *x.slot // immutable library objects: by identity
		default:
			*c = snapCopy(*x.slot, ptrs, arrs, maps)
		}
		return PtrVal{c}
	case *StructVal:
		n := &StructVal{fields: make([]Value, len(x.fields))}
		for i, f := range x.fields {
			n.fields[i] = snapCopy(f, ptrs, arrs, maps)
		}
		return n
	case *ArrayVal:
		if c, ok := arrs[x]; ok {
			return c
		}
		n := &ArrayVal{elems: make([]Value, len(x.elems))}
		arrs[x] = n
		for i, f := range x.elems {
			n.elems[i] = snapCopy(f, ptrs, arrs, maps)
		}
		return n
	case SliceVal:
		if x.arr == nil {
			return x
		}
		return SliceVal{arr: snapCopy(x.arr, ptrs, arrs, maps).(*ArrayVal), off: x.off, len: x.len, cap: x.cap}
	case MapVal:
		if x.m == nil {
			return x
		}
		if c, ok := maps[x.m]; ok {
			return MapVal{c}
		}
		n := &MapObj{}
		maps[x.m] = n
		for _, en := range x.m.entries {
			n.entries = append(n.entries, &MapEntry{key: snapCopy(en.key, ptrs, arrs, maps), val: snapCopy(en.val, ptrs, arrs, maps)})
		}
		return MapVal{n}
	case IfaceVal:
		if x.typ == nil {
			return x
		}
		return IfaceVal{typ: x.typ, val: snapCopy(x.val, ptrs, arrs, maps)}
	case TupleVal:
		n := make(TupleVal, len(x))
		for i, f := range x {
			n[i] = snapCopy(f, ptrs, arrs, maps)
		}
		return n
	}
	return v
}

// snapEq: is the live value structurally what the snapshot recorded? Scalars
// and strings compare symbolically; shapes (nil-ness, lengths, dynamic types,
// map entries in their stored order) must match exactly.
func snapEq(e *Engine, a, b Value, seen map[[2]*Value]bool) *Term {
	if reflect.TypeOf(a) != reflect.TypeOf(b) {
		return tFalse // e.g. a nil byte slice that now holds a document
	}
	switch x := a.(type) {
	case *Term:
		y, ok := b.(*Term)
		if !ok || x.isBool != y.isBool {
			return tFalse
		}
		return tEq(x, y)
	case StrVal:
		y, ok := b.(StrVal)
		if !ok {
			return tFalse
		}
		return strEq(x, y)
	case FloatVal:
		y, ok := b.(FloatVal)
		return mkBool(ok && x.f == y.f)
	case PtrVal:
		y, ok := b.(PtrVal)
		if !ok || (x.slot == nil) != (y.slot == nil) {
			return tFalse
		}
		if x.slot == nil {
			return tTrue
		}
		switch (*x.slot).(type) {
		case *AbsKey, *AbsSet, *AbsSigner, *OptVal, *FmtErr, *RegexObj, *SnapObj:
			return mkBool(*x.slot == *y.slot)
		}
		key := [2]*Value{x.slot, y.slot}
		if seen[key] {
			return tTrue // already being compared (shared or cyclic structure)
		}
		seen[key] = true
		return snapEq(e, *x.slot, *y.slot, seen)
	case *StructVal:
		y, ok := b.(*StructVal)
		if !ok || len(x.fields) != len(y.fields) {
			return tFalse
		}
		r := tTrue
		for i := range x.fields {
			r = tAnd(r, snapEq(e, x.fields[i], y.fields[i], seen))
		}
		return r
	case *ArrayVal:
		y, ok := b.(*ArrayVal)
		if !ok || len(x.elems) != len(y.elems) {
			return tFalse
		}
		r := tTrue
		for i := range x.elems {
			r = tAnd(r, snapEq(e, x.elems[i], y.elems[i], seen))
		}
		return r
	case SliceVal:
		y, ok := b.(SliceVal)
		if !ok || (x.arr == nil) != (y.arr == nil) || x.len != y.len {
			return tFalse
		}
		r := tTrue
		for i := 0; i < x.len; i++ {
			r = tAnd(r, snapEq(e, x.arr.elems[x.off+i], y.arr.elems[y.off+i], seen))
		}
		// what lies in the spare capacity is state too (appends into it are writes)
		for i := x.len; i < x.cap && i < y.cap; i++ {
			r = tAnd(r, snapEq(e, x.arr.elems[x.off+i], y.arr.elems[y.off+i], seen))
		}
		return r
	case MapVal:
		y, ok := b.(MapVal)
		if !ok || (x.m == nil) != (y.m == nil) {
			return tFalse
		}
		if x.m == nil {
			return tTrue
		}
		if len(x.m.entries) != len(y.m.entries) {
			return tFalse
		}
		r := tTrue
		for i := range x.m.entries {
			r = tAnd(r, tAnd(snapEq(e, x.m.entries[i].key, y.m.entries[i].key, seen), snapEq(e, x.m.entries[i].val, y.m.entries[i].val, seen)))
		}
		return r
	case IfaceVal:
		y, ok := b.(IfaceVal)
		if !ok || (x.typ == nil) != (y.typ == nil) {
			return tFalse
		}
		if x.typ == nil {
			return tTrue
		}
		if !types.Identical(x.typ, y.typ) && x.typ != y.typ {
			return tFalse
		}
		return snapEq(e, x.val, y.val, seen)
	case TupleVal:
		y, ok := b.(TupleVal)
		if !ok || len(x) != len(y) {
			return tFalse
		}
		r := tTrue
		for i := range x {
			r = tAnd(r, snapEq(e, x[i], y[i], seen))
		}
		return r
	case nil:
		return mkBool(b == nil)
	}
	return tTrue // functions, types and other immutable values
}

// runForEffects executes an in-scope function whose result is modelled
// elsewhere, keeping what it wrote; an unsupported construct inside it only
// stops this execution (effects up to that point stay). Recursion into the
// same function (nested warnings) is not followed.
func (e *Engine) runForEffects(fn *ssa.Function, args []Value) {
	if e.inEffectsRun {
		return
	}
	e.inEffectsRun = true
	depth := len(e.fnStack)
	defer func() {
		e.inEffectsRun = false
		if r := recover(); r != nil {
			if pe, ok := r.(pathEnd); ok && pe.kind == "unsupported" {
				if len(e.fnStack) > depth {
					e.fnStack = e.fnStack[:depth]
				}
				return
			}
			panic(r)
		}
	}()
	if fn.Blocks != nil {
		e.run(fn, args, nil)
	}
}
