package main

import (
	"bytes"
	"encoding/json"
	"fmt"
	"go/types"
	"reflect"
	"strconv"
	"strings"

	"golang.org/x/tools/go/ssa"
)

// Abstract JSON data model (DESIGN.md §3.2). Byte-level rendering is the
// libraries' and is not modelled.
type JVal interface{}
type JNull struct{}
type JBool struct{ b *Term }
type JNum struct{ v Value } // *Term (integer) or FloatVal
type JStr struct{ s StrVal }
type JArr struct{ elems []JVal }
type JObj struct {
	keys    []StrVal
	vals    []JVal
	ordered bool // emitted in this order (ordered.Map, struct); otherwise a Go map (sorted by the encoder)
}

// JBytes is the engine value of a []byte that holds a JSON document.
type JBytes struct{ tree JVal }

// SigBytes is the engine value of a []byte holding a compact JWS.
type SigBytes struct{ atom *Atom }

// bufSeg is a segment written to a bytes.Buffer.
type bufSeg struct {
	lit  string
	tree JVal
	str  *StrVal // symbolic text (the buffer used as a string builder)
}

type bufBytes struct{ segs []bufSeg }

// jEq is data-model equality: objects are compared as key->value sets
// (RFC 8785 output does not depend on member order), arrays positionally.
func jEq(a, b JVal) *Term {
	switch a := a.(type) {
	case JNull:
		_, ok := b.(JNull)
		return mkBool(ok)
	case JBool:
		bb, ok := b.(JBool)
		if !ok {
			return tFalse
		}
		return tEq(a.b, bb.b)
	case JNum:
		bn, ok := b.(JNum)
		if !ok {
			return tFalse
		}
		at, aInt := a.v.(*Term)
		bt, bInt := bn.v.(*Term)
		switch {
		case aInt && bInt:
			return tEq(at, bt)
		case !aInt && !bInt:
			return mkBool(a.v.(FloatVal).f == bn.v.(FloatVal).f)
		case aInt && at.konst:
			return mkBool(float64(at.iv) == bn.v.(FloatVal).f)
		case bInt && bt.konst:
			return mkBool(float64(bt.iv) == a.v.(FloatVal).f)
		}
		unsupported("comparison of symbolic integer with float in JSON model")
	case JStr:
		bs, ok := b.(JStr)
		if !ok {
			return tFalse
		}
		return strEq(a.s, bs.s)
	case JArr:
		ba, ok := b.(JArr)
		if !ok || len(a.elems) != len(ba.elems) {
			return tFalse
		}
		r := tTrue
		for i := range a.elems {
			r = tAnd(r, jEq(a.elems[i], ba.elems[i]))
			if r == tFalse {
				return r
			}
		}
		return r
	case JObj:
		bo, ok := b.(JObj)
		if !ok || len(a.keys) != len(bo.keys) {
			return tFalse
		}
		// keys are pairwise distinct within each object, so equal size plus
		// "every member of a occurs in b" is set equality
		r := tTrue
		for i := range a.keys {
			any := tFalse
			for j := range bo.keys {
				ke := strEq(a.keys[i], bo.keys[j])
				if ke == tFalse {
					continue
				}
				any = tOr(any, tAnd(ke, jEq(a.vals[i], bo.vals[j])))
			}
			r = tAnd(r, any)
			if r == tFalse {
				return r
			}
		}
		return r
	}
	unsupported("jEq on %T", a)
	return nil
}

func jDescribe(v JVal) string {
	switch v := v.(type) {
	case JNull:
		return "null"
	case JBool:
		return v.b.s
	case JNum:
		return describe(v.v, 0)
	case JStr:
		return describe(v.s, 0)
	case JArr:
		p := []string{}
		for _, x := range v.elems {
			p = append(p, jDescribe(x))
		}
		return "[" + strings.Join(p, ",") + "]"
	case JObj:
		p := []string{}
		for i := range v.keys {
			p = append(p, describe(v.keys[i], 0)+":"+jDescribe(v.vals[i]))
		}
		return "{" + strings.Join(p, ",") + "}"
	}
	return "?"
}

func splitComma(s string) []string { return strings.Split(s, ",") }

// toJ follows encoding/json's documented dispatch. addr says whether the
// value is addressable (pointer-receiver MarshalJSON is only used then).
func (e *Engine) toJ(t types.Type, v Value, addr bool) JVal {
	if isIfaceType(t) {
		iv := v.(IfaceVal)
		if iv.typ == nil {
			return JNull{}
		}
		if iv.typ == e.sh.marks.fmtErr || iv.typ == e.sh.marks.opaque || iv.typ == e.sh.marks.rtype {
			unsupported("json.Marshal of engine-native value")
		}
		return e.toJ(iv.typ, iv.val, false)
	}
	if pt, isPtr := t.Underlying().(*types.Pointer); isPtr {
		p := v.(PtrVal)
		if p.slot == nil {
			return JNull{}
		}
		if m := e.findMethod(t, "MarshalJSON"); m != nil {
			return e.callMarshalJSON(m, v)
		}
		return e.toJ(pt.Elem(), *p.slot, true)
	}
	if m := e.findMethod(t, "MarshalJSON"); m != nil {
		// value-receiver method; nil maps/slices with such methods still call it
		if k := kindOf(t); (k == reflect.Map && v.(MapVal).m == nil) || (k == reflect.Slice && v.(SliceVal).arr == nil) {
			return JNull{}
		}
		return e.callMarshalJSON(m, v)
	}
	if addr {
		if m := e.findMethod(types.NewPointer(t), "MarshalJSON"); m != nil {
			slot := new(Value)
			*slot = v
			return e.callMarshalJSON(m, PtrVal{slot})
		}
	}
	switch u := t.Underlying().(type) {
	case *types.Basic:
		switch {
		case u.Info()&types.IsString != 0:
			return JStr{v.(StrVal)}
		case u.Info()&types.IsBoolean != 0:
			return JBool{v.(*Term)}
		case u.Info()&types.IsNumeric != 0:
			return JNum{v}
		}
	case *types.Slice:
		sv, ok := v.(SliceVal)
		if !ok {
			unsupported("json.Marshal of %T as slice", v)
		}
		if sv.arr == nil {
			return JNull{}
		}
		if b, ok := u.Elem().Underlying().(*types.Basic); ok && b.Kind() == types.Uint8 {
			unsupported("json.Marshal of []byte (base64)")
		}
		ja := JArr{elems: []JVal{}}
		for _, x := range sliceElems(sv) {
			ja.elems = append(ja.elems, e.toJ(u.Elem(), x, true))
		}
		return ja
	case *types.Array:
		ja := JArr{elems: []JVal{}}
		for _, x := range v.(*ArrayVal).elems {
			ja.elems = append(ja.elems, e.toJ(u.Elem(), x, addr))
		}
		return ja
	case *types.Map:
		mv := v.(MapVal)
		if mv.m == nil {
			return JNull{}
		}
		kb, ok := u.Key().Underlying().(*types.Basic)
		if !ok || kb.Info()&types.IsString == 0 {
			unsupported("json.Marshal of map with non-string key %v", u.Key())
		}
		jo := JObj{}
		for _, en := range mv.m.entries {
			jo.keys = append(jo.keys, en.key.(StrVal))
			jo.vals = append(jo.vals, e.toJ(u.Elem(), en.val, false))
		}
		return jo
	case *types.Struct:
		sv := v.(*StructVal)
		jo := JObj{ordered: true}
		for i := 0; i < u.NumFields(); i++ {
			f := u.Field(i)
			if !f.Exported() {
				continue
			}
			if f.Embedded() {
				unsupported("json.Marshal of struct with embedded field")
			}
			name := f.Name()
			tag, ok := reflect.StructTag(u.Tag(i)).Lookup("json")
			omitempty := false
			if ok {
				if tag == "-" {
					continue
				}
				parts := splitComma(tag)
				if parts[0] != "" {
					name = parts[0]
				}
				for _, p := range parts[1:] {
					if p == "omitempty" {
						omitempty = true
					}
					if p == "string" {
						unsupported("json ,string option")
					}
				}
			}
			if omitempty && e.jsonEmpty(f.Type(), sv.fields[i]) {
				continue
			}
			jo.keys = append(jo.keys, mkStr(name))
			jo.vals = append(jo.vals, e.toJ(f.Type(), sv.fields[i], addr))
		}
		return jo
	}
	panic(pathEnd{"marshalerr", fmt.Sprintf("json: unsupported type %v", t)})
}

func (e *Engine) jsonEmpty(t types.Type, v Value) bool {
	switch v := v.(type) {
	case StrVal:
		return len(v.bytes) == 0 && v.atom == nil
	case SliceVal:
		return v.len == 0
	case MapVal:
		return v.m == nil || len(v.m.entries) == 0
	case PtrVal:
		return v.slot == nil
	case IfaceVal:
		return v.typ == nil
	case *Term:
		if v.isBool {
			return !e.decide(v)
		}
		return e.decide(tEq(v, mkInt(0)))
	case FloatVal:
		return v.f == 0
	}
	return false
}

func (e *Engine) callMarshalJSON(m *ssa.Function, recv Value) JVal {
	if _, isPtr := m.Signature.Recv().Type().Underlying().(*types.Pointer); !isPtr {
		if p, ok := recv.(PtrVal); ok {
			recv = copyVal(*p.slot)
		}
	}
	res := e.call(m, []Value{recv}).(TupleVal)
	if errv := res[1].(IfaceVal); errv.typ != nil {
		panic(pathEnd{"marshalerr", "MarshalJSON returned an error"})
	}
	t, ok := e.bytesToJChecked(res[0])
	if !ok {
		// encoding/json validates what a MarshalJSON method returns
		panic(pathEnd{"marshalerr", "MarshalJSON returned bytes that are not valid JSON"})
	}
	return t
}

func (e *Engine) bytesToJ(v Value) JVal {
	t, ok := e.bytesToJChecked(v)
	if !ok {
		unsupported("bytes that are not a well-formed JSON document")
	}
	return t
}

// bytesToJChecked: ok=false when the bytes are not well-formed JSON (which
// encoding/json reports as an error when they come from a MarshalJSON method).
func (e *Engine) bytesToJChecked(v Value) (JVal, bool) {
	switch b := v.(type) {
	case JBytes:
		return b.tree, true
	case bufBytes:
		return e.parseSegs(b.segs)
	case SliceVal:
		var raw []byte
		for _, x := range sliceElems(b) {
			t, isT := x.(*Term)
			if !isT || !t.konst {
				unsupported("bytesToJ on a byte slice with symbolic content")
			}
			raw = append(raw, byte(t.iv))
		}
		return parseConcreteJSON(raw)
	}
	unsupported("bytesToJ %T", v)
	return nil, false
}

// parseConcreteJSON reads literal JSON bytes into the data model (objects keep
// their member order).
func parseConcreteJSON(raw []byte) (JVal, bool) {
	if !json.Valid(raw) {
		return nil, false
	}
	dec := json.NewDecoder(bytes.NewReader(raw))
	dec.UseNumber()
	var rd func() (JVal, bool)
	rd = func() (JVal, bool) {
		tok, err := dec.Token()
		if err != nil {
			return nil, false
		}
		switch t := tok.(type) {
		case nil:
			return JNull{}, true
		case bool:
			return JBool{mkBool(t)}, true
		case string:
			return JStr{mkStr(t)}, true
		case json.Number:
			if i, err := strconv.ParseInt(string(t), 10, 64); err == nil {
				return JNum{mkInt(i)}, true
			}
			f, err := t.Float64()
			if err != nil {
				return nil, false
			}
			if f == float64(int64(f)) && f > -1e15 && f < 1e15 {
				return JNum{mkInt(int64(f))}, true
			}
			return JNum{FloatVal{f}}, true
		case json.Delim:
			switch t {
			case '[':
				arr := JArr{}
				for dec.More() {
					x, ok := rd()
					if !ok {
						return nil, false
					}
					arr.elems = append(arr.elems, x)
				}
				dec.Token()
				return arr, true
			case '{':
				jo := JObj{ordered: true}
				for dec.More() {
					kt, err := dec.Token()
					ks, isS := kt.(string)
					if err != nil || !isS {
						return nil, false
					}
					x, ok := rd()
					if !ok {
						return nil, false
					}
					jo.keys = append(jo.keys, mkStr(ks))
					jo.vals = append(jo.vals, x)
				}
				dec.Token()
				return jo, true
			}
		}
		return nil, false
	}
	return rd()
}

// jtok is one item of a buffer read as JSON text: a whole value that was
// written as bytes returned by json.Marshal (tree), or one byte of text.
type jtok struct {
	tree JVal
	b    *Term
}

// parseSegs reads what was written to a bytes.Buffer as a JSON object (the
// shape ordered.Map.MarshalJSON writes): `{` member (`,` member)* `}` with
// members key `:` value. Keys and values are either whole marshalled values or
// text; string literals in text may have symbolic bytes and follow the JSON
// string grammar (encoding/json validates what a MarshalJSON method returns:
// a stray comma, an unescaped control character or a non-JSON escape such as
// `\a` or `\x7f` makes the document invalid). ok=false: not valid JSON.
func (e *Engine) parseSegs(segs []bufSeg) (JVal, bool) {
	var items []jtok
	for _, sg := range segs {
		switch {
		case sg.tree != nil:
			items = append(items, jtok{tree: sg.tree})
		case sg.str != nil:
			for _, b := range sg.str.bytes {
				items = append(items, jtok{b: b})
			}
		default:
			for i := 0; i < len(sg.lit); i++ {
				items = append(items, jtok{b: mkInt(int64(sg.lit[i]))})
			}
		}
	}
	pos := 0
	is := func(c byte) bool {
		if pos >= len(items) || items[pos].b == nil {
			return false
		}
		b := items[pos].b
		if b.konst {
			return b.iv == int64(c)
		}
		return e.decide(tEq(b, mkInt(int64(c))))
	}
	skipWS := func() {
		for pos < len(items) && items[pos].b != nil && items[pos].b.konst && strings.IndexByte(" \t\r\n", byte(items[pos].b.iv)) >= 0 {
			pos++
		}
	}
	// a string literal starting at the opening quote
	strLit := func() (JVal, bool) {
		pos++ // the quote
		out := StrVal{}
		for {
			if pos >= len(items) || items[pos].b == nil {
				return nil, false
			}
			if is('"') {
				pos++
				return JStr{out}, true
			}
			if is('\\') {
				pos++
				if pos >= len(items) || items[pos].b == nil {
					return nil, false
				}
				esc := map[byte]byte{'"': '"', '\\': '\\', '/': '/', 'b': 8, 'f': 12, 'n': 10, 'r': 13, 't': 9}
				matched := false
				for _, c := range []byte{'"', '\\', '/', 'b', 'f', 'n', 'r', 't'} {
					if is(c) {
						out.bytes = append(out.bytes, mkInt(int64(esc[c])))
						pos++
						matched = true
						break
					}
				}
				if matched {
					continue
				}
				if is('u') {
					var hex []byte
					for k := 1; k <= 4; k++ {
						if pos+k >= len(items) || items[pos+k].b == nil || !items[pos+k].b.konst {
							unsupported("symbolic \\u escape in JSON text")
						}
						hex = append(hex, byte(items[pos+k].b.iv))
					}
					v, err := strconv.ParseUint(string(hex), 16, 16)
					if err != nil {
						return nil, false
					}
					if v >= 128 {
						unsupported("non-ASCII \\u escape in JSON text")
					}
					out.bytes = append(out.bytes, mkInt(int64(v)))
					pos += 5
					continue
				}
				return nil, false // not a JSON escape
			}
			b := items[pos].b
			ctl := tCmp("<", b, mkInt(0x20))
			if (b.konst && b.iv < 0x20) || (!b.konst && e.decide(ctl)) {
				return nil, false // unescaped control character
			}
			out.bytes = append(out.bytes, b)
			pos++
		}
	}
	value := func() (JVal, bool) {
		skipWS()
		if pos >= len(items) {
			return nil, false
		}
		if items[pos].tree != nil {
			pos++
			return items[pos-1].tree, true
		}
		if is('"') {
			return strLit()
		}
		// other text: concrete up to the next structural character
		var raw []byte
		depth := 0
		for pos < len(items) && items[pos].b != nil {
			b := items[pos].b
			if !b.konst {
				unsupported("symbolic non-string text in a buffer that is read as JSON")
			}
			c := byte(b.iv)
			if depth == 0 && (c == ',' || c == '}') {
				break
			}
			if c == '{' || c == '[' {
				depth++
			}
			if c == '}' || c == ']' {
				depth--
			}
			raw = append(raw, c)
			pos++
		}
		return parseConcreteJSON(bytes.TrimSpace(raw))
	}
	skipWS()
	if !is('{') {
		return nil, false
	}
	pos++
	jo := JObj{ordered: true}
	skipWS()
	if is('}') {
		pos++
		skipWS()
		return jo, pos == len(items)
	}
	for {
		k, ok := value()
		if !ok {
			return nil, false
		}
		ks, isStr := k.(JStr)
		if !isStr {
			return nil, false
		}
		skipWS()
		if !is(':') {
			return nil, false
		}
		pos++
		v, ok := value()
		if !ok {
			return nil, false
		}
		jo.keys = append(jo.keys, ks.s)
		jo.vals = append(jo.vals, v)
		skipWS()
		if is(',') {
			pos++
			continue
		}
		if is('}') {
			pos++
			skipWS()
			return jo, pos == len(items)
		}
		return nil, false
	}
}

// segsText: the buffer's content as text when nothing but text was written.
func segsText(segs []bufSeg) (StrVal, bool) {
	out := StrVal{}
	for _, sg := range segs {
		switch {
		case sg.tree != nil:
			return StrVal{}, false
		case sg.str != nil:
			out.bytes = append(out.bytes, sg.str.bytes...)
		default:
			out.bytes = append(out.bytes, mkStr(sg.lit).bytes...)
		}
	}
	return out, true
}

func segLits(segs []bufSeg) string {
	var sb strings.Builder
	for _, s := range segs {
		if s.tree != nil {
			sb.WriteString("<v>")
		} else {
			sb.WriteString(s.lit)
		}
	}
	return sb.String()
}

func (e *Engine) marshal(iv IfaceVal) (tree JVal, failed bool) {
	defer func() {
		if r := recover(); r != nil {
			if pe, ok := r.(pathEnd); ok && pe.kind == "marshalerr" {
				tree, failed = nil, true
				return
			}
			panic(r)
		}
	}()
	return e.toJ(types.NewInterfaceType(nil, nil), iv, false), false
}

func derefStruct(t types.Type) *types.Struct {
	if p, ok := t.Underlying().(*types.Pointer); ok {
		t = p.Elem()
	}
	st, ok := t.Underlying().(*types.Struct)
	if !ok {
		unsupported("reflections.* on non-struct %v", t)
	}
	return st
}

func (e *Engine) jsonIntrinsic(fn *ssa.Function, full string, args []Value) (Value, bool) {
	switch full {
	case "encoding/json.Marshal":
		tree, failed := e.marshal(args[0].(IfaceVal))
		if failed {
			return TupleVal{SliceVal{}, e.newError(mkStr("json: marshal error"))}, true
		}
		return TupleVal{JBytes{tree}, IfaceVal{}}, true
	case "github.com/gowebpki/jcs.Transform":
		// RFC 8785 output is a function of the data model (member order and
		// number spelling are canonicalised) and injective on it.
		return TupleVal{JBytes{e.bytesToJ(args[0])}, IfaceVal{}}, true
	case "bytes.Clone", "slices.Clone[[]byte byte]":
		switch b := args[0].(type) {
		case JBytes, bufBytes, SigBytes, YBytes:
			return b, true // immutable in the engine
		}
		return nil, false
	case "bytes.Equal":
		if a, ok := args[0].(SliceVal); ok {
			if b, ok := args[1].(SliceVal); ok { // plain bytes
				if a.len != b.len {
					return tFalse, true
				}
				r := tTrue
				ae, be := sliceElems(a), sliceElems(b)
				for i := range ae {
					r = tAnd(r, tEq(ae[i].(*Term), be[i].(*Term)))
				}
				return r, true
			}
		}
		return jEq(e.bytesToJ(args[0]), e.bytesToJ(args[1])), true
	case "(*bytes.Buffer).WriteRune", "(*bytes.Buffer).WriteByte":
		p := args[0].(PtrVal)
		c := args[1].(*Term)
		if c.konst {
			e.bufs[p.slot] = append(e.bufs[p.slot], bufSeg{lit: string(rune(c.iv))})
		} else {
			if w, ok := e.bitWidth(c); !ok || w > 8 {
				unsupported("Buffer.WriteRune of a symbolic rune that may not be a single byte")
			}
			e.bufs[p.slot] = append(e.bufs[p.slot], bufSeg{str: &StrVal{bytes: []*Term{c}}})
		}
		if full == "(*bytes.Buffer).WriteByte" {
			return IfaceVal{}, true
		}
		return TupleVal{mkInt(1), IfaceVal{}}, true
	case "(*bytes.Buffer).WriteString":
		p := args[0].(PtrVal)
		sv := args[1].(StrVal)
		if c, ok := concreteStr(sv); ok {
			e.bufs[p.slot] = append(e.bufs[p.slot], bufSeg{lit: c})
		} else if sv.atom != nil && sv.atom.kind == "json" {
			e.bufs[p.slot] = append(e.bufs[p.slot], bufSeg{tree: sv.atom.tree})
		} else if sv.atom != nil {
			unsupported("Buffer.WriteString of an opaque string")
		} else {
			e.bufs[p.slot] = append(e.bufs[p.slot], bufSeg{str: &sv})
		}
		return TupleVal{mkInt(int64(len(sv.bytes))), IfaceVal{}}, true
	case "(*bytes.Buffer).String":
		p := args[0].(PtrVal)
		if sv, ok := segsText(e.bufs[p.slot]); ok {
			return sv, true
		}
		return StrVal{atom: &Atom{kind: "json", tree: e.bytesToJ(bufBytes{segs: e.bufs[p.slot]})}}, true
	case "(*bytes.Buffer).Len":
		p := args[0].(PtrVal)
		sv, ok := segsText(e.bufs[p.slot])
		if !ok {
			unsupported("Buffer.Len of a buffer holding a JSON value")
		}
		return mkInt(int64(len(sv.bytes))), true
	case "(*bytes.Buffer).Reset":
		delete(e.bufs, args[0].(PtrVal).slot)
		return nil, true
	case "(*bytes.Buffer).Grow":
		return nil, true
	case "(*bytes.Buffer).AvailableBuffer":
		return SliceVal{arr: &ArrayVal{}, len: 0, cap: 0}, true // an empty slice to append to
	case "(*bytes.Buffer).Write":
		p := args[0].(PtrVal)
		if sl, ok := args[1].(SliceVal); ok { // plain bytes: text
			sv := StrVal{}
			for _, x := range sliceElems(sl) {
				sv.bytes = append(sv.bytes, x.(*Term))
			}
			if c, ok := concreteStr(sv); ok {
				e.bufs[p.slot] = append(e.bufs[p.slot], bufSeg{lit: c})
			} else {
				e.bufs[p.slot] = append(e.bufs[p.slot], bufSeg{str: &sv})
			}
			return TupleVal{mkInt(int64(sl.len)), IfaceVal{}}, true
		}
		e.bufs[p.slot] = append(e.bufs[p.slot], bufSeg{tree: e.bytesToJ(args[1])})
		return TupleVal{mkInt(1), IfaceVal{}}, true
	case "(*bytes.Buffer).Bytes":
		p := args[0].(PtrVal)
		hasStr := false
		for _, sg := range e.bufs[p.slot] {
			hasStr = hasStr || sg.str != nil
		}
		if sv, ok := segsText(e.bufs[p.slot]); ok && hasStr {
			elems := make([]Value, len(sv.bytes))
			for i, b := range sv.bytes {
				elems[i] = b
			}
			return mkSlice(elems), true
		}
		return bufBytes{segs: append([]bufSeg{}, e.bufs[p.slot]...)}, true
	case "github.com/oleiade/reflections.Fields":
		iv := args[0].(IfaceVal)
		st := derefStruct(iv.typ)
		var names []string
		for i := 0; i < st.NumFields(); i++ {
			if st.Field(i).Exported() {
				names = append(names, st.Field(i).Name())
			}
		}
		return TupleVal{mkStrSlice(names), IfaceVal{}}, true
	case "github.com/oleiade/reflections.GetFieldTag":
		iv := args[0].(IfaceVal)
		st := derefStruct(iv.typ)
		name := e.mustStr(args[1], "GetFieldTag")
		key := e.mustStr(args[2], "GetFieldTag")
		for i := 0; i < st.NumFields(); i++ {
			if st.Field(i).Name() == name {
				return TupleVal{mkStr(reflect.StructTag(st.Tag(i)).Get(key)), IfaceVal{}}, true
			}
		}
		return TupleVal{mkStr(""), e.newError(mkStr("no such field"))}, true
	case "github.com/oleiade/reflections.GetField":
		iv := args[0].(IfaceVal)
		st := derefStruct(iv.typ)
		name := e.mustStr(args[1], "GetField")
		var sv *StructVal
		if p, ok := iv.val.(PtrVal); ok {
			if p.slot == nil {
				e.goPanic("reflections.GetField on nil pointer")
			}
			sv = (*p.slot).(*StructVal)
		} else {
			sv = iv.val.(*StructVal)
		}
		for i := 0; i < st.NumFields(); i++ {
			if st.Field(i).Name() == name {
				ft := st.Field(i).Type()
				v := copyVal(sv.fields[i])
				if isIfaceType(ft) {
					return TupleVal{v, IfaceVal{}}, true
				}
				return TupleVal{IfaceVal{typ: ft, val: v}, IfaceVal{}}, true
			}
		}
		return TupleVal{IfaceVal{}, e.newError(mkStr("no such field"))}, true
	}
	return nil, false
}

// ---- inspection API used by harness code (vpJ*) ----
//
//	vpJKind(b) int    0 null 1 bool 2 num 3 str 4 arr 5 obj
//	vpJLen(b) int
//	vpJStr(b) string, vpJBool(b) bool
//	vpJKey(b, i) string, vpJElem(b, i) []byte   (objects: in emitted order)
//	vpJGet(b, key) ([]byte, bool)
//	vpJEqual(a, b) bool                          data-model equality
func (e *Engine) jInspect(name string, args []Value) (Value, bool) {
	if !strings.HasPrefix(name, "vpJ") {
		return nil, false
	}
	tree := func() JVal { return e.bytesToJ(args[0]) }
	switch name {
	case "vpJKind":
		if _, ok := e.bytesToJChecked(args[0]); !ok {
			return mkInt(-1), true // not a well-formed JSON document
		}
		switch tree().(type) {
		case JNull:
			return mkInt(0), true
		case JBool:
			return mkInt(1), true
		case JNum:
			return mkInt(2), true
		case JStr:
			return mkInt(3), true
		case JArr:
			return mkInt(4), true
		case JObj:
			return mkInt(5), true
		}
	case "vpJLen":
		switch t := tree().(type) {
		case JArr:
			return mkInt(int64(len(t.elems))), true
		case JObj:
			return mkInt(int64(len(t.keys))), true
		}
		return mkInt(0), true
	case "vpJStr":
		if s, ok := tree().(JStr); ok {
			return s.s, true
		}
		return StrVal{}, true
	case "vpJBool":
		if b, ok := tree().(JBool); ok {
			return b.b, true
		}
		return tFalse, true
	case "vpJKey":
		o := e.sortedObj(tree().(JObj))
		return o.keys[e.concretize(args[1].(*Term), 0, len(o.keys)-1)], true
	case "vpJElem":
		i := args[1].(*Term)
		switch t := tree().(type) {
		case JArr:
			return JBytes{t.elems[e.concretize(i, 0, len(t.elems)-1)]}, true
		case JObj:
			o := e.sortedObj(t)
			return JBytes{o.vals[e.concretize(i, 0, len(o.vals)-1)]}, true
		}
	case "vpJGet":
		o, ok := tree().(JObj)
		if !ok {
			return TupleVal{JBytes{JNull{}}, tFalse}, true
		}
		k := args[1].(StrVal)
		for i := range o.keys {
			if e.decide(strEq(o.keys[i], k)) {
				return TupleVal{JBytes{o.vals[i]}, tTrue}, true
			}
		}
		return TupleVal{JBytes{JNull{}}, tFalse}, true
	case "vpJEqual":
		return jEq(e.bytesToJ(args[0]), e.bytesToJ(args[1])), true
	case "vpJEqualLoose":
		return jEq(jLoose(e.bytesToJ(args[0])), jLoose(e.bytesToJ(args[1]))), true
	}
	return nil, false
}

// sortedObj returns the object with members in the order the encoder emits
// them: as is for ordered objects, sorted by key (forking on comparisons)
// for Go maps.
func (e *Engine) sortedObj(o JObj) JObj {
	if o.ordered || len(o.keys) < 2 {
		return o
	}
	n := JObj{keys: append([]StrVal{}, o.keys...), vals: append([]JVal{}, o.vals...), ordered: true}
	for i := 1; i < len(n.keys); i++ {
		for j := i; j > 0; j-- {
			if e.decide(strLess(n.keys[j], n.keys[j-1])) {
				n.keys[j-1], n.keys[j] = n.keys[j], n.keys[j-1]
				n.vals[j-1], n.vals[j] = n.vals[j], n.vals[j-1]
			} else {
				break
			}
		}
	}
	return n
}

// jLoose identifies null, {} and [] (nil versus empty containers) at every depth.
func jLoose(v JVal) JVal {
	switch t := v.(type) {
	case JArr:
		if len(t.elems) == 0 {
			return JNull{}
		}
		out := JArr{}
		for _, x := range t.elems {
			out.elems = append(out.elems, jLoose(x))
		}
		return out
	case JObj:
		if len(t.keys) == 0 {
			return JNull{}
		}
		out := JObj{ordered: t.ordered, keys: t.keys}
		for _, x := range t.vals {
			out.vals = append(out.vals, jLoose(x))
		}
		return out
	}
	return v
}

// jsonText renders a document of the abstract data model as the text
// encoding/json.Marshal writes for it (compact, HTML escaping on, Go maps
// sorted by key). Symbolic string bytes are copied through on the path where
// they need no escape; a byte that may need one, symbolic numbers and opaque
// strings are outside what the renderer does.
func (e *Engine) jsonText(v JVal) StrVal {
	out := StrVal{}
	lit := func(s string) { out.bytes = append(out.bytes, mkStr(s).bytes...) }
	str := func(s StrVal) {
		if s.atom != nil {
			unsupported("JSON text of an opaque string")
		}
		lit(`"`)
		run := []byte{}
		flush := func() {
			if len(run) > 0 {
				b, _ := json.Marshal(string(run))
				lit(string(b[1 : len(b)-1]))
				run = run[:0]
			}
		}
		for _, b := range s.bytes {
			if b.konst {
				run = append(run, byte(b.iv))
				continue
			}
			flush()
			esc := tOr(tCmp("<", b, mkInt(0x20)), tCmp(">=", b, mkInt(0x7f)))
			for _, c := range []byte{'"', '\\', '<', '>', '&'} {
				esc = tOr(esc, tEq(b, mkInt(int64(c))))
			}
			if e.decide(esc) {
				unsupported("JSON text of a symbolic string byte that needs escaping")
			}
			out.bytes = append(out.bytes, b)
		}
		flush()
		lit(`"`)
	}
	var rec func(v JVal)
	rec = func(v JVal) {
		switch t := v.(type) {
		case nil, JNull:
			lit("null")
		case JBool:
			if e.decide(t.b) {
				lit("true")
			} else {
				lit("false")
			}
		case JNum:
			switch n := t.v.(type) {
			case *Term:
				if !n.konst {
					unsupported("JSON text of a symbolic number")
				}
				lit(strconv.FormatInt(n.iv, 10))
			case FloatVal:
				b, err := json.Marshal(n.f)
				if err != nil {
					unsupported("JSON text of a float json refuses")
				}
				lit(string(b))
			default:
				unsupported("JSON text of number %T", t.v)
			}
		case JStr:
			str(t.s)
		case JArr:
			lit("[")
			for i, x := range t.elems {
				if i > 0 {
					lit(",")
				}
				rec(x)
			}
			lit("]")
		case JObj:
			o := e.sortedObj(t)
			lit("{")
			for i, k := range o.keys {
				if i > 0 {
					lit(",")
				}
				str(k)
				lit(":")
				rec(o.vals[i])
			}
			lit("}")
		default:
			unsupported("JSON text of %T", v)
		}
	}
	rec(v)
	return out
}

// bytesText: the text of a []byte value (plain bytes, written text, or a JSON
// document rendered by jsonText).
func (e *Engine) bytesText(v Value) StrVal {
	switch b := v.(type) {
	case SliceVal:
		out := StrVal{}
		for _, x := range sliceElems(b) {
			out.bytes = append(out.bytes, x.(*Term))
		}
		return out
	case JBytes:
		return e.jsonText(b.tree)
	case bufBytes:
		if s, ok := segsText(b.segs); ok {
			return s
		}
		return e.jsonText(e.bytesToJ(b))
	}
	unsupported("text of %T", v)
	return StrVal{}
}
