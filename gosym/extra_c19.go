package main

import (
	"fmt"
	"go/token"
	"go/types"
	"os"
	"sort"
	"strings"

	"golang.org/x/tools/go/packages"
	"golang.org/x/tools/go/ssa"
	"golang.org/x/tools/go/ssa/ssautil"
)

// extraC19: no function other than a package initialiser stores to, or
// through, a package-level variable of the five packages (an SSA pass over
// the current source; intraprocedural taint from *ssa.Global with in-module
// calls followed through their parameters).
func extraC19(run *PropRun) {
	x := ExtraResult{Name: "no-writes-to-package-level-state"}
	defer func() { run.Extra = append(run.Extra, x) }()
	cfg := &packages.Config{Mode: packages.LoadAllSyntax, Dir: repoDir,
		Env: append(envList(), "GOFLAGS=-mod=mod", "GOPROXY=off", "GOSUMDB=off", "GOTOOLCHAIN=local")}
	pkgs, err := packages.Load(cfg, "./...")
	if err != nil || packages.PrintErrors(pkgs) > 0 {
		x.Inconclusive = append(x.Inconclusive, fmt.Sprintf("global-write pass: cannot load packages: %v", err))
		return
	}
	prog, spkgs := ssautil.AllPackages(pkgs, ssa.InstantiateGenerics)
	prog.Build()
	inModule := func(f *ssa.Function) bool {
		g := f
		for g.Parent() != nil {
			g = g.Parent()
		}
		if o := g.Origin(); o != nil {
			g = o
		}
		return g.Pkg != nil && strings.HasPrefix(g.Pkg.Pkg.Path(), modulePath)
	}
	all := ssautil.AllFunctions(prog)
	var fns []*ssa.Function
	for f := range all {
		if inModule(f) && f.Blocks != nil {
			fns = append(fns, f)
		}
	}
	sort.Slice(fns, func(i, j int) bool { return fns[i].String() < fns[j].String() })
	_ = spkgs
	readOnlyLib := func(name string) bool {
		for _, p := range []string{"(*regexp.Regexp).", "fmt.", "errors.", "slices.Contains", "slices.Index", "strings.", "(*github.com/buildkite/go-pipeline/warning.Warning)", "reflect.", "encoding/json.Marshal", "sort.SearchStrings"} {
			if strings.HasPrefix(name, p) {
				return true
			}
		}
		return false
	}
	usesSync := func(f *ssa.Function) bool {
		for g := f; g != nil; g = g.Parent() {
			for _, b := range g.Blocks {
				for _, in := range b.Instrs {
					if c, ok := in.(ssa.CallInstruction); ok {
						if callee := c.Common().StaticCallee(); callee != nil && callee.Pkg != nil {
							if p := callee.Pkg.Pkg.Path(); p == "sync" || p == "sync/atomic" {
								return true
							}
						}
						if c.Common().IsInvoke() && c.Common().Method.Pkg() != nil && c.Common().Method.Pkg().Path() == "sync" {
							return true
						}
					}
				}
			}
		}
		return false
	}
	type key struct {
		f    *ssa.Function
		mask string
	}
	done := map[key]bool{}
	var analyse func(f *ssa.Function, taintedParams map[int]bool, origin string)
	pos := func(in ssa.Instruction) string {
		p := prog.Fset.Position(in.Pos())
		if in.Pos() == token.NoPos {
			return in.Parent().String()
		}
		return fmt.Sprintf("%s:%d", strings.TrimPrefix(p.Filename, repoDir+"/"), p.Line)
	}
	analyse = func(f *ssa.Function, taintedParams map[int]bool, origin string) {
		mk := []string{}
		for i := range f.Params {
			if taintedParams[i] {
				mk = append(mk, fmt.Sprint(i))
			}
		}
		k := key{f, strings.Join(mk, ",")}
		if done[k] {
			return
		}
		done[k] = true
		isInit := f.Name() == "init" && f.Synthetic != "" || strings.HasPrefix(f.Name(), "init#")
		if isInit {
			return
		}
		taint := map[ssa.Value]string{}
		for i, p := range f.Params {
			if taintedParams[i] {
				taint[p] = origin
			}
		}
		src := func(v ssa.Value) (string, bool) {
			if g, ok := v.(*ssa.Global); ok && g.Pkg != nil && strings.HasPrefix(g.Pkg.Pkg.Path(), modulePath) && !strings.HasPrefix(g.Name(), "init$") {
				return g.String(), true
			}
			s, ok := taint[v]
			return s, ok
		}
		changed := true
		for changed {
			changed = false
			for _, b := range f.Blocks {
				for _, in := range b.Instrs {
					v, isVal := in.(ssa.Value)
					if !isVal {
						continue
					}
					if _, ok := taint[v]; ok {
						continue
					}
					var from ssa.Value
					switch in := in.(type) {
					case *ssa.FieldAddr:
						from = in.X
					case *ssa.IndexAddr:
						from = in.X
					case *ssa.Field:
						from = in.X
					case *ssa.Index:
						from = in.X
					case *ssa.Slice:
						from = in.X
					case *ssa.UnOp:
						if in.Op == token.MUL {
							from = in.X
						}
					case *ssa.ChangeType:
						from = in.X
					case *ssa.Convert:
						from = in.X
					case *ssa.MakeInterface:
						from = in.X
					case *ssa.TypeAssert:
						from = in.X
					case *ssa.Extract:
						from = in.Tuple
					case *ssa.Lookup:
						from = in.X
					case *ssa.Phi:
						for _, e := range in.Edges {
							if s, ok := src(e); ok {
								taint[v] = s
								changed = true
								break
							}
						}
						continue
					}
					if from != nil {
						if s, ok := src(from); ok {
							// values of pointer-free type carry no reference to the global
							if !mayAlias(v.Type()) {
								continue
							}
							taint[v] = s
							changed = true
						}
					}
				}
			}
		}
		for _, b := range f.Blocks {
			for _, in := range b.Instrs {
				report := func(what, g string) {
					x.Obligations++
					msg := fmt.Sprintf("%s %s package-level state %s at %s", f.String(), what, g, pos(in))
					if usesSync(f) {
						x.Inconclusive = append(x.Inconclusive, msg+" (function uses sync primitives: not judged)")
						return
					}
					x.Violations = append(x.Violations, msg)
				}
				switch in := in.(type) {
				case *ssa.Store:
					if g, ok := src(in.Addr); ok {
						report("stores to", g)
					}
				case *ssa.MapUpdate:
					if g, ok := src(in.Map); ok {
						report("updates a map reachable from", g)
					}
				case ssa.CallInstruction:
					c := in.Common()
					if bi, ok := c.Value.(*ssa.Builtin); ok {
						switch bi.Name() {
						case "delete", "clear", "copy":
							if g, ok := src(c.Args[0]); ok {
								report(bi.Name()+"s in", g)
							}
						case "append":
							if g, ok := src(c.Args[0]); ok {
								report("appends to a slice reachable from", g)
							}
						}
						continue
					}
					tp := map[int]bool{}
					var g0 string
					args := c.Args
					for i, a := range args {
						if g, ok := src(a); ok && mayAlias(a.Type()) {
							tp[i] = true
							g0 = g
						}
					}
					if len(tp) == 0 {
						continue
					}
					callee := c.StaticCallee()
					switch {
					case callee != nil && inModule(callee) && callee.Blocks != nil:
						analyse(callee, tp, g0)
					case callee != nil && readOnlyLib(callee.String()):
					case callee == nil && c.IsInvoke():
						// dynamic dispatch with a reference to package-level state: only error/Stringer-like uses occur today
						x.Detail = append(x.Detail, fmt.Sprintf("note: %s passes %s to interface method %s at %s (not followed)", f.String(), g0, c.Method.Name(), pos(in)))
					case callee != nil:
						x.Inconclusive = append(x.Inconclusive, fmt.Sprintf("global-write pass: %s passes a reference to %s to library function %s at %s (not on the read-only list)", f.String(), g0, callee.String(), pos(in)))
					}
				}
			}
		}
	}
	for _, f := range fns {
		analyse(f, nil, "")
	}
	x.Obligations += len(fns)
	x.Discharged = x.Obligations - len(x.Violations) - len(x.Inconclusive)
	x.Detail = append(x.Detail, fmt.Sprintf("%d functions of %s/... scanned (instantiations and closures included); package initialisers exempt", len(fns), modulePath))
}

func envList() []string { return append([]string{}, os.Environ()...) }

// mayAlias: can a value of this type carry a reference through which memory can be written?
func mayAlias(t types.Type) bool {
	switch u := t.Underlying().(type) {
	case *types.Basic:
		return u.Kind() == types.UnsafePointer
	case *types.Struct:
		for i := 0; i < u.NumFields(); i++ {
			if mayAlias(u.Field(i).Type()) {
				return true
			}
		}
		return false
	case *types.Array:
		return mayAlias(u.Elem())
	case *types.Tuple:
		for i := 0; i < u.Len(); i++ {
			if mayAlias(u.At(i).Type()) {
				return true
			}
		}
		return false
	}
	return true
}
