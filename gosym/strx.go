package main

import (
	"regexp/syntax"
	"sync"

	"golang.org/x/tools/go/ssa"
)

func hasPrefixTerm(s, p StrVal) *Term {
	if s.atom != nil || p.atom != nil {
		unsupported("prefix test on opaque string")
	}
	if len(p.bytes) > len(s.bytes) {
		return tFalse
	}
	r := tTrue
	for i := range p.bytes {
		r = tAnd(r, tEq(s.bytes[i], p.bytes[i]))
	}
	return r
}

// indexFrom forks over the first position >= from where sep occurs; -1 if none.
func (e *Engine) indexFrom(s, sep StrVal, from int) int {
	if len(sep.bytes) == 0 {
		return from
	}
	for i := from; i+len(sep.bytes) <= len(s.bytes); i++ {
		if e.decide(hasPrefixTerm(StrVal{bytes: s.bytes[i:]}, sep)) {
			return i
		}
	}
	return -1
}

func noAtom(vs ...Value) {
	for _, v := range vs {
		if s, ok := v.(StrVal); ok && s.atom != nil {
			unsupported("string operation on opaque string")
		}
	}
}

func (e *Engine) strIntrinsic(fn *ssa.Function, full string, args []Value) (Value, bool) {
	switch full {
	case "strings.HasPrefix":
		return hasPrefixTerm(args[0].(StrVal), args[1].(StrVal)), true
	case "strings.HasSuffix":
		s, p := args[0].(StrVal), args[1].(StrVal)
		noAtom(s, p)
		if len(p.bytes) > len(s.bytes) {
			return tFalse, true
		}
		return hasPrefixTerm(StrVal{bytes: s.bytes[len(s.bytes)-len(p.bytes):]}, p), true
	case "strings.TrimPrefix":
		s, p := args[0].(StrVal), args[1].(StrVal)
		if e.decide(hasPrefixTerm(s, p)) {
			return StrVal{bytes: s.bytes[len(p.bytes):]}, true
		}
		return s, true
	case "strings.CutPrefix", "internal/stringslite.CutPrefix":
		s, p := args[0].(StrVal), args[1].(StrVal)
		if e.decide(hasPrefixTerm(s, p)) {
			return TupleVal{StrVal{bytes: s.bytes[len(p.bytes):]}, tTrue}, true
		}
		return TupleVal{s, tFalse}, true
	case "strings.TrimSuffix":
		s, p := args[0].(StrVal), args[1].(StrVal)
		noAtom(s, p)
		if len(p.bytes) <= len(s.bytes) && e.decide(hasPrefixTerm(StrVal{bytes: s.bytes[len(s.bytes)-len(p.bytes):]}, p)) {
			return StrVal{bytes: s.bytes[:len(s.bytes)-len(p.bytes)]}, true
		}
		return s, true
	case "internal/bytealg.CountString", "internal/bytealg.Count":
		// number of occurrences of one byte: a sum of indicator terms, no forking
		var bs []*Term
		if sv, ok := args[0].(StrVal); ok {
			noAtom(sv)
			bs = sv.bytes
		} else {
			for _, x := range sliceElems(args[0].(SliceVal)) {
				bs = append(bs, x.(*Term))
			}
		}
		c := args[1].(*Term)
		n := mkInt(0)
		for _, b := range bs {
			n = tArith("+", n, tIte(tEq(b, c), mkInt(1), mkInt(0)))
		}
		return n, true
	case "internal/bytealg.IndexByteString":
		noAtom(args[0])
		return mkInt(int64(e.indexFrom(args[0].(StrVal), StrVal{bytes: []*Term{args[1].(*Term)}}, 0))), true
	case "internal/bytealg.LastIndexByteString", "strings.LastIndexByte":
		noAtom(args[0])
		sv := args[0].(StrVal)
		c := args[1].(*Term)
		for i := len(sv.bytes) - 1; i >= 0; i-- {
			if e.decide(tEq(sv.bytes[i], c)) {
				return mkInt(int64(i)), true
			}
		}
		return mkInt(-1), true
	case "strings.LastIndex":
		noAtom(args[0], args[1])
		sv, sub := args[0].(StrVal), args[1].(StrVal)
		for i := len(sv.bytes) - len(sub.bytes); i >= 0; i-- {
			if e.decide(hasPrefixTerm(StrVal{bytes: sv.bytes[i:]}, sub)) {
				return mkInt(int64(i)), true
			}
		}
		return mkInt(-1), true
	case "strings.Count":
		noAtom(args[0], args[1])
		sv, sub := args[0].(StrVal), args[1].(StrVal)
		if len(sub.bytes) == 0 {
			unsupported("strings.Count with an empty separator")
		}
		if len(sub.bytes) == 1 {
			n := mkInt(0)
			for _, b := range sv.bytes {
				n = tArith("+", n, tIte(tEq(b, sub.bytes[0]), mkInt(1), mkInt(0)))
			}
			return n, true
		}
		cnt, start := 0, 0
		for {
			i := e.indexFrom(sv, sub, start)
			if i < 0 {
				return mkInt(int64(cnt)), true
			}
			cnt++
			start = i + len(sub.bytes)
		}
	case "strings.TrimLeft", "strings.TrimRight", "strings.Trim":
		// cutset semantics, bytewise (ASCII cutsets)
		sv, cut := args[0].(StrVal), args[1].(StrVal)
		noAtom(sv, cut)
		for _, c := range cut.bytes {
			if !c.konst || c.iv >= 128 {
				unsupported("%s with a symbolic or non-ASCII cutset", full)
			}
		}
		member := func(b *Term) *Term {
			r := tFalse
			for _, c := range cut.bytes {
				r = tOr(r, tEq(b, c))
			}
			return r
		}
		lo, hi := 0, len(sv.bytes)
		if full != "strings.TrimRight" {
			for lo < hi && e.decide(member(sv.bytes[lo])) {
				lo++
			}
		}
		if full != "strings.TrimLeft" {
			for hi > lo && e.decide(member(sv.bytes[hi-1])) {
				hi--
			}
		}
		return StrVal{bytes: sv.bytes[lo:hi]}, true
	case "strings.Clone", "internal/stringslite.Clone":
		return args[0], true
	case "strings.Fields":
		// ASCII white space only (a byte >= 0x80 would take the UTF-8 path)
		sv := args[0].(StrVal)
		noAtom(sv)
		var parts []Value
		start := -1
		for i, b := range sv.bytes {
			if e.decide(tCmp(">=", b, mkInt(128))) {
				unsupported("strings.Fields on non-ASCII text")
			}
			sp := tOr(tEq(b, mkInt(' ')), tAnd(tCmp(">=", b, mkInt(9)), tCmp("<=", b, mkInt(13))))
			if e.decide(sp) {
				if start >= 0 {
					parts = append(parts, StrVal{bytes: sv.bytes[start:i]})
					start = -1
				}
			} else if start < 0 {
				start = i
			}
		}
		if start >= 0 {
			parts = append(parts, StrVal{bytes: sv.bytes[start:]})
		}
		return mkSlice(parts), true
	case "strings.IndexByte":
		noAtom(args[0])
		return mkInt(int64(e.indexFrom(args[0].(StrVal), StrVal{bytes: []*Term{args[1].(*Term)}}, 0))), true
	case "strings.Index":
		noAtom(args[0], args[1])
		return mkInt(int64(e.indexFrom(args[0].(StrVal), args[1].(StrVal), 0))), true
	case "strings.Contains":
		noAtom(args[0], args[1])
		s, sub := args[0].(StrVal), args[1].(StrVal)
		r := tFalse
		for i := 0; i+len(sub.bytes) <= len(s.bytes); i++ {
			r = tOr(r, hasPrefixTerm(StrVal{bytes: s.bytes[i:]}, sub))
		}
		return r, true
	case "strings.ContainsAny", "strings.IndexAny":
		// ASCII character sets only (a set with a multi-byte character is left to the library's own code)
		noAtom(args[0], args[1])
		sv, chars := args[0].(StrVal), args[1].(StrVal)
		for _, c := range chars.bytes {
			if !c.konst || c.iv >= 128 {
				return nil, false
			}
		}
		member := func(b *Term) *Term {
			r := tFalse
			for _, c := range chars.bytes {
				r = tOr(r, tEq(b, c))
			}
			return r
		}
		if full == "strings.ContainsAny" {
			r := tFalse
			for _, b := range sv.bytes {
				r = tOr(r, member(b))
			}
			return r, true
		}
		for i, b := range sv.bytes {
			if e.decide(member(b)) {
				return mkInt(int64(i)), true
			}
		}
		return mkInt(-1), true
	case "strings.Split":
		s, sep := args[0].(StrVal), args[1].(StrVal)
		noAtom(s, sep)
		if len(sep.bytes) == 0 {
			unsupported("strings.Split with empty separator")
		}
		var parts []Value
		start := 0
		for {
			i := e.indexFrom(s, sep, start)
			if i < 0 {
				parts = append(parts, StrVal{bytes: s.bytes[start:]})
				break
			}
			parts = append(parts, StrVal{bytes: s.bytes[start:i]})
			start = i + len(sep.bytes)
		}
		return mkSlice(parts), true
	case "strings.Cut":
		s, sep := args[0].(StrVal), args[1].(StrVal)
		noAtom(s, sep)
		i := e.indexFrom(s, sep, 0)
		if i < 0 {
			return TupleVal{s, StrVal{}, tFalse}, true
		}
		return TupleVal{StrVal{bytes: s.bytes[:i]}, StrVal{bytes: s.bytes[i+len(sep.bytes):]}, tTrue}, true
	case "strings.Join":
		sl := args[0].(SliceVal)
		sep := args[1].(StrVal)
		var out []*Term
		for i, x := range sliceElems(sl) {
			if i > 0 {
				out = append(out, sep.bytes...)
			}
			xs := x.(StrVal)
			if xs.atom != nil {
				if sl.len == 1 {
					return xs, true
				}
				unsupported("strings.Join with opaque element")
			}
			out = append(out, xs.bytes...)
		}
		return StrVal{bytes: out}, true
	case "strings.ToUpper":
		s := args[0].(StrVal)
		noAtom(s)
		out := make([]*Term, len(s.bytes))
		for i, b := range s.bytes {
			if b.konst {
				c := b.iv
				if c >= 'a' && c <= 'z' {
					c -= 32
				}
				out[i] = mkInt(c)
				continue
			}
			out[i] = tIte(tAnd(tCmp("<=", mkInt('a'), b), tCmp("<=", b, mkInt('z'))), tArith("-", b, mkInt(32)), b)
		}
		return StrVal{bytes: out}, true
	case "strings.ToLower":
		s := args[0].(StrVal)
		noAtom(s)
		out := make([]*Term, len(s.bytes))
		for i, b := range s.bytes {
			if b.konst {
				c := b.iv
				if c >= 'A' && c <= 'Z' {
					c += 32
				}
				out[i] = mkInt(c)
				continue
			}
			out[i] = tIte(tAnd(tCmp("<=", mkInt('A'), b), tCmp("<=", b, mkInt('Z'))), tArith("+", b, mkInt(32)), b)
		}
		return StrVal{bytes: out}, true
	case "strings.Repeat":
		s := args[0].(StrVal)
		n := e.concretize(args[1].(*Term), 0, 64)
		var out []*Term
		for i := 0; i < n; i++ {
			out = append(out, s.bytes...)
		}
		return StrVal{bytes: out}, true
	}
	return nil, false
}

// ---------------------------------------------------------------------------
// Regular expressions

var reCache sync.Map // pattern -> *syntax.Prog / *syntax.Regexp

func parseRe(pattern string) *syntax.Regexp {
	if v, ok := reCache.Load("T" + pattern); ok {
		return v.(*syntax.Regexp)
	}
	re, err := syntax.Parse(pattern, syntax.Perl)
	if err != nil {
		unsupported("regexp parse: %v", err)
	}
	re = re.Simplify()
	reCache.Store("T"+pattern, re)
	return re
}

func compileRe(pattern string) *syntax.Prog {
	if v, ok := reCache.Load("P" + pattern); ok {
		return v.(*syntax.Prog)
	}
	prog, err := syntax.Compile(parseRe(pattern))
	if err != nil {
		unsupported("regexp compile: %v", err)
	}
	reCache.Store("P"+pattern, prog)
	return prog
}

// runeClassTerm is the condition "byte b is in the rune class" (ranges as
// lo,hi pairs). Bytes >= 128 stand for U+FFFD (invalid UTF-8), as in Go.
func runeClassTerm(b *Term, ranges []rune, foldCase bool) *Term {
	if b.konst {
		c := rune(b.iv)
		if c >= 128 {
			c = 0xFFFD
		}
		for i := 0; i+1 < len(ranges); i += 2 {
			if ranges[i] <= c && c <= ranges[i+1] {
				return tTrue
			}
		}
		return tFalse
	}
	m := tFalse
	hasFFFD := false
	for i := 0; i+1 < len(ranges); i += 2 {
		lo, hi := ranges[i], ranges[i+1]
		if lo <= 0xFFFD && 0xFFFD <= hi {
			hasFFFD = true
		}
		if lo > 127 {
			continue
		}
		if hi > 127 {
			hi = 127
		}
		if lo == hi {
			m = tOr(m, tEq(b, mkInt(int64(lo))))
		} else {
			m = tOr(m, tAnd(tCmp("<=", mkInt(int64(lo)), b), tCmp("<=", b, mkInt(int64(hi)))))
		}
	}
	if hasFFFD {
		m = tOr(m, tCmp(">=", b, mkInt(128)))
	}
	return m
}

// reMatch returns a term for "s matches the regexp" (the pattern carries its
// own anchors) by NFA simulation over symbolic bytes - no forking.
func (e *Engine) reMatch(pattern string, s StrVal) *Term {
	if s.atom != nil {
		unsupported("regexp on opaque string")
	}
	prog := compileRe(pattern)
	n := len(prog.Inst)
	closure := func(active []*Term, pos int) []*Term {
		out := make([]*Term, n)
		var add func(pc int, cond *Term, depth int)
		add = func(pc int, cond *Term, depth int) {
			if cond == tFalse || depth > 4*n {
				return
			}
			in := prog.Inst[pc]
			switch in.Op {
			case syntax.InstAlt, syntax.InstAltMatch:
				add(int(in.Out), cond, depth+1)
				add(int(in.Arg), cond, depth+1)
			case syntax.InstCapture, syntax.InstNop:
				add(int(in.Out), cond, depth+1)
			case syntax.InstEmptyWidth:
				ok := true
				ew := syntax.EmptyOp(in.Arg)
				if ew&(syntax.EmptyBeginText|syntax.EmptyBeginLine) != 0 && pos != 0 {
					ok = false
				}
				if ew&(syntax.EmptyEndText|syntax.EmptyEndLine) != 0 && pos != len(s.bytes) {
					ok = false
				}
				if ew&(syntax.EmptyWordBoundary|syntax.EmptyNoWordBoundary) != 0 {
					unsupported("regexp word boundary")
				}
				if ok {
					add(int(in.Out), cond, depth+1)
				}
			case syntax.InstFail:
			default:
				if out[pc] == nil {
					out[pc] = cond
				} else {
					out[pc] = tOr(out[pc], cond)
				}
			}
		}
		for pc, c := range active {
			if c != nil && c != tFalse {
				add(pc, c, 0)
			}
		}
		return out
	}
	init := make([]*Term, n)
	init[prog.Start] = tTrue
	cur := closure(init, 0)
	matched := tFalse
	for pos := 0; pos <= len(s.bytes); pos++ {
		for pc, c := range cur {
			if c != nil && prog.Inst[pc].Op == syntax.InstMatch {
				// unanchored-at-end patterns match as soon as Match is reached
				matched = tOr(matched, c)
			}
		}
		if pos == len(s.bytes) {
			break
		}
		b := s.bytes[pos]
		next := make([]*Term, n)
		for pc, c := range cur {
			if c == nil || c == tFalse {
				continue
			}
			in := prog.Inst[pc]
			var m *Term
			switch in.Op {
			case syntax.InstRune, syntax.InstRune1:
				rs := in.Rune
				if len(rs) == 1 {
					rs = []rune{rs[0], rs[0]}
				}
				m = runeClassTerm(b, rs, false)
			case syntax.InstRuneAny:
				m = tTrue
			case syntax.InstRuneAnyNotNL:
				m = tNot(tEq(b, mkInt(10)))
			default:
				continue
			}
			t := tAnd(c, m)
			if next[in.Out] == nil {
				next[in.Out] = t
			} else {
				next[in.Out] = tOr(next[in.Out], t)
			}
		}
		cur = closure(next, pos+1)
	}
	return matched
}

func (e *Engine) reMatchUnanchored(pattern string, s StrVal) *Term {
	// leftmost start is irrelevant for a yes/no answer: try every start
	r := tFalse
	for i := 0; i <= len(s.bytes); i++ {
		if i > 0 && len(pattern) > 0 && pattern[0] == '^' {
			break
		}
		r = tOr(r, e.reMatch(pattern, StrVal{bytes: s.bytes[i:]}))
	}
	return r
}

// reBT is a backtracking matcher over the regexp syntax tree with Go's
// leftmost-first semantics; byte tests on symbolic bytes fork the path, so on
// every path the matcher's decisions are concrete and priorities are exact.
type reBT struct {
	e    *Engine
	s    StrVal
	ncap int
}

func (m *reBT) match(re *syntax.Regexp, pos int, caps []int, k func(pos int, caps []int) bool) bool {
	switch re.Op {
	case syntax.OpEmptyMatch:
		return k(pos, caps)
	case syntax.OpNoMatch:
		return false
	case syntax.OpLiteral:
		p := pos
		for _, r := range re.Rune {
			if p >= len(m.s.bytes) {
				return false
			}
			rs := []rune{r, r}
			if re.Flags&syntax.FoldCase != 0 {
				unsupported("regexp case folding")
			}
			if !m.e.decide(runeClassTerm(m.s.bytes[p], rs, false)) {
				return false
			}
			p++
		}
		return k(p, caps)
	case syntax.OpCharClass:
		if pos >= len(m.s.bytes) {
			return false
		}
		if !m.e.decide(runeClassTerm(m.s.bytes[pos], re.Rune, false)) {
			return false
		}
		return k(pos+1, caps)
	case syntax.OpAnyChar:
		if pos >= len(m.s.bytes) {
			return false
		}
		return k(pos+1, caps)
	case syntax.OpAnyCharNotNL:
		if pos >= len(m.s.bytes) {
			return false
		}
		if m.e.decide(tEq(m.s.bytes[pos], mkInt(10))) {
			return false
		}
		return k(pos+1, caps)
	case syntax.OpBeginText, syntax.OpBeginLine:
		if pos != 0 {
			return false
		}
		return k(pos, caps)
	case syntax.OpEndText, syntax.OpEndLine:
		if pos != len(m.s.bytes) {
			return false
		}
		return k(pos, caps)
	case syntax.OpCapture:
		return m.match(re.Sub[0], pos, caps, func(p int, c []int) bool {
			nc := append([]int{}, c...)
			nc[2*re.Cap] = pos
			nc[2*re.Cap+1] = p
			return k(p, nc)
		})
	case syntax.OpConcat:
		var seq func(i int, pos int, caps []int) bool
		seq = func(i int, pos int, caps []int) bool {
			if i == len(re.Sub) {
				return k(pos, caps)
			}
			return m.match(re.Sub[i], pos, caps, func(p int, c []int) bool { return seq(i+1, p, c) })
		}
		return seq(0, pos, caps)
	case syntax.OpAlternate:
		for _, sub := range re.Sub {
			if m.match(sub, pos, caps, k) {
				return true
			}
		}
		return false
	case syntax.OpQuest:
		if re.Flags&syntax.NonGreedy != 0 {
			return k(pos, caps) || m.match(re.Sub[0], pos, caps, k)
		}
		return m.match(re.Sub[0], pos, caps, k) || k(pos, caps)
	case syntax.OpStar, syntax.OpPlus:
		var loop func(pos int, caps []int, min int) bool
		loop = func(pos int, caps []int, min int) bool {
			more := func() bool {
				return m.match(re.Sub[0], pos, caps, func(p int, c []int) bool {
					if p == pos {
						return false // empty iteration: stop
					}
					return loop(p, c, 0)
				})
			}
			if min > 0 {
				return more()
			}
			if re.Flags&syntax.NonGreedy != 0 {
				return k(pos, caps) || more()
			}
			return more() || k(pos, caps)
		}
		if re.Op == syntax.OpPlus {
			return loop(pos, caps, 1)
		}
		return loop(pos, caps, 0)
	}
	unsupported("regexp op %v", re.Op)
	return false
}

// reFind finds the leftmost-first match at or after `from`.
func (e *Engine) reFind(pattern string, s StrVal, from int) (caps []int, ok bool) {
	if s.atom != nil {
		unsupported("regexp on opaque string")
	}
	re := parseRe(pattern)
	ncap := re.MaxCap() + 1
	m := &reBT{e: e, s: s, ncap: ncap}
	for start := from; start <= len(s.bytes); start++ {
		init := make([]int, 2*ncap)
		for i := range init {
			init[i] = -1
		}
		var res []int
		if m.match(re, start, init, func(p int, c []int) bool {
			res = append([]int{}, c...)
			res[0], res[1] = start, p
			return true
		}) {
			return res, true
		}
	}
	return nil, false
}

func (e *Engine) reFindSubmatch(pattern string, s StrVal) Value {
	caps, ok := e.reFind(pattern, s, 0)
	if !ok {
		return SliceVal{}
	}
	elems := make([]Value, len(caps)/2)
	for i := range elems {
		if caps[2*i] < 0 {
			elems[i] = StrVal{}
		} else {
			elems[i] = StrVal{bytes: s.bytes[caps[2*i]:caps[2*i+1]]}
		}
	}
	return mkSlice(elems)
}

func (e *Engine) reReplaceAllFunc(pattern string, s StrVal, f FuncVal) Value {
	var out []*Term
	pos := 0
	for pos <= len(s.bytes) {
		caps, ok := e.reFind(pattern, s, pos)
		if !ok {
			break
		}
		a, b := caps[0], caps[1]
		if b == a {
			unsupported("regexp replace with empty match")
		}
		out = append(out, s.bytes[pos:a]...)
		r := e.callFuncVal(f, []Value{StrVal{bytes: s.bytes[a:b]}}).(StrVal)
		if r.atom != nil {
			unsupported("opaque replacement string")
		}
		out = append(out, r.bytes...)
		pos = b
	}
	if pos < len(s.bytes) {
		out = append(out, s.bytes[pos:]...)
	}
	return StrVal{bytes: out}
}
