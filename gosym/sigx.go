package main

import (
	"go/types"

	"golang.org/x/tools/go/ssa"
)

// Ideal signature scheme and abstract key material (DESIGN.md §3.2):
// jws.Sign(k, alg, P) yields the atom σ(k, alg, P); jws.Verify succeeds iff
// the presented value is such an atom made with one of the offered keys (same
// key-pair identity, same algorithm) over an equal payload (data-model
// equality). A value not produced by Sign never verifies.

// AbsSigner is an abstract crypto.Signer that also has Algorithm() (ES256).
type AbsSigner struct{ id int }

// AbsIter iterates an abstract key set.
type AbsIter struct {
	set *AbsSet
	pos int
}

// OptVal is a jws option.
type OptVal struct {
	kind string // "key", "payload", "compact", "keyset"
	alg  IfaceVal
	key  IfaceVal
	tree JVal
}

const jwsPath = "github.com/lestrrat-go/jwx/v2/jws"

func (e *Engine) opaqueIface(v Value) IfaceVal {
	slot := new(Value)
	*slot = v
	return IfaceVal{typ: e.sh.marks.opaque, val: PtrVal{slot}}
}

func opaqueObj(v Value) (Value, bool) {
	iv, ok := v.(IfaceVal)
	if !ok {
		return nil, false
	}
	p, ok := iv.val.(PtrVal)
	if !ok || p.slot == nil {
		return nil, false
	}
	return *p.slot, true
}

func (e *Engine) algName(alg IfaceVal) StrVal {
	if s, ok := alg.val.(StrVal); ok {
		return s
	}
	unsupported("algorithm value of type %v", alg.typ)
	return StrVal{}
}

func (e *Engine) keyIdentity(k IfaceVal) (id int, alg *StrVal) {
	obj, ok := opaqueObj(k)
	if !ok {
		unsupported("jws key of type %v", k.typ)
	}
	switch o := obj.(type) {
	case *AbsKey:
		return o.id, &o.algName
	case *AbsSigner:
		return o.id, nil
	}
	unsupported("jws key object %T", obj)
	return 0, nil
}

func (e *Engine) sigIntrinsic(fn *ssa.Function, full string, args []Value) (Value, bool) {
	switch full {
	case "(github.com/lestrrat-go/jwx/v2/jwa.SignatureAlgorithm).String",
		"(github.com/lestrrat-go/jwx/v2/jwa.KeyEncryptionAlgorithm).String",
		"(github.com/lestrrat-go/jwx/v2/jwa.InvalidKeyAlgorithm).String",
		"(github.com/lestrrat-go/jwx/v2/jwa.KeyType).String":
		return args[0], true
	case "crypto/x509.MarshalPKIXPublicKey":
		return TupleVal{JBytes{JNull{}}, IfaceVal{}}, true
	case "crypto/sha256.Sum256":
		av := &ArrayVal{elems: make([]Value, 32)}
		for i := range av.elems {
			av.elems[i] = mkInt(0)
		}
		return av, true
	case jwsPath + ".WithKey":
		return e.opaqueIface(&OptVal{kind: "key", alg: args[0].(IfaceVal), key: args[1].(IfaceVal)}), true
	case jwsPath + ".WithDetachedPayload":
		return e.opaqueIface(&OptVal{kind: "payload", tree: e.bytesToJ(args[0])}), true
	case jwsPath + ".WithCompact":
		return e.opaqueIface(&OptVal{kind: "compact"}), true
	case jwsPath + ".WithKeySet":
		return e.opaqueIface(&OptVal{kind: "keyset", key: args[0].(IfaceVal)}), true
	case jwsPath + ".Sign":
		var key, payload *OptVal
		for _, o := range variadic(args[1]) {
			if ov, ok := opaqueObj(o); ok {
				if opt, ok := ov.(*OptVal); ok {
					switch opt.kind {
					case "key":
						key = opt
					case "payload":
						payload = opt
					}
				}
			}
		}
		if key == nil || payload == nil {
			unsupported("jws.Sign without key or detached payload")
		}
		id, _ := e.keyIdentity(key.key)
		atom := &Atom{kind: "sig", key: mkInt(int64(id)), alg: e.algName(key.alg), tree: payload.tree}
		return TupleVal{SigBytes{atom: atom}, IfaceVal{}}, true
	case jwsPath + ".Verify":
		sig, isSig := args[0].(SigBytes)
		var payload *OptVal
		var keys []*OptVal
		for _, o := range variadic(args[1]) {
			if ov, ok := opaqueObj(o); ok {
				if opt, ok := ov.(*OptVal); ok {
					switch opt.kind {
					case "key", "keyset":
						keys = append(keys, opt)
					case "payload":
						payload = opt
					}
				}
			}
		}
		fail := TupleVal{SliceVal{}, e.newError(mkStr("jws: could not verify message"))}
		if !isSig || sig.atom == nil || sig.atom.kind != "sig" || payload == nil {
			return fail, true // not a value produced by Sign
		}
		okKey := false
		for _, k := range keys {
			if k.kind == "key" {
				id, _ := e.keyIdentity(k.key)
				if sig.atom.key.iv == int64(id) && e.decide(strEq(sig.atom.alg, e.algName(k.alg))) {
					okKey = true
				}
				continue
			}
			setObj, _ := opaqueObj(k.key)
			set, ok := setObj.(*AbsSet)
			if !ok {
				unsupported("jws.WithKeySet of %T", setObj)
			}
			for _, sk := range set.keys {
				id, alg := e.keyIdentity(sk)
				if sig.atom.key.iv != int64(id) || alg == nil {
					continue
				}
				ak, _ := opaqueObj(sk)
				if !e.decide(ak.(*AbsKey).hasAlg) {
					continue
				}
				if e.decide(strEq(sig.atom.alg, *alg)) {
					okKey = true
				}
			}
		}
		if !okKey {
			return fail, true
		}
		if !e.decide(jEq(sig.atom.tree, payload.tree)) {
			return fail, true
		}
		return TupleVal{JBytes{payload.tree}, IfaceVal{}}, true
	}
	return nil, false
}

func (e *Engine) sigHarnessExtra(fn *ssa.Function, name string, args []Value) (Value, bool) {
	switch name {
	case "vpSigKey": // (alg string, id int) jwk.Key with that algorithm and identity
		id := e.concretize(args[1].(*Term), 0, 64)
		k := &AbsKey{valid: tTrue, hasAlg: tTrue, algKind: 0, algName: args[0].(StrVal), kty: mkStr("OKP"), kid: mkStr("k" + string(rune('0'+id))), id: id}
		return e.opaqueIface(k), true
	case "vpSigKeyKid": // (alg string, id int, kid string) like vpSigKey with a chosen key id
		id := e.concretize(args[1].(*Term), 0, 64)
		k := &AbsKey{valid: tTrue, hasAlg: tTrue, algKind: 0, algName: args[0].(StrVal), kty: mkStr("OKP"), kid: args[2].(StrVal), id: id}
		return e.opaqueIface(k), true
	case "vpSigSigner": // (id int) crypto.Signer + Algorithm()=ES256
		id := e.concretize(args[0].(*Term), 0, 64)
		return e.opaqueIface(&AbsSigner{id: id}), true
	case "vpKeySetOf":
		s := &AbsSet{}
		for _, k := range variadic(args[0]) {
			s.keys = append(s.keys, k.(IfaceVal))
		}
		return e.opaqueIface(s), true
	case "vpForgedSignature": // an arbitrary string that no Sign call produced
		return e.opaqueStr(), true
	}
	return nil, false
}

// absImplements: which interfaces the abstract objects satisfy.
func (e *Engine) absImplements(obj Value, it *types.Interface) bool {
	has := func(names ...string) bool {
		for i := 0; i < it.NumMethods(); i++ {
			for _, n := range names {
				if it.Method(i).Name() == n {
					return true
				}
			}
		}
		return false
	}
	switch obj.(type) {
	case *AbsKey:
		return !has("Public", "Sign", "Len", "LookupKeyID", "Keys", "Next", "Pair")
	case *AbsSigner:
		for i := 0; i < it.NumMethods(); i++ {
			switch it.Method(i).Name() {
			case "Algorithm", "Public", "Sign":
			default:
				return false
			}
		}
		return true
	case *AbsSet:
		return !has("Public", "Sign", "Algorithm", "KeyType", "Validate", "Next", "Pair")
	}
	return it.NumMethods() == 0
}

func (e *Engine) sigInvoke(obj Value, recv IfaceVal, method *types.Func, args []Value) (Value, bool) {
	name := method.Name()
	switch o := obj.(type) {
	case *AbsSigner:
		switch name {
		case "Algorithm":
			return IfaceVal{typ: e.libNamed(jwaPath, "SignatureAlgorithm"), val: mkStr("ES256")}, true
		case "Public":
			return e.opaqueIface(&AbsSigner{id: o.id}), true
		}
	case *AbsSet:
		if name == "Keys" {
			return e.opaqueIface(&AbsIter{set: o}), true
		}
	case *AbsIter:
		switch name {
		case "Next":
			if o.pos < len(o.set.keys) {
				o.pos++
				return tTrue, true
			}
			return tFalse, true
		case "Pair":
			pt := method.Type().(*types.Signature).Results().At(0).Type() // *arrayiter.Pair
			st := pt.Underlying().(*types.Pointer).Elem()
			sv := zero(st).(*StructVal)
			*structField(st, sv, "Index") = mkInt(int64(o.pos - 1))
			*structField(st, sv, "Value") = o.set.keys[o.pos-1]
			slot := new(Value)
			*slot = sv
			return PtrVal{slot}, true
		}
	}
	return nil, false
}
