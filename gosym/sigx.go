package main

import "golang.org/x/tools/go/ssa"

func (e *Engine) sigIntrinsic(fn *ssa.Function, full string, args []Value) (Value, bool) {
	return nil, false
}

func (e *Engine) sigHarnessExtra(fn *ssa.Function, name string, args []Value) (Value, bool) {
	return nil, false
}
