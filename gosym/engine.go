package main

import (
	"fmt"
	"go/constant"
	"go/types"
	"os"
	"path/filepath"
	"sort"
	"strings"
	"sync"
	"time"

	"golang.org/x/tools/go/ssa"
	"golang.org/x/tools/go/ssa/ssautil"
)

// pathEnd is raised (via panic) to terminate the current path.
type pathEnd struct {
	kind string // assume, infeasible, gopanic, assert, unwind, unsupported, outside, unknown, marshalerr
	msg  string
}

// PrimRec records one harness primitive call, in call order, for replay.
type PrimRec struct {
	Kind  string  // "b", "i", "s"
	Terms []*Term // the symbolic value(s): one term for b/i, the bytes for s
}

// Finding is a counterexample found by the solver (not yet confirmed natively).
type Finding struct {
	Harness   string        `json:"harness"`
	Kind      string        `json:"kind"` // "assert" or "panic"
	Label     string        `json:"label"`
	Detail    string        `json:"detail,omitempty"`
	Script    []ScriptEntry `json:"script"`
	Notes     []string      `json:"notes,omitempty"`
	MapNondet bool          `json:"map_nondet"` // path took a Go-spec map-iteration choice
}

// ScriptEntry is one primitive value of a replay script.
type ScriptEntry struct {
	K string `json:"k"`
	B bool   `json:"b,omitempty"`
	I int64  `json:"i,omitempty"`
	S []int  `json:"s,omitempty"` // bytes of the string
}

// Shared is the per-harness state shared by all workers.
type Shared struct {
	prog          *ssa.Program
	pkg           *ssa.Package // package holding the harness
	harness       *ssa.Function
	hname         string
	params        map[string]int
	unwind        int
	replace       map[string]*ssa.Function // library function -> Go-written model in the harness package
	modPath       string                   // module path prefix that is "in scope"
	marks         *markers
	maxPaths      int
	deadline      time.Time
	tier          string
	secondSolver  string
	seed          int
	fixedMapOrder bool

	mu           sync.Mutex
	pending      [][]bool
	busy         int
	cond         *sync.Cond
	stats        Stats
	findings     []Finding
	findKeys     map[string]int
	samples      []Sample
	funcsSeen    map[string]bool
	assertSites  map[string]int
	coverSites   map[string]int
	inconclusive map[string]int
	stop         bool
	pathCount    int
	constCache   map[string][]string
	byteConsts   map[string][]byte
}

// Sample is a concrete witness of a completed path (for evidence and for
// native path-agreement validation).
type Sample struct {
	Harness   string        `json:"harness"`
	Script    []ScriptEntry `json:"script"`
	Notes     []string      `json:"notes,omitempty"`
	MapNondet bool          `json:"map_nondet"`
}

type Stats struct {
	Paths, Completed, AssumeKilled, Infeasible, Unwind, Unsupported, Outside, Unknown int
	Panics, AssertsChecked, AssertsFailed                                             int
	Forks, DomainDecided                                                              int
	FeasQueries, AssertQueries, Sat, Unsat, UnknownQ                                  int
	Second, SecondDisagree                                                            int
	SolverSec, Solver2Sec                                                             float64
	BudgetExhausted                                                                   bool
}

func (a *Stats) add(b Stats) {
	a.Paths += b.Paths
	a.Completed += b.Completed
	a.AssumeKilled += b.AssumeKilled
	a.Infeasible += b.Infeasible
	a.Unwind += b.Unwind
	a.Unsupported += b.Unsupported
	a.Outside += b.Outside
	a.Unknown += b.Unknown
	a.Panics += b.Panics
	a.AssertsChecked += b.AssertsChecked
	a.AssertsFailed += b.AssertsFailed
	a.Forks += b.Forks
	a.DomainDecided += b.DomainDecided
	a.FeasQueries += b.FeasQueries
	a.AssertQueries += b.AssertQueries
	a.Sat += b.Sat
	a.Unsat += b.Unsat
	a.UnknownQ += b.UnknownQ
	a.Second += b.Second
	a.SecondDisagree += b.SecondDisagree
	a.SolverSec += b.SolverSec
	a.Solver2Sec += b.Solver2Sec
	a.BudgetExhausted = a.BudgetExhausted || b.BudgetExhausted
}

// markers are synthetic named types for engine-native dynamic values.
type markers struct {
	rtype, fmtErr, regex, opaque types.Type
}

func newMarkers() *markers {
	mk := func(n string) types.Type {
		return types.NewNamed(types.NewTypeName(0, nil, n, nil), types.NewStruct(nil, nil), nil)
	}
	return &markers{rtype: mk("vp$rtype"), fmtErr: mk("vp$error"), regex: mk("vp$regexp"), opaque: mk("vp$opaque")}
}

// Engine is one worker: an interpreter plus its own solver process.
type Engine struct {
	sh   *Shared
	sol  *Solver
	sol2 *Solver

	prefix    []bool
	taken     []bool
	nvar      int
	depth     int
	pc        []*Term
	decls     []decl
	prims     []PrimRec
	notes     []string
	mapNondet bool

	globals        map[*ssa.Global]*Value
	doms           map[string]*bitset
	facts          map[string]bool
	parseResult    *Value
	parseBroken    bool // the key-set file holds an entry the library cannot parse
	inEffectsRun   bool
	depthIsFinding bool
	domHits        int
	bufs           map[*Value][]bufSeg
	sbufs          map[*Value]StrVal
	syncMaps       map[*Value][]syncEnt
	fnStack        []*ssa.Function
	sbufCap        map[*Value]int
	onceDone       map[*Value]bool
	bitw           map[*Term]int
	inInit         bool
	expectPanic    string

	st         Stats
	localFuncs map[string]bool
	atomSeq    int
}

type Frame struct {
	fn        *ssa.Function
	env       map[ssa.Value]Value
	visits    map[*ssa.BasicBlock]int
	symVisits map[*ssa.BasicBlock]int
	defers    []func()
}

func (e *Engine) fresh(prefix string, isBool bool) *Term {
	e.nvar++
	n := fmt.Sprintf("%s_%d", prefix, e.nvar)
	e.sol.Declare(n, isBool)
	e.decls = append(e.decls, decl{n, isBool})
	return mkVar(n, isBool)
}

func (e *Engine) assertPC(t *Term) {
	if t.konst && t.bv {
		return
	}
	e.sol.Assert(t)
	e.pc = append(e.pc, t)
	e.narrow(t, true)
	if t.op == "not" {
		e.facts[t.args[0].s] = false
	} else {
		e.facts[t.s] = true
	}
}

func (e *Engine) check(t *Term) string {
	e.st.FeasQueries++
	r := e.sol.CheckWith(t)
	switch r {
	case "sat":
		e.st.Sat++
	case "unsat":
		e.st.Unsat++
	default:
		e.st.UnknownQ++
	}
	return r
}

// decide picks a truth value for cond on this path, forking if both are feasible.
func (e *Engine) decide(cond *Term) bool {
	if cond.konst {
		return cond.bv
	}
	// cheap pre-check over the byte domains (deterministic, so re-execution
	// from a decision prefix takes the same shortcut and the vector stays aligned)
	switch e.eval3(cond) {
	case d3T:
		e.st.DomainDecided++
		return true
	case d3F:
		e.st.DomainDecided++
		return false
	}
	// facts already on the path condition (deterministic shortcut as above)
	if v, ok := e.facts[cond.s]; ok {
		return v
	}
	if cond.op == "not" {
		if v, ok := e.facts[cond.args[0].s]; ok {
			return !v
		}
	}
	i := len(e.taken)
	if i < len(e.prefix) {
		d := e.prefix[i]
		e.taken = append(e.taken, d)
		if d {
			e.assertPC(cond)
		} else {
			e.assertPC(tNot(cond))
		}
		return d
	}
	if traceQueries && e.st.Paths <= 12 {
		fmt.Fprintf(os.Stderr, "Q path=%d %s\n", e.st.Paths, cond.s)
	}
	ncond := tNot(cond)
	ft, ff := e.sol.CheckBoth(cond, ncond)
	e.st.FeasQueries += 2
	for _, r := range []string{ft, ff} {
		switch r {
		case "sat":
			e.st.Sat++
		case "unsat":
			e.st.Unsat++
		default:
			e.st.UnknownQ++
		}
	}
	if ft == "unknown" || ff == "unknown" {
		panic(pathEnd{"unknown", "solver unknown on branch condition"})
	}
	if ft == "unsat" {
		if ff != "sat" {
			panic(pathEnd{"infeasible", "both branches infeasible"})
		}
		e.taken = append(e.taken, false)
		e.assertPC(ncond)
		return false
	}
	if ff == "sat" {
		alt := append(append(make([]bool, 0, len(e.taken)+1), e.taken...), false)
		e.sh.pushWork(alt)
		e.st.Forks++
	}
	e.taken = append(e.taken, true)
	e.assertPC(cond)
	return true
}

// concretize returns a concrete value for t in [lo,hi], forking over feasible ones.
func (e *Engine) concretize(t *Term, lo, hi int) int {
	if t.konst {
		return int(t.iv)
	}
	for k := lo; k <= hi; k++ {
		if e.decide(tEq(t, mkInt(int64(k)))) {
			return k
		}
	}
	panic(pathEnd{"infeasible", fmt.Sprintf("concretize %s out of [%d,%d]", t.s, lo, hi)})
}

func (e *Engine) goPanic(msg string) {
	panic(pathEnd{"gopanic", msg})
}

// panicIf forks on a runtime-panic condition.
func (e *Engine) panicIf(cond *Term, msg string) {
	if e.decide(cond) {
		e.goPanic(msg)
	}
}

func unsupported(f string, a ...any) {
	panic(pathEnd{"unsupported", fmt.Sprintf(f, a...)})
}

// ---------------------------------------------------------------------------

func (sh *Shared) pushWork(p []bool) {
	sh.mu.Lock()
	sh.pending = append(sh.pending, p)
	sh.mu.Unlock()
	sh.cond.Signal()
}

// popWork blocks until work is available or exploration is finished.
func (sh *Shared) popWork() ([]bool, bool) {
	sh.mu.Lock()
	defer sh.mu.Unlock()
	for {
		if sh.stop {
			return nil, false
		}
		if n := len(sh.pending); n > 0 {
			p := sh.pending[n-1]
			sh.pending = sh.pending[:n-1]
			sh.busy++
			return p, true
		}
		if sh.busy == 0 {
			sh.cond.Broadcast()
			return nil, false
		}
		sh.cond.Wait()
	}
}

func (sh *Shared) doneWork() {
	sh.mu.Lock()
	sh.busy--
	if sh.busy == 0 && len(sh.pending) == 0 {
		sh.cond.Broadcast()
	}
	sh.mu.Unlock()
}

// Explore runs the harness along every feasible path with nworkers workers.
func (sh *Shared) Explore(nworkers int, solver string) {
	sh.cond = sync.NewCond(&sh.mu)
	sh.pending = [][]bool{nil}
	sh.findKeys = map[string]int{}
	sh.funcsSeen = map[string]bool{}
	sh.assertSites = map[string]int{}
	sh.coverSites = map[string]int{}
	sh.inconclusive = map[string]int{}
	var wg sync.WaitGroup
	for w := 0; w < nworkers; w++ {
		wg.Add(1)
		go func() {
			defer wg.Done()
			e := &Engine{sh: sh, sol: NewSolver(solver), localFuncs: map[string]bool{}}
			if sh.secondSolver != "" {
				e.sol2 = NewSolver(sh.secondSolver)
			}
			defer func() {
				e.st.SolverSec = e.sol.dur.Seconds()
				if e.sol2 != nil {
					e.st.Solver2Sec = e.sol2.dur.Seconds()
					e.sol2.Close()
				}
				e.sol.Close()
				sh.mu.Lock()
				sh.stats.add(e.st)
				for f := range e.localFuncs {
					sh.funcsSeen[f] = true
				}
				sh.mu.Unlock()
			}()
			for {
				p, ok := sh.popWork()
				if !ok {
					return
				}
				e.runPath(p)
				sh.doneWork()
				sh.mu.Lock()
				sh.pathCount++
				over := time.Now().After(sh.deadline) || (sh.maxPaths > 0 && sh.pathCount >= sh.maxPaths)
				if over && !sh.stop {
					sh.stop = true
					if len(sh.pending) > 0 || sh.busy > 0 {
						e.st.BudgetExhausted = true
					}
				}
				sh.mu.Unlock()
				if over {
					sh.cond.Broadcast()
					return
				}
			}
		}()
	}
	wg.Wait()
}

func (e *Engine) resetPath(prefix []bool) {
	e.prefix = prefix
	e.taken = e.taken[:0]
	e.nvar = 0
	e.depth = 0
	e.pc = e.pc[:0]
	e.decls = e.decls[:0]
	e.prims = e.prims[:0]
	e.notes = nil
	e.mapNondet = false
	e.globals = map[*ssa.Global]*Value{}
	e.doms = map[string]*bitset{}
	e.facts = map[string]bool{}
	e.parseResult = nil
	e.parseBroken = false
	e.inEffectsRun = false
	e.depthIsFinding = false
	e.bufs = map[*Value][]bufSeg{}
	e.sbufs = map[*Value]StrVal{}
	e.syncMaps = map[*Value][]syncEnt{}
	e.fnStack = e.fnStack[:0]
	e.sbufCap = map[*Value]int{}
	e.onceDone = map[*Value]bool{}
	e.bitw = map[*Term]int{}
	e.expectPanic = ""
	e.atomSeq = 0
}

func (e *Engine) runPath(prefix []bool) {
	e.resetPath(prefix)
	e.st.Paths++
	e.sol.Push()
	defer e.sol.Pop()
	defer func() {
		if r := recover(); r != nil {
			pe, ok := r.(pathEnd)
			if !ok {
				// engine bug or unexpected shape: never a verdict
				e.st.Unsupported++
				e.sh.noteInconclusive(fmt.Sprintf("engine: %v", r))
				return
			}
			switch pe.kind {
			case "assume":
				e.st.AssumeKilled++
			case "infeasible":
				e.st.Infeasible++
			case "outside":
				e.st.Outside++
			case "unwind":
				if e.depthIsFinding && strings.HasPrefix(pe.msg, "call depth") {
					e.st.Panics++
					e.reportFinding("panic", "panic: unbounded recursion (call depth bound exceeded on a finite input)", pe.msg)
					return
				}
				e.st.Unwind++
				e.sh.noteInconclusive("unwind: " + pe.msg)
			case "unsupported", "marshalerr":
				e.st.Unsupported++
				e.sh.noteInconclusive("unsupported: " + pe.msg + e.whereAmI())
			case "unknown":
				e.st.Unknown++
				e.sh.noteInconclusive("solver: " + pe.msg)
			case "gopanic":
				if e.expectPanic != "" {
					e.st.Completed++
					e.sh.cover("expected-panic:" + e.expectPanic)
					return
				}
				e.st.Panics++
				e.reportFinding("panic", "panic: "+pe.msg, "")
			case "assert":
				// already reported
			}
		}
	}()
	// package initialisers (concrete), then the harness
	e.inInit = true
	if init := e.sh.pkg.Func("init"); init != nil {
		e.call(init, nil)
	}
	e.inInit = false
	e.call(e.sh.harness, nil)
	e.st.Completed++
	e.maybeSample()
}

func (sh *Shared) noteInconclusive(msg string) {
	sh.mu.Lock()
	sh.inconclusive[msg]++
	sh.mu.Unlock()
}

func (sh *Shared) cover(label string) {
	sh.mu.Lock()
	sh.coverSites[label]++
	sh.mu.Unlock()
}

// model extracts the replay script from the solver's current model.
func (e *Engine) model() ([]ScriptEntry, bool) {
	names := []string{}
	for _, p := range e.prims {
		for _, t := range p.Terms {
			if !t.konst {
				names = append(names, t.s)
			}
		}
	}
	if e.sol.Check() != "sat" {
		return nil, false
	}
	vals := e.sol.GetValues(names)
	get := func(t *Term) (int64, bool, bool) {
		if t.konst {
			return t.iv, t.bv, true
		}
		v, ok := vals[t.s]
		if !ok {
			return 0, false, false
		}
		if t.isBool {
			return 0, v == "true", true
		}
		n, ok := parseSMTInt(v)
		return n, false, ok
	}
	out := make([]ScriptEntry, 0, len(e.prims))
	for _, p := range e.prims {
		switch p.Kind {
		case "b":
			_, b, ok := get(p.Terms[0])
			if !ok {
				return nil, false
			}
			out = append(out, ScriptEntry{K: "b", B: b})
		case "i":
			n, _, ok := get(p.Terms[0])
			if !ok {
				return nil, false
			}
			out = append(out, ScriptEntry{K: "i", I: n})
		case "s":
			bs := make([]int, len(p.Terms))
			for i, t := range p.Terms {
				n, _, ok := get(t)
				if !ok {
					return nil, false
				}
				bs[i] = int(n)
			}
			out = append(out, ScriptEntry{K: "s", S: bs})
		}
	}
	return out, true
}

func (e *Engine) reportFinding(kind, label, detail string) {
	script, ok := e.model()
	f := Finding{Harness: e.sh.hname, Kind: kind, Label: label, Detail: detail, Script: script, Notes: e.notes, MapNondet: e.mapNondet}
	if !ok {
		f.Detail += " (no model)"
	}
	sh := e.sh
	sh.mu.Lock()
	key := kind + "|" + label
	sh.findKeys[key]++
	if sh.findKeys[key] <= 40 {
		sh.findings = append(sh.findings, f)
	}
	sh.mu.Unlock()
}

// maybeSample keeps a concrete witness of some completed paths.
func (e *Engine) maybeSample() {
	// sample completed paths 1, 2, 4, 8, ... of each worker (shifted by
	// VERIF_SEED, so different seeds validate different paths natively), capped
	n := e.st.Completed + e.sh.seed%7
	if n&(n-1) != 0 || n > 4096 {
		return
	}
	script, ok := e.model()
	if !ok {
		return
	}
	sh := e.sh
	sh.mu.Lock()
	if len(sh.samples) < 64 {
		sh.samples = append(sh.samples, Sample{Harness: sh.hname, Script: script, Notes: e.notes, MapNondet: e.mapNondet})
	}
	sh.mu.Unlock()
}

// secondOpinion re-asks an unsat verdict on the second solver from scratch.
func (e *Engine) secondOpinion(negated *Term) bool {
	if e.sol2 == nil {
		return true
	}
	e.st.Second++
	asserts := append(append([]*Term{}, e.pc...), negated)
	r := e.sol2.OneShot(e.decls, asserts)
	if r != "unsat" {
		e.st.SecondDisagree++
		return false
	}
	return true
}

// ---------------------------------------------------------------------------

func (e *Engine) inScope(fn *ssa.Function) bool {
	f := fn
	for f.Parent() != nil {
		f = f.Parent()
	}
	if o := f.Origin(); o != nil {
		f = o
	}
	if f.Pkg == nil {
		// synthetic wrappers/bound methods of in-scope types
		if f.Synthetic != "" && f.Object() != nil && f.Object().Pkg() != nil {
			return strings.HasPrefix(f.Object().Pkg().Path(), e.sh.modPath)
		}
		return false
	}
	return strings.HasPrefix(f.Pkg.Pkg.Path(), e.sh.modPath)
}

// libExecPkgs: library packages whose (small, pure) functions may be executed
// from their own SSA when no intrinsic or model exists. Their package-level
// variables stay off limits (reading one ends the path as unsupported), and
// anything they call outside this list needs an intrinsic as usual.
var libExecPkgs = map[string]bool{
	"gopkg.in/yaml.v3": true, "slices": true, "maps": true, "sort": true, "strconv": true,
	"unicode": true, "unicode/utf8": true, "path": true, "strings": true, "bytes": true, "cmp": true, "internal/stringslite": true,
}

func (e *Engine) libExecAllowed(fn *ssa.Function) bool {
	f := fn
	for f.Parent() != nil {
		f = f.Parent()
	}
	if o := f.Origin(); o != nil {
		f = o
	}
	if fn.Blocks == nil {
		return false
	}
	if f.Pkg == nil {
		// synthetic wrappers (bound-method closures, thunks): judged by the method they wrap
		if obj, ok := f.Object().(*types.Func); ok && obj != nil && obj.Pkg() != nil {
			return libExecPkgs[obj.Pkg().Path()]
		}
		return false
	}
	return libExecPkgs[f.Pkg.Pkg.Path()]
}

var pureLibWhitelist = map[string]bool{
	"slices.Contains": true, "slices.Index": true, "slices.IndexFunc": true, "slices.ContainsFunc": true,
	"slices.Equal": true, "maps.Keys": false,
}

func (e *Engine) libWhitelisted(fn *ssa.Function) bool {
	f := fn
	if o := f.Origin(); o != nil {
		f = o
	}
	if f.Pkg == nil {
		return false
	}
	return pureLibWhitelist[f.Pkg.Pkg.Path()+"."+f.Name()]
}

func (e *Engine) call(fn *ssa.Function, args []Value) Value {
	if v, ok := e.intrinsic(fn, args); ok {
		return v
	}
	if fn.Name() == "init" && fn.Synthetic != "" && !e.inScope(fn) {
		return nil // library package initialisers are not executed
	}
	if recv := fn.Signature.Recv(); recv != nil && !e.inScope(fn) {
		// types whose state lives in engine side tables: a method without a
		// model must not run from SSA on the (untouched) struct fields
		switch strings.TrimPrefix(recv.Type().String(), "*") {
		case "strings.Builder", "bytes.Buffer", "sync.Map", "sync.Once", "sync.Mutex", "sync.RWMutex", "sync.Pool", "sync.WaitGroup":
			unsupported("no model for method %s", fn.String())
		}
	}
	if !e.inScope(fn) && !e.libWhitelisted(fn) && !e.libExecAllowed(fn) {
		unsupported("no model for library function %s", fn.String())
	}
	if fn.Blocks == nil {
		unsupported("external function %s", fn.String())
	}
	return e.run(fn, args, nil)
}

func (e *Engine) run(fn *ssa.Function, args []Value, bindings []Value) Value {
	if !e.inInit {
		e.localFuncs[fn.String()] = true
	}
	e.depth++
	if e.depth > 400 {
		panic(pathEnd{"unwind", "call depth > 400 in " + fn.String()})
	}
	defer func() { e.depth-- }()
	nStack := len(e.fnStack)
	e.fnStack = append(e.fnStack[:nStack:nStack], fn) // left as is when the path ends inside (whereAmI)
	fr := &Frame{fn: fn, env: make(map[ssa.Value]Value, 16), visits: map[*ssa.BasicBlock]int{}, symVisits: map[*ssa.BasicBlock]int{}}
	if len(args) != len(fn.Params) {
		unsupported("arity mismatch calling %s: %d args for %d params", fn.String(), len(args), len(fn.Params))
	}
	for i, p := range fn.Params {
		fr.env[p] = args[i]
	}
	for i, fvv := range fn.FreeVars {
		fr.env[fvv] = bindings[i]
	}
	r := e.exec(fr)
	e.fnStack = e.fnStack[:nStack]
	return r
}

// whereAmI names the library entry point the path was inside (the first
// library function called from repository or harness code) when it ended.
func (e *Engine) whereAmI() string {
	entry := ""
	for i := len(e.fnStack) - 1; i >= 0; i-- {
		if e.inScope(e.fnStack[i]) {
			break
		}
		entry = e.fnStack[i].String()
	}
	st := e.fnStack
	e.fnStack = nil
	if entry == "" {
		if len(st) > 0 {
			return " [in " + st[len(st)-1].String() + "]"
		}
		return ""
	}
	return " [inside " + entry + "]"
}

func (e *Engine) callFuncVal(fv FuncVal, args []Value) Value {
	if fv.native != nil {
		return fv.native(e, args)
	}
	if fv.fn == nil {
		e.goPanic("call of nil func")
	}
	if len(fv.bindings) == 0 {
		return e.call(fv.fn, args)
	}
	if v, ok := e.intrinsic(fv.fn, args); ok {
		return v
	}
	if fv.fn.Blocks == nil {
		unsupported("external closure %s", fv.fn.String())
	}
	if !e.inScope(fv.fn) && !e.libExecAllowed(fv.fn) {
		unsupported("no model for library closure %s", fv.fn.String())
	}
	return e.run(fv.fn, args, fv.bindings)
}

// sortedKeys is a small helper for deterministic reports.
func sortedKeys(m map[string]int) []string {
	ks := make([]string, 0, len(m))
	for k := range m {
		ks = append(ks, k)
	}
	sort.Strings(ks)
	return ks
}

var traceQueries = os.Getenv("VP_TRACE") != ""

// strConsts lists the distinct string constants (1..40 bytes) in the SSA of
// the functions of the harness package whose name (or whose enclosing
// function's name) is in the comma-separated list.
func (sh *Shared) strConsts(names string) []string {
	sh.mu.Lock()
	defer sh.mu.Unlock()
	if sh.constCache == nil {
		sh.constCache = map[string][]string{}
	}
	if w, ok := sh.constCache[names]; ok {
		return w
	}
	want := map[string]bool{}
	for _, n := range strings.Split(names, ",") {
		want[strings.TrimSpace(n)] = true
	}
	seen := map[string]bool{}
	bytesSeen := map[byte]bool{}
	var scan func(f *ssa.Function)
	scan = func(f *ssa.Function) {
		for _, b := range f.Blocks {
			for _, in := range b.Instrs {
				for _, op := range in.Operands(nil) {
					if c, ok := (*op).(*ssa.Const); ok && c.Value != nil && c.Value.Kind() == constant.String {
						v := constant.StringVal(c.Value)
						if len(v) >= 1 && len(v) <= 40 {
							seen[v] = true
						}
					}
					if c, ok := (*op).(*ssa.Const); ok && c.Value != nil && c.Value.Kind() == constant.Int {
						if b, isB := c.Type().Underlying().(*types.Basic); isB && (b.Kind() == types.Uint8 || b.Kind() == types.Int32) {
							if iv, exact := constant.Int64Val(c.Value); exact && iv >= 33 && iv <= 126 {
								bytesSeen[byte(iv)] = true
							}
						}
					}
				}
			}
		}
		for _, a := range f.AnonFuncs {
			scan(a)
		}
	}
	for f := range ssautil.AllFunctions(sh.prog) {
		if f.Pkg != sh.pkg || f.Parent() != nil || strings.HasPrefix(f.Name(), "vp") {
			continue
		}
		if want["*"] || want[f.Name()] || (f.Pos().IsValid() && want["*"+filepath.Base(sh.prog.Fset.Position(f.Pos()).Filename)]) {
			scan(f)
		}
	}
	if sh.byteConsts == nil {
		sh.byteConsts = map[string][]byte{}
	}
	for c := range bytesSeen {
		sh.byteConsts[names] = append(sh.byteConsts[names], c)
	}
	var out []string
	for v := range seen {
		out = append(out, v)
	}
	sort.Strings(out)
	sh.constCache[names] = out
	return out
}

// sizeCandidates: boundary sizes derived from the integer constants in the
// SSA of the named functions/files of the package under test.
func (sh *Shared) sizeCandidates(names string, max int) []int {
	want := map[string]bool{}
	for _, n := range strings.Split(names, ",") {
		want[strings.TrimSpace(n)] = true
	}
	seen := map[int]bool{max: true}
	var scan func(f *ssa.Function)
	scan = func(f *ssa.Function) {
		for _, b := range f.Blocks {
			for _, in := range b.Instrs {
				for _, op := range in.Operands(nil) {
					c, ok := (*op).(*ssa.Const)
					if !ok || c.Value == nil || c.Value.Kind() != constant.Int {
						continue
					}
					if bt, isB := c.Type().Underlying().(*types.Basic); !isB || bt.Kind() != types.Int {
						continue
					}
					if iv, exact := constant.Int64Val(c.Value); exact && iv > 2 && iv <= int64(max) {
						for _, d := range []int{-1, 0, 1} {
							if v := int(iv) + d; v <= max {
								seen[v] = true
							}
						}
					}
				}
			}
		}
		for _, a := range f.AnonFuncs {
			scan(a)
		}
	}
	for f := range ssautil.AllFunctions(sh.prog) {
		if f.Pkg != sh.pkg || f.Parent() != nil || strings.HasPrefix(f.Name(), "vp") {
			continue
		}
		if want[f.Name()] || (f.Pos().IsValid() && want["*"+filepath.Base(sh.prog.Fset.Position(f.Pos()).Filename)]) {
			scan(f)
		}
	}
	var out []int
	for v := range seen {
		out = append(out, v)
	}
	sort.Ints(out)
	return out
}

// concretizeAmong forks over the candidate values of t (which the path
// condition confines to cands) and returns the index chosen on this path.
func (e *Engine) concretizeAmong(t *Term, cands []int) int {
	for i, v := range cands {
		if i == len(cands)-1 || e.decide(tEq(t, mkInt(int64(v)))) {
			return i
		}
	}
	return len(cands) - 1
}

// constChars: character-class body of the printable bytes found in string
// constants and small integer (byte/rune) constants of the named functions.
func (sh *Shared) constChars(names string) string {
	words := sh.strConsts(names)
	seen := map[byte]bool{}
	for _, w := range words {
		for i := 0; i < len(w); i++ {
			if w[i] >= 33 && w[i] <= 126 {
				seen[w[i]] = true
			}
		}
	}
	sh.mu.Lock()
	for _, c := range sh.byteConsts[names] {
		seen[c] = true
	}
	sh.mu.Unlock()
	var out []byte
	for c := byte(33); c <= 126; c++ {
		if seen[c] {
			if strings.IndexByte(`\]^-[`, c) >= 0 {
				out = append(out, '\\')
			}
			out = append(out, c)
		}
	}
	return string(out)
}
