package main

import (
	"go/types"
	"net/url"

	"golang.org/x/tools/go/ssa"
)

// net/url on concrete strings: the real library is called in the engine's own
// process and its result is carried over field by field. Symbolic strings
// stay with the Go-written models of the harness packages (or end the path).

func (e *Engine) urlType(name string) types.Type { return e.libNamed("net/url", name) }

func (e *Engine) urlToEngine(u *url.URL) PtrVal {
	ut := e.urlType("URL")
	if ut == nil {
		unsupported("net/url is not part of the program")
	}
	sv := zero(ut).(*StructVal)
	setS := func(name, v string) { *structField(ut, sv, name) = mkStr(v) }
	setB := func(name string, v bool) { *structField(ut, sv, name) = mkBool(v) }
	setS("Scheme", u.Scheme)
	setS("Opaque", u.Opaque)
	setS("Host", u.Host)
	setS("Path", u.Path)
	setS("RawPath", u.RawPath)
	setB("OmitHost", u.OmitHost)
	setB("ForceQuery", u.ForceQuery)
	setS("RawQuery", u.RawQuery)
	setS("Fragment", u.Fragment)
	setS("RawFragment", u.RawFragment)
	if u.User != nil {
		it := e.urlType("Userinfo")
		iv := zero(it).(*StructVal)
		*structField(it, iv, "username") = mkStr(u.User.Username())
		pw, set := u.User.Password()
		*structField(it, iv, "password") = mkStr(pw)
		*structField(it, iv, "passwordSet") = mkBool(set)
		slot := new(Value)
		*slot = iv
		*structField(ut, sv, "User") = PtrVal{slot}
	}
	slot := new(Value)
	*slot = sv
	return PtrVal{slot}
}

func (e *Engine) urlFromEngine(p PtrVal, what string) *url.URL {
	if p.slot == nil {
		e.goPanic("nil *url.URL in " + what)
	}
	ut := e.urlType("URL")
	sv := (*p.slot).(*StructVal)
	getS := func(name string) string { return e.mustStr(*structField(ut, sv, name), what+": URL."+name) }
	getB := func(name string) bool {
		t, ok := (*structField(ut, sv, name)).(*Term)
		if !ok || !t.konst {
			unsupported("%s: symbolic URL.%s", what, name)
		}
		return t.bv
	}
	u := &url.URL{Scheme: getS("Scheme"), Opaque: getS("Opaque"), Host: getS("Host"), Path: getS("Path"), RawPath: getS("RawPath"),
		OmitHost: getB("OmitHost"), ForceQuery: getB("ForceQuery"), RawQuery: getS("RawQuery"), Fragment: getS("Fragment"), RawFragment: getS("RawFragment")}
	if up, ok := (*structField(ut, sv, "User")).(PtrVal); ok && up.slot != nil {
		it := e.urlType("Userinfo")
		iv := (*up.slot).(*StructVal)
		name := e.mustStr(*structField(it, iv, "username"), what+": user name")
		pw := e.mustStr(*structField(it, iv, "password"), what+": password")
		if t, ok := (*structField(it, iv, "passwordSet")).(*Term); ok && t.konst && t.bv {
			u.User = url.UserPassword(name, pw)
		} else {
			u.User = url.User(name)
		}
	}
	return u
}

func (e *Engine) urlIntrinsic(fn *ssa.Function, full string, args []Value) (Value, bool) {
	switch full {
	case "net/url.Parse", "net/url.ParseRequestURI":
		sv, ok := args[0].(StrVal)
		if !ok {
			return nil, false
		}
		s, conc := concreteStr(sv)
		if !conc {
			return nil, false
		}
		var u *url.URL
		var err error
		if full == "net/url.Parse" {
			u, err = url.Parse(s)
		} else {
			u, err = url.ParseRequestURI(s)
		}
		if err != nil {
			return TupleVal{PtrVal{}, e.newError(mkStr(err.Error()))}, true
		}
		return TupleVal{e.urlToEngine(u), IfaceVal{}}, true
	case "(*net/url.URL).String", "(*net/url.URL).Redacted", "(*net/url.URL).EscapedPath", "(*net/url.URL).EscapedFragment",
		"(*net/url.URL).Hostname", "(*net/url.URL).Port", "(*net/url.URL).RequestURI":
		u := e.urlFromEngine(args[0].(PtrVal), full)
		switch fn.Name() {
		case "String":
			return mkStr(u.String()), true
		case "Redacted":
			return mkStr(u.Redacted()), true
		case "EscapedPath":
			return mkStr(u.EscapedPath()), true
		case "EscapedFragment":
			return mkStr(u.EscapedFragment()), true
		case "Hostname":
			return mkStr(u.Hostname()), true
		case "Port":
			return mkStr(u.Port()), true
		default:
			return mkStr(u.RequestURI()), true
		}
	case "(*net/url.URL).IsAbs":
		return mkBool(e.urlFromEngine(args[0].(PtrVal), full).IsAbs()), true
	case "net/url.PathEscape", "net/url.QueryEscape":
		s, conc := concreteStr(args[0].(StrVal))
		if !conc {
			return nil, false
		}
		if fn.Name() == "PathEscape" {
			return mkStr(url.PathEscape(s)), true
		}
		return mkStr(url.QueryEscape(s)), true
	}
	return nil, false
}
