package main

import (
	"fmt"
	"go/types"
	"strings"

	"golang.org/x/tools/go/ssa"
)

// Value is an engine value. Scalars (bool, integers) are *Term; everything
// structural is concrete (see DESIGN.md §2.2).
type Value interface{}

// StrVal is a string of concrete length whose bytes are Int terms, or an
// opaque atom (atom != nil) that supports equality only.
type StrVal struct {
	bytes []*Term
	atom  *Atom
}

// Atom is opaque string content (e.g. an idealised signature value).
type Atom struct {
	kind string // "sig", "opaque"
	id   int    // for kind=="opaque": identity
	key  *Term  // for kind=="sig": key identity (Int term)
	alg  StrVal // for kind=="sig": algorithm the signature was made with
	tree JVal   // for kind=="sig": signed payload
}

type FloatVal struct{ f float64 }

// U64Val is a concrete unsigned integer beyond the int64 range of the Int
// terms (yaml.v3 decodes such scalars to uint64); it can be formatted and
// type-tested, nothing else.
type U64Val struct{ u uint64 }

type PtrVal struct{ slot *Value } // nil pointer: slot == nil

type StructVal struct{ fields []Value }

type ArrayVal struct{ elems []Value }

type SliceVal struct {
	arr           *ArrayVal // nil slice: arr == nil
	off, len, cap int
}

type MapEntry struct{ key, val Value }

type MapObj struct {
	entries []*MapEntry
}

type MapVal struct{ m *MapObj } // nil map: m == nil

type IfaceVal struct {
	typ types.Type // nil interface: typ == nil
	val Value
}

type FuncVal struct {
	fn       *ssa.Function
	bindings []Value
	// bound method closure / intrinsic closure
	native func(e *Engine, args []Value) Value
}

type TupleVal []Value

// MapIter is the state of a range-over-map.
type MapIter struct {
	m         *MapObj
	visited   map[*MapEntry]bool
	orig      map[*MapEntry]bool
	newVisits int
	started   bool
	cycle     []*MapEntry
}

// StrIter is the state of a range-over-string (bytes assumed ASCII).
type StrIter struct {
	s   StrVal
	pos int
}

// FmtErr is the payload of an error built by fmt.Errorf / errors.New.
type FmtErr struct {
	msg     StrVal
	wrapped []IfaceVal
}

// RegexObj is the payload of a *regexp.Regexp.
type RegexObj struct{ pattern string }

func copyVal(v Value) Value {
	switch v := v.(type) {
	case *StructVal:
		n := &StructVal{fields: make([]Value, len(v.fields))}
		for i, f := range v.fields {
			n.fields[i] = copyVal(f)
		}
		return n
	case *ArrayVal:
		n := &ArrayVal{elems: make([]Value, len(v.elems))}
		for i, f := range v.elems {
			n.elems[i] = copyVal(f)
		}
		return n
	}
	return v
}

// assign stores v into slot preserving the identity of in-place aggregates
// (so interior pointers obtained by FieldAddr/IndexAddr stay valid).
func assign(slot *Value, v Value) {
	switch nv := v.(type) {
	case *StructVal:
		if ov, ok := (*slot).(*StructVal); ok && len(ov.fields) == len(nv.fields) {
			if ov == nv {
				return
			}
			for i := range nv.fields {
				assign(&ov.fields[i], nv.fields[i])
			}
			return
		}
	case *ArrayVal:
		if ov, ok := (*slot).(*ArrayVal); ok && len(ov.elems) == len(nv.elems) {
			if ov == nv {
				return
			}
			for i := range nv.elems {
				assign(&ov.elems[i], nv.elems[i])
			}
			return
		}
	}
	*slot = copyVal(v)
}

func zero(t types.Type) Value {
	switch u := t.Underlying().(type) {
	case *types.Basic:
		switch {
		case u.Info()&types.IsBoolean != 0:
			return tFalse
		case u.Info()&types.IsInteger != 0:
			return mkInt(0)
		case u.Info()&types.IsString != 0:
			return StrVal{}
		case u.Info()&types.IsFloat != 0:
			return FloatVal{0}
		case u.Kind() == types.UnsafePointer:
			return PtrVal{}
		case u.Kind() == types.UntypedNil, u.Kind() == types.Invalid:
			return nil
		}
		panic(pathEnd{"unsupported", fmt.Sprintf("zero: unsupported basic %v", u)})
	case *types.Pointer:
		return PtrVal{}
	case *types.Struct:
		sv := &StructVal{fields: make([]Value, u.NumFields())}
		for i := 0; i < u.NumFields(); i++ {
			sv.fields[i] = zero(u.Field(i).Type())
		}
		return sv
	case *types.Array:
		av := &ArrayVal{elems: make([]Value, u.Len())}
		for i := range av.elems {
			av.elems[i] = zero(u.Elem())
		}
		return av
	case *types.Slice:
		return SliceVal{}
	case *types.Map:
		return MapVal{}
	case *types.Interface:
		return IfaceVal{}
	case *types.Signature:
		return FuncVal{}
	case *types.Tuple:
		tv := make(TupleVal, u.Len())
		for i := range tv {
			tv[i] = zero(u.At(i).Type())
		}
		return tv
	case *types.Chan:
		return PtrVal{}
	}
	panic(pathEnd{"unsupported", fmt.Sprintf("zero: unsupported type %v", t)})
}

func mkStr(s string) StrVal {
	sv := StrVal{bytes: make([]*Term, len(s))}
	for i := 0; i < len(s); i++ {
		sv.bytes[i] = mkInt(int64(s[i]))
	}
	return sv
}

func concreteStr(v Value) (string, bool) {
	s, ok := v.(StrVal)
	if !ok || s.atom != nil {
		return "", false
	}
	b := make([]byte, len(s.bytes))
	for i, t := range s.bytes {
		if !t.konst {
			return "", false
		}
		b[i] = byte(t.iv)
	}
	return string(b), true
}

func mkStrSlice(ss []string) SliceVal {
	if ss == nil {
		return SliceVal{}
	}
	av := &ArrayVal{elems: make([]Value, len(ss))}
	for i, s := range ss {
		av.elems[i] = mkStr(s)
	}
	return SliceVal{arr: av, len: len(ss), cap: len(ss)}
}

func mkSlice(elems []Value) SliceVal {
	av := &ArrayVal{elems: elems}
	return SliceVal{arr: av, len: len(elems), cap: len(elems)}
}

func sliceElems(s SliceVal) []Value {
	if s.arr == nil {
		return nil
	}
	return s.arr.elems[s.off : s.off+s.len]
}

// structField finds a field of a struct value by name.
func structField(t types.Type, sv *StructVal, name string) *Value {
	st := t.Underlying().(*types.Struct)
	for i := 0; i < st.NumFields(); i++ {
		if st.Field(i).Name() == name {
			return &sv.fields[i]
		}
	}
	panic(pathEnd{"unsupported", "no field " + name + " in " + t.String()})
}

// describe renders a value for evidence samples (symbolic parts shown as terms).
func describe(v Value, depth int) string {
	if depth > 6 {
		return "…"
	}
	switch v := v.(type) {
	case nil:
		return "nil"
	case *Term:
		return v.s
	case StrVal:
		if v.atom != nil {
			return "<atom:" + v.atom.kind + ">"
		}
		if s, ok := concreteStr(v); ok {
			return fmt.Sprintf("%q", s)
		}
		parts := make([]string, len(v.bytes))
		for i, b := range v.bytes {
			parts[i] = b.s
		}
		return "str[" + strings.Join(parts, " ") + "]"
	case FloatVal:
		return fmt.Sprint(v.f)
	case PtrVal:
		if v.slot == nil {
			return "nil"
		}
		return "&" + describe(*v.slot, depth+1)
	case *StructVal:
		parts := make([]string, len(v.fields))
		for i, f := range v.fields {
			parts[i] = describe(f, depth+1)
		}
		return "{" + strings.Join(parts, ", ") + "}"
	case SliceVal:
		if v.arr == nil {
			return "nil"
		}
		parts := []string{}
		for _, x := range sliceElems(v) {
			parts = append(parts, describe(x, depth+1))
		}
		return "[" + strings.Join(parts, ", ") + "]"
	case MapVal:
		if v.m == nil {
			return "nil"
		}
		parts := []string{}
		for _, en := range v.m.entries {
			parts = append(parts, describe(en.key, depth+1)+":"+describe(en.val, depth+1))
		}
		return "map[" + strings.Join(parts, ", ") + "]"
	case IfaceVal:
		if v.typ == nil {
			return "nil"
		}
		return describe(v.val, depth+1)
	}
	return fmt.Sprintf("<%T>", v)
}
