package main

import (
	"fmt"
	"go/types"
	"strconv"

	"golang.org/x/tools/go/ssa"
)

const (
	yDocumentNode = 1
	ySequenceNode = 2
	yMappingNode  = 4
	yScalarNode   = 8
	yAliasNode    = 16
)

// yamlNodeType finds gopkg.in/yaml.v3.Node in the loaded program.
func (e *Engine) yamlNodeType() types.Type {
	for _, p := range e.sh.prog.AllPackages() {
		if p.Pkg.Path() == "gopkg.in/yaml.v3" {
			if t := p.Type("Node"); t != nil {
				return t.Type()
			}
		}
	}
	unsupported("gopkg.in/yaml.v3 not loaded")
	return nil
}

func (e *Engine) newYAMLNode(kind int, tag string, value StrVal, content []Value) PtrVal {
	nt := e.yamlNodeType()
	sv := zero(nt).(*StructVal)
	*structField(nt, sv, "Kind") = mkInt(int64(kind))
	*structField(nt, sv, "Tag") = mkStr(tag)
	*structField(nt, sv, "Value") = value
	if content != nil {
		*structField(nt, sv, "Content") = mkSlice(content)
	}
	slot := new(Value)
	*slot = sv
	return PtrVal{slot}
}

// jToYAML builds the yaml.Node graph that yaml.v3's parser produces for a JSON
// document with this data model (flow mappings/sequences, plain or quoted
// scalars resolved to !!str, !!int, !!float, !!bool, !!null).
func (e *Engine) jToYAML(j JVal) PtrVal {
	switch j := j.(type) {
	case JNull:
		return e.newYAMLNode(yScalarNode, "!!null", mkStr("null"), nil)
	case JBool:
		if e.decide(j.b) {
			return e.newYAMLNode(yScalarNode, "!!bool", mkStr("true"), nil)
		}
		return e.newYAMLNode(yScalarNode, "!!bool", mkStr("false"), nil)
	case JNum:
		switch v := j.v.(type) {
		case *Term:
			if !v.konst {
				unsupported("symbolic number in JSON -> YAML conversion")
			}
			return e.newYAMLNode(yScalarNode, "!!int", mkStr(strconv.FormatInt(v.iv, 10)), nil)
		case FloatVal:
			if v.f == float64(int64(v.f)) && v.f < 1e15 && v.f > -1e15 {
				// encoding/json prints integral floats without a fraction; yaml re-reads them as !!int
				return e.newYAMLNode(yScalarNode, "!!int", mkStr(strconv.FormatInt(int64(v.f), 10)), nil)
			}
			return e.newYAMLNode(yScalarNode, "!!float", mkStr(strconv.FormatFloat(v.f, 'g', -1, 64)), nil)
		}
	case JStr:
		if j.s.atom != nil {
			return e.newYAMLNode(yScalarNode, "!!str", j.s, nil)
		}
		return e.newYAMLNode(yScalarNode, "!!str", j.s, nil)
	case JArr:
		content := []Value{}
		for _, x := range j.elems {
			content = append(content, e.jToYAML(x))
		}
		return e.newYAMLNode(ySequenceNode, "!!seq", StrVal{}, content)
	case JObj:
		o := e.sortedObj(j)
		content := []Value{}
		for i := range o.keys {
			content = append(content, e.newYAMLNode(yScalarNode, "!!str", o.keys[i], nil), e.jToYAML(o.vals[i]))
		}
		return e.newYAMLNode(yMappingNode, "!!map", StrVal{}, content)
	}
	unsupported("jToYAML %T", j)
	return PtrVal{}
}

func (e *Engine) yamlIntrinsic(fn *ssa.Function, full string, args []Value) (Value, bool) {
	switch full {
	case "(*gopkg.in/yaml.v3.Node).Decode":
		np := args[0].(PtrVal)
		if np.slot == nil {
			e.goPanic("yaml: Decode on nil node")
		}
		nt := fn.Signature.Recv().Type().Underlying().(*types.Pointer).Elem()
		sv := (*np.slot).(*StructVal)
		kind := *structField(nt, sv, "Kind")
		if kt := kind.(*Term); !kt.konst || kt.iv != yScalarNode {
			unsupported("yaml.Node.Decode on non-scalar node")
		}
		tag := e.mustStr(*structField(nt, sv, "Tag"), "yaml.Node.Decode tag")
		val := (*structField(nt, sv, "Value")).(StrVal)
		outI := args[1].(IfaceVal)
		out, ok := outI.val.(PtrVal)
		if !ok || out.slot == nil {
			unsupported("yaml.Node.Decode into %v", outI.typ)
		}
		if !isIfaceType(outI.typ.Underlying().(*types.Pointer).Elem()) {
			unsupported("yaml.Node.Decode into non-interface %v", outI.typ)
		}
		switch tag {
		case "!!str":
			assign(out.slot, IfaceVal{typ: types.Typ[types.String], val: val})
		case "!!null":
			assign(out.slot, IfaceVal{})
		case "!!bool":
			s := e.mustStr(val, "yaml !!bool value")
			assign(out.slot, IfaceVal{typ: types.Typ[types.Bool], val: mkBool(s == "true")})
		case "!!int":
			s := e.mustStr(val, "yaml !!int value")
			n, err := strconv.ParseInt(s, 10, 64)
			if err != nil {
				unsupported("yaml !!int value %q", s)
			}
			assign(out.slot, IfaceVal{typ: types.Typ[types.Int], val: mkInt(n)})
		case "!!float":
			s := e.mustStr(val, "yaml !!float value")
			f, err := strconv.ParseFloat(s, 64)
			if err != nil {
				unsupported("yaml !!float value %q", s)
			}
			assign(out.slot, IfaceVal{typ: types.Typ[types.Float64], val: FloatVal{f}})
		default:
			unsupported("yaml.Node.Decode with tag %s", tag)
		}
		return IfaceVal{}, true
	case "(*gopkg.in/yaml.v3.Node).Encode":
		np := args[0].(PtrVal)
		nt := fn.Signature.Recv().Type().Underlying().(*types.Pointer).Elem()
		sv := (*np.slot).(*StructVal)
		iv := args[1].(IfaceVal)
		*structField(nt, sv, "Kind") = mkInt(yScalarNode)
		switch {
		case iv.typ == nil:
			*structField(nt, sv, "Tag") = mkStr("!!null")
			*structField(nt, sv, "Value") = mkStr("null")
		case isBasicKind(iv.typ, types.IsString):
			*structField(nt, sv, "Tag") = mkStr("!!str")
			*structField(nt, sv, "Value") = iv.val
		case isBasicKind(iv.typ, types.IsInteger):
			t := iv.val.(*Term)
			*structField(nt, sv, "Tag") = mkStr("!!int")
			if t.konst {
				*structField(nt, sv, "Value") = mkStr(fmt.Sprint(t.iv))
			} else {
				// keep the symbolic integer: single decimal digit only
				if !e.decide(tAnd(tCmp("<=", mkInt(0), t), tCmp("<=", t, mkInt(9)))) {
					unsupported("yaml.Node.Encode of symbolic integer outside 0..9")
				}
				*structField(nt, sv, "Value") = StrVal{bytes: []*Term{tArith("+", t, mkInt(48))}}
			}
		case isBasicKind(iv.typ, types.IsBoolean):
			*structField(nt, sv, "Tag") = mkStr("!!bool")
			if e.decide(iv.val.(*Term)) {
				*structField(nt, sv, "Value") = mkStr("true")
			} else {
				*structField(nt, sv, "Value") = mkStr("false")
			}
		default:
			unsupported("yaml.Node.Encode of %v", iv.typ)
		}
		return IfaceVal{}, true
	case "gopkg.in/yaml.v3.Unmarshal":
		// JSON bytes read as YAML: build the node graph for the data model.
		tree := e.bytesToJ(args[0])
		outI := args[1].(IfaceVal)
		out, ok := outI.val.(PtrVal)
		if !ok || out.slot == nil || !types.Identical(outI.typ.Underlying().(*types.Pointer).Elem(), e.yamlNodeType()) {
			unsupported("yaml.Unmarshal into %v", outI.typ)
		}
		root := e.jToYAML(tree)
		doc := e.newYAMLNode(yDocumentNode, "", StrVal{}, []Value{root})
		assign(out.slot, *doc.slot)
		return IfaceVal{}, true
	}
	return nil, false
}

func isBasicKind(t types.Type, info types.BasicInfo) bool {
	b, ok := t.Underlying().(*types.Basic)
	return ok && b.Info()&info != 0
}
