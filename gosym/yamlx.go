package main

import (
	"math"
	"fmt"
	"go/types"
	"reflect"
	"strconv"
	"strings"

	"golang.org/x/tools/go/ssa"
	"gopkg.in/yaml.v3"
)

const (
	yDocumentNode = 1
	ySequenceNode = 2
	yMappingNode  = 4
	yScalarNode   = 8
	yAliasNode    = 16
)

// yamlNodeType finds gopkg.in/yaml.v3.Node in the loaded program.
func (e *Engine) yamlNodeType() types.Type {
	for _, p := range e.sh.prog.AllPackages() {
		if p.Pkg.Path() == "gopkg.in/yaml.v3" {
			if t := p.Type("Node"); t != nil {
				return t.Type()
			}
		}
	}
	unsupported("gopkg.in/yaml.v3 not loaded")
	return nil
}

func (e *Engine) newYAMLNode(kind int, tag string, value StrVal, content []Value) PtrVal {
	nt := e.yamlNodeType()
	sv := zero(nt).(*StructVal)
	*structField(nt, sv, "Kind") = mkInt(int64(kind))
	*structField(nt, sv, "Tag") = mkStr(tag)
	*structField(nt, sv, "Value") = value
	if content != nil {
		*structField(nt, sv, "Content") = mkSlice(content)
	}
	slot := new(Value)
	*slot = sv
	return PtrVal{slot}
}

// jToYAML builds the yaml.Node graph that yaml.v3's parser produces for a JSON
// document with this data model (flow mappings/sequences, plain or quoted
// scalars resolved to !!str, !!int, !!float, !!bool, !!null).
func (e *Engine) jToYAML(j JVal) PtrVal {
	switch j := j.(type) {
	case JNull:
		return e.newYAMLNode(yScalarNode, "!!null", mkStr("null"), nil)
	case JBool:
		if e.decide(j.b) {
			return e.newYAMLNode(yScalarNode, "!!bool", mkStr("true"), nil)
		}
		return e.newYAMLNode(yScalarNode, "!!bool", mkStr("false"), nil)
	case JNum:
		switch v := j.v.(type) {
		case *Term:
			if !v.konst {
				unsupported("symbolic number in JSON -> YAML conversion")
			}
			return e.newYAMLNode(yScalarNode, "!!int", mkStr(strconv.FormatInt(v.iv, 10)), nil)
		case FloatVal:
			if v.f == float64(int64(v.f)) && v.f < 1e15 && v.f > -1e15 {
				// encoding/json prints integral floats without a fraction; yaml re-reads them as !!int
				return e.newYAMLNode(yScalarNode, "!!int", mkStr(strconv.FormatInt(int64(v.f), 10)), nil)
			}
			return e.newYAMLNode(yScalarNode, "!!float", mkStr(strconv.FormatFloat(v.f, 'g', -1, 64)), nil)
		}
	case JStr:
		if j.s.atom != nil {
			return e.newYAMLNode(yScalarNode, "!!str", j.s, nil)
		}
		return e.newYAMLNode(yScalarNode, "!!str", j.s, nil)
	case JArr:
		content := []Value{}
		for _, x := range j.elems {
			content = append(content, e.jToYAML(x))
		}
		return e.newYAMLNode(ySequenceNode, "!!seq", StrVal{}, content)
	case JObj:
		o := e.sortedObj(j)
		content := []Value{}
		for i := range o.keys {
			content = append(content, e.newYAMLNode(yScalarNode, "!!str", o.keys[i], nil), e.jToYAML(o.vals[i]))
		}
		return e.newYAMLNode(yMappingNode, "!!map", StrVal{}, content)
	}
	unsupported("jToYAML %T", j)
	return PtrVal{}
}

func (e *Engine) yamlIntrinsic(fn *ssa.Function, full string, args []Value) (Value, bool) {
	switch full {
	case "(*gopkg.in/yaml.v3.Node).Decode":
		np := args[0].(PtrVal)
		if np.slot == nil {
			e.goPanic("yaml: Decode on nil node")
		}
		nt := fn.Signature.Recv().Type().Underlying().(*types.Pointer).Elem()
		sv := (*np.slot).(*StructVal)
		kind := *structField(nt, sv, "Kind")
		if kt := kind.(*Term); !kt.konst || kt.iv != yScalarNode {
			// the library's own decoder on a collection: sequences become []any,
			// mappings Go maps (map[string]any) - no ordered maps, no key order
			outI := args[1].(IfaceVal)
			out, ok := outI.val.(PtrVal)
			if !ok || out.slot == nil || !isIfaceType(outI.typ.Underlying().(*types.Pointer).Elem()) {
				unsupported("yaml.Node.Decode of a collection into %v", outI.typ)
			}
			assign(out.slot, e.yamlNativeDecode(nt, sv, 0))
			return IfaceVal{}, true
		}
		outI := args[1].(IfaceVal)
		out, ok := outI.val.(PtrVal)
		if !ok || out.slot == nil {
			unsupported("yaml.Node.Decode into %v", outI.typ)
		}
		if !isIfaceType(outI.typ.Underlying().(*types.Pointer).Elem()) {
			unsupported("yaml.Node.Decode into non-interface %v", outI.typ)
		}
		return e.yamlDecodeScalar(nt, sv, out.slot), true
	case "(*gopkg.in/yaml.v3.Node).Encode":
		np := args[0].(PtrVal)
		if np.slot == nil {
			e.goPanic("yaml: Encode on nil node")
		}
		nt := fn.Signature.Recv().Type().Underlying().(*types.Pointer).Elem()
		if failed := e.yamlEncodeInto(nt, (*np.slot).(*StructVal), args[1].(IfaceVal), 0); failed {
			return e.newError(mkStr("yaml: marshal error")), true
		}
		return IfaceVal{}, true
	case "gopkg.in/yaml.v3.Marshal":
		root, failed := e.yamlMarshal(args[0].(IfaceVal))
		if failed {
			return TupleVal{SliceVal{}, e.newError(mkStr("yaml: marshal error"))}, true
		}
		return TupleVal{YBytes{root: root}, IfaceVal{}}, true
	case "bytes.NewReader":
		// a reader over a document the engine holds abstractly; plain byte
		// slices keep running from the library's own code
		switch args[0].(type) {
		case YBytes, JBytes, bufBytes:
			slot := new(Value)
			*slot = &ReaderObj{src: args[0]}
			return PtrVal{slot}, true
		}
		return nil, false
	case "gopkg.in/yaml.v3.NewDecoder":
		src := Value(nil)
		if iv, ok := args[0].(IfaceVal); ok {
			if p, ok := iv.val.(PtrVal); ok && p.slot != nil {
				if r, ok := (*p.slot).(*ReaderObj); ok {
					src = r.src
				}
			}
		}
		if src == nil {
			unsupported("yaml.NewDecoder over a reader the engine does not hold a document for")
		}
		slot := new(Value)
		*slot = &YDecoderObj{src: src}
		return PtrVal{slot}, true
	case "(*gopkg.in/yaml.v3.Decoder).Decode":
		d := (*args[0].(PtrVal).slot).(*YDecoderObj)
		if d.done {
			return e.sentinelError("io.EOF"), true
		}
		d.done = true
		outI := args[1].(IfaceVal)
		out, ok := outI.val.(PtrVal)
		if !ok || out.slot == nil || !types.Identical(outI.typ.Underlying().(*types.Pointer).Elem(), e.yamlNodeType()) {
			unsupported("yaml.Decoder.Decode into %v", outI.typ)
		}
		var root PtrVal
		if yb, ok := d.src.(YBytes); ok {
			root = e.copyYAMLTree(yb.root, 0)
		} else {
			root = e.jToYAML(e.bytesToJ(d.src))
		}
		doc := e.newYAMLNode(yDocumentNode, "", StrVal{}, []Value{root})
		assign(out.slot, *doc.slot)
		return IfaceVal{}, true
	case "gopkg.in/yaml.v3.Unmarshal":
		if yb, ok := args[0].(YBytes); ok {
			// a YAML document produced by yaml.Marshal: the parser returns its node tree
			outI := args[1].(IfaceVal)
			out, ok := outI.val.(PtrVal)
			if !ok || out.slot == nil || !types.Identical(outI.typ.Underlying().(*types.Pointer).Elem(), e.yamlNodeType()) {
				unsupported("yaml.Unmarshal into %v", outI.typ)
			}
			doc := e.newYAMLNode(yDocumentNode, "", StrVal{}, []Value{e.copyYAMLTree(yb.root, 0)})
			assign(out.slot, *doc.slot)
			return IfaceVal{}, true
		}
		// JSON bytes read as YAML: build the node graph for the data model.
		tree := e.bytesToJ(args[0])
		outI := args[1].(IfaceVal)
		out, ok := outI.val.(PtrVal)
		if !ok || out.slot == nil || !types.Identical(outI.typ.Underlying().(*types.Pointer).Elem(), e.yamlNodeType()) {
			unsupported("yaml.Unmarshal into %v", outI.typ)
		}
		root := e.jToYAML(tree)
		doc := e.newYAMLNode(yDocumentNode, "", StrVal{}, []Value{root})
		assign(out.slot, *doc.slot)
		return IfaceVal{}, true
	}
	return nil, false
}

func isBasicKind(t types.Type, info types.BasicInfo) bool {
	b, ok := t.Underlying().(*types.Basic)
	return ok && b.Info()&info != 0
}

// yamlEncodeInto fills node sv with the encoding of iv (yaml.v3's documented
// dispatch: Marshaler first, then scalars and sequences).
func (e *Engine) yamlEncodeInto(nt types.Type, sv *StructVal, iv IfaceVal, depth int) (failed bool) {
	if depth > 20 {
		unsupported("yaml.Node.Encode nesting too deep")
	}
	set := func(kind int, tag string, val Value) {
		*structField(nt, sv, "Kind") = mkInt(int64(kind))
		*structField(nt, sv, "Tag") = mkStr(tag)
		if val != nil {
			*structField(nt, sv, "Value") = val
		}
	}
	if iv.typ == nil {
		set(yScalarNode, "!!null", mkStr("null"))
		return false
	}
	if p, ok := iv.val.(PtrVal); ok && p.slot == nil {
		set(yScalarNode, "!!null", mkStr("null"))
		return false
	}
	if m := e.findMethod(iv.typ, "MarshalYAML"); m != nil {
		recv := iv.val
		if _, isPtr := m.Signature.Recv().Type().Underlying().(*types.Pointer); !isPtr {
			if p, ok := recv.(PtrVal); ok {
				recv = copyVal(*p.slot)
			}
		}
		res := e.call(m, []Value{recv}).(TupleVal)
		if errv := res[1].(IfaceVal); errv.typ != nil {
			return true
		}
		out := res[0].(IfaceVal)
		if out.typ != nil && types.Identical(out.typ, types.NewPointer(nt)) {
			src := out.val.(PtrVal)
			if src.slot == nil {
				set(yScalarNode, "!!null", mkStr("null"))
				return false
			}
			cp := copyVal(*src.slot).(*StructVal)
			copy(sv.fields, cp.fields)
			return false
		}
		return e.yamlEncodeInto(nt, sv, out, depth+1)
	}
	switch {
	case isBasicKind(iv.typ, types.IsString):
		set(yScalarNode, "!!str", iv.val)
	case isBasicKind(iv.typ, types.IsInteger):
		t := iv.val.(*Term)
		if t.konst {
			set(yScalarNode, "!!int", mkStr(fmt.Sprint(t.iv)))
		} else {
			if !e.decide(tAnd(tCmp("<=", mkInt(0), t), tCmp("<=", t, mkInt(9)))) {
				unsupported("yaml.Node.Encode of symbolic integer outside 0..9")
			}
			set(yScalarNode, "!!int", StrVal{bytes: []*Term{tArith("+", t, mkInt(48))}})
		}
	case isBasicKind(iv.typ, types.IsBoolean):
		if e.decide(iv.val.(*Term)) {
			set(yScalarNode, "!!bool", mkStr("true"))
		} else {
			set(yScalarNode, "!!bool", mkStr("false"))
		}
	case isBasicKind(iv.typ, types.IsFloat):
		set(yScalarNode, "!!float", mkStr(strconv.FormatFloat(iv.val.(FloatVal).f, 'g', -1, 64)))
	default:
		if sl, ok := iv.typ.Underlying().(*types.Slice); ok {
			s := iv.val.(SliceVal)
			content := []Value{}
			for _, x := range sliceElems(s) {
				child := e.newYAMLNode(0, "", StrVal{}, nil)
				var xi IfaceVal
				if isIfaceType(sl.Elem()) {
					xi = x.(IfaceVal)
				} else {
					xi = IfaceVal{typ: sl.Elem(), val: x}
				}
				if e.yamlEncodeInto(nt, (*child.slot).(*StructVal), xi, depth+1) {
					return true
				}
				content = append(content, child)
			}
			set(ySequenceNode, "!!seq", nil)
			*structField(nt, sv, "Content") = mkSlice(content)
			return false
		}
		unsupported("yaml.Node.Encode of %v", iv.typ)
	}
	return false
}

// resolvePlainScalar is yaml.v3's resolution of an untagged plain scalar:
// concrete spellings are resolved by the real library; symbolic ones only when
// they are empty (null) or consist of letters that cannot spell a special
// word of their length.
func (e *Engine) resolvePlainScalar(val StrVal) IfaceVal {
	if val.atom != nil {
		return IfaceVal{typ: types.Typ[types.String], val: val}
	}
	if s, ok := concreteStr(val); ok {
		n := yaml.Node{Kind: yaml.ScalarNode, Value: s}
		var x any
		if err := n.Decode(&x); err != nil {
			unsupported("yaml: cannot resolve plain scalar %q: %v", s, err)
		}
		switch v := x.(type) {
		case nil:
			return IfaceVal{}
		case string:
			return IfaceVal{typ: types.Typ[types.String], val: mkStr(v)}
		case bool:
			return IfaceVal{typ: types.Typ[types.Bool], val: mkBool(v)}
		case int:
			return IfaceVal{typ: types.Typ[types.Int], val: mkInt(int64(v))}
		case float64:
			return IfaceVal{typ: types.Typ[types.Float64], val: FloatVal{v}}
		}
		unsupported("yaml: plain scalar %q resolves to %T", s, x)
	}
	if len(val.bytes) == 0 {
		return IfaceVal{}
	}
	for _, b := range val.bytes {
		letter := tOr(tAnd(tCmp("<=", mkInt('a'), b), tCmp("<=", b, mkInt('z'))), tAnd(tCmp("<=", mkInt('A'), b), tCmp("<=", b, mkInt('Z'))))
		if !e.decide(letter) {
			unsupported("yaml: untagged plain scalar with a symbolic non-letter byte")
		}
	}
	for _, w := range []string{"true", "True", "TRUE", "false", "False", "FALSE", "null", "Null", "NULL"} {
		if len(w) == len(val.bytes) && e.decide(strEq(val, mkStr(w))) {
			return e.resolvePlainScalar(mkStr(w))
		}
	}
	return IfaceVal{typ: types.Typ[types.String], val: val}
}

// ---------------------------------------------------------------------------
// yaml.Marshal on the node data model (yaml.v3's documented encoder dispatch:
// *Node, Marshaler, then by kind; struct fields by yaml tags with omitempty /
// IsZeroer, inline structs flattened, inline map appended and checked for
// conflicts). The result is a node tree; scalar spelling and quoting are the
// library's and are not modelled (every string is a !!str scalar).

// ReaderObj is a *bytes.Reader over an abstractly held document; YDecoderObj a
// *yaml.Decoder reading from one.
type ReaderObj struct{ src Value }
type YDecoderObj struct {
	src  Value
	done bool
}

// YBytes is the engine value of a []byte holding a YAML document.
type YBytes struct{ root PtrVal }

type yamlFail struct{ msg string }

func (e *Engine) yamlMarshal(iv IfaceVal) (root PtrVal, failed bool) {
	defer func() {
		if r := recover(); r != nil {
			if _, ok := r.(yamlFail); ok {
				failed = true
				return
			}
			panic(r)
		}
	}()
	return e.toY(types.NewInterfaceType(nil, nil), iv, 0), false
}

func (e *Engine) yNull() PtrVal { return e.newYAMLNode(yScalarNode, "!!null", mkStr("null"), nil) }

func (e *Engine) yamlIsZero(t types.Type, v Value) bool {
	if m := e.findMethod(t, "IsZero"); m != nil && m.Signature.Params().Len() == 0 {
		if p, ok := v.(PtrVal); ok && p.slot == nil {
			return true
		}
		if iv, ok := v.(IfaceVal); ok && iv.typ == nil {
			return true
		}
		recv := v
		if _, isPtr := m.Signature.Recv().Type().Underlying().(*types.Pointer); !isPtr {
			if p, ok := v.(PtrVal); ok {
				recv = copyVal(*p.slot)
			}
		}
		return e.decide(e.call(m, []Value{recv}).(*Term))
	}
	switch x := v.(type) {
	case StrVal:
		return len(x.bytes) == 0 && x.atom == nil
	case IfaceVal:
		return x.typ == nil
	case PtrVal:
		return x.slot == nil
	case SliceVal:
		return x.len == 0
	case MapVal:
		return x.m == nil || len(x.m.entries) == 0
	case *Term:
		if x.isBool {
			return !e.decide(x)
		}
		return e.decide(tEq(x, mkInt(0)))
	case FloatVal:
		return x.f == 0
	case *StructVal:
		st := t.Underlying().(*types.Struct)
		for i := 0; i < st.NumFields(); i++ {
			if !st.Field(i).Exported() {
				continue
			}
			if !e.yamlIsZero(st.Field(i).Type(), x.fields[i]) {
				return false
			}
		}
		return true
	}
	return false
}

type yField struct {
	key       string
	omitEmpty bool
	path      []int // field index path (through inline structs)
}

// yamlStructInfo mirrors yaml.v3's getStructInfo.
func (e *Engine) yamlStructInfo(st *types.Struct) (fields []yField, inlineMap int) {
	inlineMap = -1
	for i := 0; i < st.NumFields(); i++ {
		f := st.Field(i)
		if !f.Exported() && !f.Embedded() {
			continue
		}
		rawTag := st.Tag(i)
		tag := reflect.StructTag(rawTag).Get("yaml")
		if tag == "" && !strings.Contains(rawTag, ":") {
			tag = rawTag
		}
		if tag == "-" {
			continue
		}
		inline, omit := false, false
		parts := strings.Split(tag, ",")
		for _, fl := range parts[1:] {
			switch fl {
			case "omitempty":
				omit = true
			case "inline":
				inline = true
			case "flow":
			default:
				unsupported("yaml tag flag %q", fl)
			}
		}
		tag = parts[0]
		if inline {
			ft := f.Type()
			switch u := ft.Underlying().(type) {
			case *types.Map:
				inlineMap = i
			default:
				for {
					p, ok := ft.Underlying().(*types.Pointer)
					if !ok {
						break
					}
					ft = p.Elem()
				}
				ist, ok := ft.Underlying().(*types.Struct)
				if !ok {
					unsupported("yaml inline on %v", u)
				}
				sub, subInline := e.yamlStructInfo(ist)
				if subInline >= 0 {
					unsupported("yaml inline map inside inline struct")
				}
				for _, sf := range sub {
					fields = append(fields, yField{key: sf.key, omitEmpty: sf.omitEmpty, path: append([]int{i}, sf.path...)})
				}
			}
			continue
		}
		key := tag
		if key == "" {
			key = strings.ToLower(f.Name())
		}
		fields = append(fields, yField{key: key, omitEmpty: omit, path: []int{i}})
	}
	return fields, inlineMap
}

func (e *Engine) toY(t types.Type, v Value, depth int) PtrVal {
	if depth > 40 {
		unsupported("yaml.Marshal nesting too deep")
	}
	nodeT := e.yamlNodeType()
	if isIfaceType(t) {
		iv := v.(IfaceVal)
		if iv.typ == nil {
			return e.yNull()
		}
		if iv.typ == e.sh.marks.fmtErr || iv.typ == e.sh.marks.opaque || iv.typ == e.sh.marks.rtype {
			unsupported("yaml.Marshal of engine-native value")
		}
		return e.toY(iv.typ, iv.val, depth+1)
	}
	if p, ok := v.(PtrVal); ok && p.slot == nil {
		if _, isPtr := t.Underlying().(*types.Pointer); isPtr {
			return e.yNull()
		}
	}
	if types.Identical(t, types.NewPointer(nodeT)) {
		return v.(PtrVal)
	}
	if m := e.findMethod(t, "MarshalYAML"); m != nil {
		recv := v
		if _, isPtr := m.Signature.Recv().Type().Underlying().(*types.Pointer); !isPtr {
			if p, ok := v.(PtrVal); ok {
				recv = copyVal(*p.slot)
			}
		}
		res := e.call(m, []Value{recv}).(TupleVal)
		if errv := res[1].(IfaceVal); errv.typ != nil {
			panic(yamlFail{"MarshalYAML returned an error"})
		}
		out := res[0].(IfaceVal)
		if out.typ == nil {
			return e.yNull()
		}
		return e.toY(out.typ, out.val, depth+1)
	}
	switch u := t.Underlying().(type) {
	case *types.Pointer:
		return e.toY(u.Elem(), *v.(PtrVal).slot, depth+1)
	case *types.Map:
		mv := v.(MapVal)
		content := []Value{}
		if mv.m != nil {
			// member order of Go-map-backed mappings is not order-significant; insertion order is kept
			for _, en := range mv.m.entries {
				content = append(content, e.toY(u.Key(), en.key, depth+1), e.toY(u.Elem(), en.val, depth+1))
			}
		}
		return e.newYAMLNode(yMappingNode, "!!map", StrVal{}, content)
	case *types.Slice:
		content := []Value{}
		for _, x := range sliceElems(v.(SliceVal)) {
			content = append(content, e.toY(u.Elem(), x, depth+1))
		}
		return e.newYAMLNode(ySequenceNode, "!!seq", StrVal{}, content)
	case *types.Struct:
		sv := v.(*StructVal)
		fields, inlineMap := e.yamlStructInfo(u)
		content := []Value{}
		keys := map[string]bool{}
		for _, f := range fields {
			keys[f.key] = true
			ft, fv, ok := e.yamlFieldByPath(t, sv, f.path)
			if !ok {
				continue
			}
			if f.omitEmpty && e.yamlIsZero(ft, fv) {
				continue
			}
			content = append(content, e.newYAMLNode(yScalarNode, "!!str", mkStr(f.key), nil), e.toY(ft, fv, depth+1))
		}
		if inlineMap >= 0 {
			mt := u.Field(inlineMap).Type().Underlying().(*types.Map)
			mv := sv.fields[inlineMap].(MapVal)
			if mv.m != nil {
				for _, en := range mv.m.entries {
					ks := en.key.(StrVal)
					for k := range keys {
						if e.decide(strEq(ks, mkStr(k))) {
							e.goPanic("yaml: cannot have key \"" + k + "\" in inlined map: conflicts with struct field")
						}
					}
					content = append(content, e.newYAMLNode(yScalarNode, "!!str", ks, nil), e.toY(mt.Elem(), en.val, depth+1))
				}
			}
		}
		return e.newYAMLNode(yMappingNode, "!!map", StrVal{}, content)
	case *types.Basic:
		switch {
		case u.Info()&types.IsString != 0:
			return e.newYAMLNode(yScalarNode, "!!str", v.(StrVal), nil)
		case u.Info()&types.IsBoolean != 0:
			if e.decide(v.(*Term)) {
				return e.newYAMLNode(yScalarNode, "!!bool", mkStr("true"), nil)
			}
			return e.newYAMLNode(yScalarNode, "!!bool", mkStr("false"), nil)
		case u.Info()&types.IsInteger != 0:
			tv := v.(*Term)
			if !tv.konst {
				unsupported("yaml.Marshal of symbolic integer")
			}
			return e.newYAMLNode(yScalarNode, "!!int", mkStr(strconv.FormatInt(tv.iv, 10)), nil)
		case u.Info()&types.IsFloat != 0:
			f := v.(FloatVal).f
			if f == float64(int64(f)) {
				// yaml.v3 prints 5.0 as "5", which re-reads as an int of the same value
				return e.newYAMLNode(yScalarNode, "!!int", mkStr(strconv.FormatInt(int64(f), 10)), nil)
			}
			return e.newYAMLNode(yScalarNode, "!!float", mkStr(strconv.FormatFloat(f, 'g', -1, 64)), nil)
		}
	}
	unsupported("yaml.Marshal of %v", t)
	return PtrVal{}
}

func (e *Engine) yamlFieldByPath(t types.Type, sv *StructVal, path []int) (types.Type, Value, bool) {
	cur := Value(sv)
	ct := t
	for _, ix := range path {
		for {
			p, isPtr := ct.Underlying().(*types.Pointer)
			if !isPtr {
				break
			}
			pv := cur.(PtrVal)
			if pv.slot == nil {
				return nil, nil, false
			}
			cur, ct = *pv.slot, p.Elem()
		}
		st := ct.Underlying().(*types.Struct)
		cur, ct = cur.(*StructVal).fields[ix], st.Field(ix).Type()
	}
	return ct, cur, true
}

// copyYAMLTree: re-parsing a document yields fresh nodes (no sharing with the
// tree that was marshalled).
func (e *Engine) copyYAMLTree(n PtrVal, depth int) PtrVal {
	if n.slot == nil || depth > 60 {
		return n
	}
	nt := e.yamlNodeType()
	src := (*n.slot).(*StructVal)
	cp := copyVal(src).(*StructVal)
	if c, ok := (*structField(nt, src, "Content")).(SliceVal); ok && c.arr != nil {
		kids := []Value{}
		for _, k := range sliceElems(c) {
			kids = append(kids, e.copyYAMLTree(k.(PtrVal), depth+1))
		}
		*structField(nt, cp, "Content") = mkSlice(kids)
	}
	slot := new(Value)
	*slot = cp
	return PtrVal{slot}
}

// yamlNativeDecode models yaml.v3 decoding a node into an empty interface:
// scalars resolve as usual, sequences become []interface{}, mappings become
// map[string]interface{} (a Go map: the engine explores its iteration orders),
// aliases are followed. Merge keys and non-string keys are outside the model.
func (e *Engine) yamlNativeDecode(nt types.Type, sv *StructVal, depth int) IfaceVal {
	if depth > 40 {
		unsupported("yaml.Node.Decode: nesting deeper than 40 (cyclic aliases?)")
	}
	anyT := types.NewInterfaceType(nil, nil)
	kind := (*structField(nt, sv, "Kind")).(*Term)
	if !kind.konst {
		unsupported("yaml.Node.Decode on a node of symbolic kind")
	}
	child := func(v Value) *StructVal {
		p, ok := v.(PtrVal)
		if !ok || p.slot == nil {
			unsupported("yaml.Node.Decode: nil child node")
		}
		return (*p.slot).(*StructVal)
	}
	content := func() []Value {
		c, _ := (*structField(nt, sv, "Content")).(SliceVal)
		return sliceElems(c)
	}
	switch kind.iv {
	case yAliasNode:
		return e.yamlNativeDecode(nt, child(*structField(nt, sv, "Alias")), depth+1)
	case 1: // document
		cs := content()
		if len(cs) != 1 {
			unsupported("yaml.Node.Decode: document node with %d children", len(cs))
		}
		return e.yamlNativeDecode(nt, child(cs[0]), depth+1)
	case yScalarNode:
		slot := new(Value)
		*slot = IfaceVal{}
		if r := e.yamlDecodeScalar(nt, sv, slot); r.typ != nil {
			unsupported("yaml.Node.Decode: a scalar inside a collection fails to decode")
		}
		iv, _ := (*slot).(IfaceVal)
		return iv
	case ySequenceNode:
		var elems []Value
		for _, c := range content() {
			elems = append(elems, e.yamlNativeDecode(nt, child(c), depth+1))
		}
		if elems == nil {
			return IfaceVal{typ: types.NewSlice(anyT), val: SliceVal{arr: &ArrayVal{}, len: 0, cap: 0}}
		}
		return IfaceVal{typ: types.NewSlice(anyT), val: mkSlice(elems)}
	case yMappingNode:
		cs := content()
		mo := &MapObj{}
		for i := 0; i+1 < len(cs); i += 2 {
			k := child(cs[i])
			if tag, _ := concreteStr(*structField(nt, k, "Tag")); tag == "!!merge" {
				unsupported("yaml.Node.Decode: merge key inside a natively decoded mapping")
			}
			kv := e.yamlNativeDecode(nt, k, depth+1)
			ks, isStr := kv.val.(StrVal)
			if kv.typ == nil || !isStr {
				unsupported("yaml.Node.Decode: non-string key inside a natively decoded mapping")
			}
			val := e.yamlNativeDecode(nt, child(cs[i+1]), depth+1)
			replaced := false
			for _, en := range mo.entries {
				if e.decide(strEq(en.key.(StrVal), ks)) {
					en.val = val
					replaced = true
					break
				}
			}
			if !replaced {
				mo.entries = append(mo.entries, &MapEntry{key: ks, val: val})
			}
		}
		return IfaceVal{typ: types.NewMap(types.Typ[types.String], anyT), val: MapVal{m: mo}}
	}
	unsupported("yaml.Node.Decode on node kind %d", kind.iv)
	return IfaceVal{}
}

// yamlDecodeScalar models (*yaml.Node).Decode of a scalar node into an empty
// interface; the result is the error the library would return (nil interface
// on success).
func (e *Engine) yamlDecodeScalar(nt types.Type, sv *StructVal, slot *Value) IfaceVal {
	tag := e.mustStr(*structField(nt, sv, "Tag"), "yaml.Node.Decode tag")
	val := (*structField(nt, sv, "Value")).(StrVal)
	if tag == "" || tag == "!" {
		// untagged scalar: yaml.v3 resolves the plain spelling (quoted styles are strings)
		style := *structField(nt, sv, "Style")
		if st, ok := style.(*Term); ok && st.konst && st.iv&(int64(yaml.SingleQuotedStyle|yaml.DoubleQuotedStyle|yaml.LiteralStyle|yaml.FoldedStyle)) != 0 {
			tag = "!!str"
		} else {
			assign(slot, e.resolvePlainScalar(val))
			return IfaceVal{}
		}
	}
	switch tag {
	case "!!str":
		assign(slot, IfaceVal{typ: types.Typ[types.String], val: val})
	case "!!null":
		assign(slot, IfaceVal{})
	case "!!bool", "!!int", "!!float":
		// the real library resolves the (concrete) spelling under its tag:
		// True/yes-style booleans, 0x/0o/0b and _-separated integers, ...
		cs := e.mustStr(val, "yaml "+tag+" value")
		var x any
		rn := yaml.Node{Kind: yaml.ScalarNode, Tag: tag, Value: cs}
		if err := rn.Decode(&x); err != nil {
			return e.newError(mkStr("yaml: " + err.Error()))
		}
		switch v := x.(type) {
		case bool:
			assign(slot, IfaceVal{typ: types.Typ[types.Bool], val: mkBool(v)})
		case int:
			assign(slot, IfaceVal{typ: types.Typ[types.Int], val: mkInt(int64(v))})
		case int64:
			assign(slot, IfaceVal{typ: types.Typ[types.Int64], val: mkInt(v)})
		case uint64:
			if v <= math.MaxInt64 {
				assign(slot, IfaceVal{typ: types.Typ[types.Uint64], val: mkInt(int64(v))})
			} else {
				assign(slot, IfaceVal{typ: types.Typ[types.Uint64], val: U64Val{v}})
			}
		case float64:
			assign(slot, IfaceVal{typ: types.Typ[types.Float64], val: FloatVal{v}})
		case string:
			assign(slot, IfaceVal{typ: types.Typ[types.String], val: mkStr(v)})
		case nil:
			assign(slot, IfaceVal{})
		default:
			unsupported("yaml %s value %q decodes to %T", tag, cs, x)
		}
	default:
		unsupported("yaml.Node.Decode with tag %s", tag)
	}
	return IfaceVal{}
}

// sentinelError returns the value of a library's sentinel error variable
// ("io.EOF"), the same object the code under test compares against.
func (e *Engine) sentinelError(name string) Value {
	pkgPath, member, _ := strings.Cut(name, ".")
	for _, p := range e.sh.prog.AllPackages() {
		if p.Pkg.Path() == pkgPath {
			if g, ok := p.Members[member].(*ssa.Global); ok {
				return *e.globalSlot(g)
			}
		}
	}
	return e.newError(mkStr(name))
}
