package main

import (
	"flag"
	"fmt"
	"os"
	"runtime"
	"runtime/debug"
	"runtime/pprof"
	"sort"
	"strconv"
	"strings"
)

func main() {
	prop := flag.String("property", "", "property id (C01..C19)")
	tier := flag.String("tier", envOr("VERIF_TIER", "quick"), "quick or thorough")
	workers := flag.Int("workers", runtime.NumCPU(), "parallel workers")
	solver := flag.String("solver", "z3-new", "primary solver: z3-new, z3, cvc5")
	only := flag.String("harness", "", "run only this harness (debugging)")
	replay := flag.String("replay", "", "replay a counterexample file natively")
	list := flag.Bool("list", false, "list properties and harnesses")
	cpuprof := flag.String("cpuprofile", "", "write a CPU profile")
	flag.Parse()
	debug.SetGCPercent(400)
	if *cpuprof != "" {
		f, _ := os.Create(*cpuprof)
		pprof.StartCPUProfile(f)
		defer pprof.StopCPUProfile()
	}
	seed, _ := strconv.Atoi(envOr("VERIF_SEED", "0"))
	reg := registry()
	if *list {
		ids := []string{}
		for id := range reg {
			ids = append(ids, id)
		}
		sort.Strings(ids)
		for _, id := range ids {
			fmt.Println(id)
			for _, h := range reg[id].Harnesses {
				fmt.Printf("   %-24s %s\n", h.Name, h.What)
			}
		}
		return
	}
	if *replay != "" {
		os.Exit(doReplay(*replay))
	}
	spec, ok := reg[*prop]
	if !ok {
		fmt.Fprintf(os.Stderr, "unknown property %q\n", *prop)
		os.Exit(2)
	}
	if *tier != "quick" && *tier != "thorough" {
		*tier = "quick"
	}
	if *only != "" {
		var hs []HSpec
		for _, h := range spec.Harnesses {
			if strings.Contains(h.Name, *only) {
				hs = append(hs, h)
			}
		}
		spec.Harnesses = hs
		spec.Extra = nil
	}
	currentTier = *tier
	run := runProperty(spec, *tier, seed, *workers, *solver)
	code := finish(run)
	pprof.StopCPUProfile()
	os.Exit(code)
}

func doReplay(path string) int {
	b, err := os.ReadFile(path)
	if err != nil {
		fmt.Fprintln(os.Stderr, err)
		return 2
	}
	var rf ReplayFile
	if err := jsonUnmarshal(b, &rf); err != nil || rf.Harness == "" {
		fmt.Printf("%s is not a harness replay file (static obligation?):\n%s\n", path, b)
		return 0
	}
	out, log, err := nativeReplay(rf.Pkg, []string{path})
	if err != nil {
		fmt.Println(log)
		fmt.Fprintln(os.Stderr, err)
		return 2
	}
	oc := out[path]
	fmt.Printf("native outcome: %s\n", oc)
	if strings.HasPrefix(oc, "fail:") || strings.HasPrefix(oc, "panic:") {
		fmt.Printf("VIOLATION property=%s replay=%s\n", rf.Property, path)
		return 1
	}
	return 0
}
