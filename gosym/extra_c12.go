package main

import (
	"fmt"
	"go/constant"
	"os/exec"
	"regexp/syntax"
	"strings"
	"time"

	"golang.org/x/tools/go/ssa"
)

// The property's token language (ASCII): {{ ws* matrix ( . [A-Za-z0-9_.-]+ )? ws* }}
const c12SpecPattern = `\{\{[\t\n\f\r ]*matrix(\.[A-Za-z0-9_.\-]+)?[\t\n\f\r ]*\}\}`

// findRegexpPatterns returns the constant patterns passed to
// regexp.MustCompile in the package initialiser of the root package.
func findRegexpPatterns(pkg *ssa.Package) map[string]string {
	out := map[string]string{}
	init := pkg.Func("init")
	if init == nil {
		return out
	}
	for _, b := range init.Blocks {
		var last string
		var lastVal ssa.Value
		for _, in := range b.Instrs {
			switch in := in.(type) {
			case *ssa.Call:
				if f, ok := in.Call.Value.(*ssa.Function); ok && f.String() == "regexp.MustCompile" && len(in.Call.Args) == 1 {
					if c, ok := in.Call.Args[0].(*ssa.Const); ok && c.Value != nil && c.Value.Kind() == constant.String {
						last, lastVal = constant.StringVal(c.Value), in
					}
				}
			case *ssa.Store:
				if g, ok := in.Addr.(*ssa.Global); ok && in.Val == lastVal && lastVal != nil {
					out[g.Name()] = last
				}
			}
		}
	}
	return out
}

// reToSMT translates a regexp/syntax tree to an SMT-LIB RegLan term (ASCII).
func reToSMT(re *syntax.Regexp) (string, error) {
	lit := func(r rune) string {
		if r < 32 || r > 126 || r == '"' || r == '\\' {
			return fmt.Sprintf("(str.to_re \"\\u{%x}\")", r)
		}
		return fmt.Sprintf("(str.to_re \"%c\")", r)
	}
	chr := func(r rune) string {
		if r < 32 || r > 126 || r == '"' || r == '\\' {
			return fmt.Sprintf("\"\\u{%x}\"", r)
		}
		return fmt.Sprintf("\"%c\"", r)
	}
	switch re.Op {
	case syntax.OpEmptyMatch:
		return `(str.to_re "")`, nil
	case syntax.OpLiteral:
		parts := []string{}
		for _, r := range re.Rune {
			parts = append(parts, lit(r))
		}
		if len(parts) == 1 {
			return parts[0], nil
		}
		return "(re.++ " + strings.Join(parts, " ") + ")", nil
	case syntax.OpCharClass:
		parts := []string{}
		for i := 0; i+1 < len(re.Rune); i += 2 {
			lo, hi := re.Rune[i], re.Rune[i+1]
			if lo > 127 {
				continue
			}
			if hi > 127 {
				hi = 127
			}
			if lo == hi {
				parts = append(parts, lit(lo))
			} else {
				parts = append(parts, fmt.Sprintf("(re.range %s %s)", chr(lo), chr(hi)))
			}
		}
		if len(parts) == 0 {
			return "re.none", nil
		}
		if len(parts) == 1 {
			return parts[0], nil
		}
		return "(re.union " + strings.Join(parts, " ") + ")", nil
	case syntax.OpAnyChar, syntax.OpAnyCharNotNL:
		return "", fmt.Errorf("any-char not supported in token-language translation")
	case syntax.OpCapture:
		return reToSMT(re.Sub[0])
	case syntax.OpStar, syntax.OpPlus, syntax.OpQuest:
		s, err := reToSMT(re.Sub[0])
		if err != nil {
			return "", err
		}
		op := map[syntax.Op]string{syntax.OpStar: "re.*", syntax.OpPlus: "re.+", syntax.OpQuest: "re.opt"}[re.Op]
		return "(" + op + " " + s + ")", nil
	case syntax.OpConcat, syntax.OpAlternate:
		parts := []string{}
		for _, sub := range re.Sub {
			s, err := reToSMT(sub)
			if err != nil {
				return "", err
			}
			parts = append(parts, s)
		}
		op := "re.++"
		if re.Op == syntax.OpAlternate {
			op = "re.union"
		}
		return "(" + op + " " + strings.Join(parts, " ") + ")", nil
	}
	return "", fmt.Errorf("regexp op %v not supported in token-language translation", re.Op)
}

func runSMT(bin string, args []string, script string, timeout time.Duration) (string, float64) {
	t0 := time.Now()
	cmd := exec.Command("timeout", append([]string{fmt.Sprint(int(timeout.Seconds())), bin}, args...)...)
	cmd.Stdin = strings.NewReader(script)
	out, _ := cmd.CombinedOutput()
	return strings.TrimSpace(string(out)), time.Since(t0).Seconds()
}

// extraC12: unbounded token-language equivalence, one RegLan query per solver.
func extraC12(run *PropRun) {
	x := ExtraResult{Name: "token-language-equivalence", Obligations: 1}
	defer func() { run.Extra = append(run.Extra, x) }()
	ld, err := loadPackage(".")
	if err != nil {
		x.Inconclusive = append(x.Inconclusive, "token-language equivalence: cannot load root package: "+err.Error())
		return
	}
	pats := findRegexpPatterns(ld.pkg)
	pat, ok := pats["matrixTokenRE"]
	if !ok {
		if len(pats) == 1 {
			for _, p := range pats {
				pat = p
			}
		} else {
			x.Inconclusive = append(x.Inconclusive, fmt.Sprintf("token-language equivalence: no unique regexp.MustCompile constant found in the package initialiser (%d found)", len(pats)))
			return
		}
	}
	codeRe, err := syntax.Parse(pat, syntax.Perl)
	if err != nil {
		x.Inconclusive = append(x.Inconclusive, "token-language equivalence: pattern does not parse: "+err.Error())
		return
	}
	specRe, _ := syntax.Parse(c12SpecPattern, syntax.Perl)
	cs, err1 := reToSMT(codeRe.Simplify())
	ss, err2 := reToSMT(specRe.Simplify())
	if err1 != nil || err2 != nil {
		x.Inconclusive = append(x.Inconclusive, fmt.Sprintf("token-language equivalence: translation failed: %v %v", err1, err2))
		return
	}
	script := fmt.Sprintf("(declare-const s String)\n(assert (str.in_re s (re.* (re.range \"\\u{0}\" \"\\u{7f}\"))))\n(assert (xor (str.in_re s %s) (str.in_re s %s)))\n(check-sat)\n(get-value (s))\n", cs, ss)
	x.Detail = append(x.Detail, "code pattern: "+pat, "spec pattern: "+c12SpecPattern)
	r1, t1 := runSMT("z3-new", []string{"-in"}, script, 60*time.Second)
	x.SolverS = t1
	first := strings.SplitN(r1, "\n", 2)[0]
	x.Detail = append(x.Detail, fmt.Sprintf("z3 5.1.0: %s (%.2fs)", first, t1))
	switch first {
	case "unsat":
		r2, t2 := runSMT("cvc5", []string{"--lang", "smt2", "--strings-exp", "--produce-models"}, "(set-logic QF_SLIA)\n"+script, 60*time.Second)
		f2 := strings.SplitN(r2, "\n", 2)[0]
		x.Detail = append(x.Detail, fmt.Sprintf("cvc5: %s (%.2fs)", f2, t2))
		x.SolverS += t2
		if f2 == "sat" {
			x.Inconclusive = append(x.Inconclusive, "token-language equivalence: solvers disagree (z3 unsat, cvc5 sat)")
			return
		}
		x.Discharged = 1
	case "sat":
		// witness: replayed through the bounded harness by the caller
		w := r1
		if i := strings.Index(r1, "((s "); i >= 0 {
			w = strings.TrimSuffix(strings.TrimSpace(r1[i+4:]), "))")
		}
		x.Detail = append(x.Detail, "witness: "+w)
		x.Witness = smtUnquote(w)
		x.WitnessHarness, x.WitnessPkg = "c12_witness", "."
	default:
		x.Inconclusive = append(x.Inconclusive, "token-language equivalence: solver answered "+first)
	}
}

func smtUnquote(s string) string {
	s = strings.TrimSpace(s)
	if len(s) >= 2 && s[0] == '"' && s[len(s)-1] == '"' {
		s = s[1 : len(s)-1]
	}
	s = strings.ReplaceAll(s, `""`, `"`)
	var out []byte
	for i := 0; i < len(s); i++ {
		if strings.HasPrefix(s[i:], `\u{`) {
			j := strings.IndexByte(s[i:], '}')
			if j > 0 {
				var v int
				fmt.Sscanf(s[i+3:i+j], "%x", &v)
				out = append(out, byte(v))
				i += j
				continue
			}
		}
		out = append(out, s[i])
	}
	return string(out)
}
