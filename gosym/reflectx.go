package main

import (
	"go/types"
	"reflect"

	"golang.org/x/tools/go/ssa"
)

// RVal models reflect.Value over the engine's typed heap.
type RVal struct {
	typ  types.Type // nil => invalid (zero Value)
	slot *Value     // addressable location, or nil
	val  Value      // value when not addressable
}

func (r RVal) load() Value {
	if r.slot != nil {
		return *r.slot
	}
	return r.val
}

// RType models reflect.Type (dynamic value inside a reflect.Type interface).
type RType struct{ t types.Type }

func kindOf(t types.Type) reflect.Kind {
	switch u := t.Underlying().(type) {
	case *types.Basic:
		switch u.Kind() {
		case types.Bool:
			return reflect.Bool
		case types.Int:
			return reflect.Int
		case types.Int8:
			return reflect.Int8
		case types.Int16:
			return reflect.Int16
		case types.Int32:
			return reflect.Int32
		case types.Int64:
			return reflect.Int64
		case types.Uint:
			return reflect.Uint
		case types.Uint8:
			return reflect.Uint8
		case types.Uint16:
			return reflect.Uint16
		case types.Uint32:
			return reflect.Uint32
		case types.Uint64:
			return reflect.Uint64
		case types.Uintptr:
			return reflect.Uintptr
		case types.Float32:
			return reflect.Float32
		case types.Float64:
			return reflect.Float64
		case types.String:
			return reflect.String
		}
	case *types.Pointer:
		return reflect.Pointer
	case *types.Struct:
		return reflect.Struct
	case *types.Map:
		return reflect.Map
	case *types.Slice:
		return reflect.Slice
	case *types.Interface:
		return reflect.Interface
	case *types.Array:
		return reflect.Array
	case *types.Signature:
		return reflect.Func
	}
	unsupported("kindOf %v", t)
	return 0
}

func (e *Engine) rtypeIface(t types.Type) Value {
	return IfaceVal{typ: e.sh.marks.rtype, val: RType{t}}
}

func isIfaceType(t types.Type) bool {
	_, ok := t.Underlying().(*types.Interface)
	return ok
}

// boxFor converts the value held by x into what a location of type dstT holds.
func boxFor(dstT types.Type, x RVal) Value {
	v := x.load()
	if isIfaceType(dstT) && !isIfaceType(x.typ) {
		return IfaceVal{typ: x.typ, val: copyVal(v)}
	}
	return v
}

func argRType(v Value) types.Type {
	return v.(IfaceVal).val.(RType).t
}

// reflectIntrinsic handles reflect.* over the engine heap.
func (e *Engine) reflectIntrinsic(fn *ssa.Function, full string, args []Value) (Value, bool) {
	switch full {
	case "reflect.ValueOf":
		iv := args[0].(IfaceVal)
		if iv.typ == nil {
			return RVal{}, true
		}
		return RVal{typ: iv.typ, val: iv.val}, true
	case "reflect.TypeOf":
		iv := args[0].(IfaceVal)
		if iv.typ == nil {
			return IfaceVal{}, true
		}
		return e.rtypeIface(iv.typ), true
	case "(reflect.Value).IsValid":
		return mkBool(args[0].(RVal).typ != nil), true
	case "(reflect.Value).Kind":
		r := args[0].(RVal)
		if r.typ == nil {
			return mkInt(int64(reflect.Invalid)), true
		}
		return mkInt(int64(kindOf(r.typ))), true
	case "(reflect.Value).IsNil":
		r := args[0].(RVal)
		switch v := r.load().(type) {
		case PtrVal:
			return mkBool(v.slot == nil), true
		case MapVal:
			return mkBool(v.m == nil), true
		case SliceVal:
			return mkBool(v.arr == nil), true
		case IfaceVal:
			return mkBool(v.typ == nil), true
		case FuncVal:
			return mkBool(v.fn == nil && v.native == nil), true
		}
		e.goPanic("reflect: call of reflect.Value.IsNil on non-nillable value")
	case "(reflect.Value).IsZero":
		r := args[0].(RVal)
		return e.eq(r.load(), zero(r.typ)), true
	case "(reflect.Value).Elem":
		r := args[0].(RVal)
		switch v := r.load().(type) {
		case PtrVal:
			if v.slot == nil {
				return RVal{}, true
			}
			return RVal{typ: r.typ.Underlying().(*types.Pointer).Elem(), slot: v.slot}, true
		case IfaceVal:
			if v.typ == nil {
				return RVal{}, true
			}
			return RVal{typ: v.typ, val: v.val}, true
		}
		e.goPanic("reflect: call of reflect.Value.Elem on non-pointer value")
	case "reflect.Indirect":
		r := args[0].(RVal)
		if v, ok := r.load().(PtrVal); ok && r.typ != nil {
			if _, isPtr := r.typ.Underlying().(*types.Pointer); isPtr {
				if v.slot == nil {
					return RVal{}, true
				}
				return RVal{typ: r.typ.Underlying().(*types.Pointer).Elem(), slot: v.slot}, true
			}
		}
		return r, true
	case "(reflect.Value).Type":
		r := args[0].(RVal)
		if r.typ == nil {
			e.goPanic("reflect: call of reflect.Value.Type on zero Value")
		}
		return e.rtypeIface(r.typ), true
	case "(reflect.Value).CanSet", "(reflect.Value).CanAddr":
		return mkBool(args[0].(RVal).slot != nil), true
	case "(reflect.Value).SetZero":
		r := args[0].(RVal)
		if r.slot == nil {
			e.goPanic("reflect: reflect.Value.SetZero using unaddressable value")
		}
		assign(r.slot, zero(r.typ))
		return nil, true
	case "(reflect.Value).Set":
		r, x := args[0].(RVal), args[1].(RVal)
		if r.slot == nil {
			e.goPanic("reflect: reflect.Value.Set using unaddressable value")
		}
		if x.typ == nil {
			e.goPanic("reflect: call of reflect.Value.Set on zero Value")
		}
		if !isIfaceType(r.typ) && !types.Identical(r.typ, x.typ) && !types.AssignableTo(x.typ, r.typ) {
			e.goPanic("reflect.Set: value of type " + x.typ.String() + " is not assignable to type " + r.typ.String())
		}
		assign(r.slot, boxFor(r.typ, x))
		return nil, true
	case "(reflect.Value).Addr":
		r := args[0].(RVal)
		if r.slot == nil {
			e.goPanic("reflect.Value.Addr of unaddressable value")
		}
		return RVal{typ: types.NewPointer(r.typ), val: PtrVal{r.slot}}, true
	case "(reflect.Value).Interface":
		r := args[0].(RVal)
		if r.typ == nil {
			e.goPanic("reflect: call of reflect.Value.Interface on zero Value")
		}
		v := copyVal(r.load())
		if isIfaceType(r.typ) {
			return v, true
		}
		return IfaceVal{typ: r.typ, val: v}, true
	case "(reflect.Value).FieldByIndex":
		r := args[0].(RVal)
		cur := r
		for _, ix := range sliceElems(args[1].(SliceVal)) {
			k := int(ix.(*Term).iv)
			st := cur.typ.Underlying().(*types.Struct)
			if cur.slot != nil {
				sv := (*cur.slot).(*StructVal)
				cur = RVal{typ: st.Field(k).Type(), slot: &sv.fields[k]}
			} else {
				sv := cur.val.(*StructVal)
				cur = RVal{typ: st.Field(k).Type(), val: sv.fields[k]}
			}
		}
		return cur, true
	case "(reflect.Value).Field":
		r := args[0].(RVal)
		k := int(args[1].(*Term).iv)
		st := r.typ.Underlying().(*types.Struct)
		if r.slot != nil {
			sv := (*r.slot).(*StructVal)
			return RVal{typ: st.Field(k).Type(), slot: &sv.fields[k]}, true
		}
		return RVal{typ: st.Field(k).Type(), val: r.val.(*StructVal).fields[k]}, true
	case "(reflect.Value).NumField":
		return mkInt(int64(args[0].(RVal).typ.Underlying().(*types.Struct).NumFields())), true
	case "reflect.New":
		t := argRType(args[0])
		slot := new(Value)
		*slot = zero(t)
		return RVal{typ: types.NewPointer(t), val: PtrVal{slot}}, true
	case "reflect.Zero":
		t := argRType(args[0])
		return RVal{typ: t, val: zero(t)}, true
	case "reflect.MakeSlice":
		t := argRType(args[0])
		n := int(args[1].(*Term).iv)
		c := int(args[2].(*Term).iv)
		et := t.Underlying().(*types.Slice).Elem()
		av := &ArrayVal{elems: make([]Value, c)}
		for i := range av.elems {
			av.elems[i] = zero(et)
		}
		return RVal{typ: t, val: SliceVal{arr: av, len: n, cap: c}}, true
	case "reflect.Append":
		r := args[0].(RVal)
		s := r.load().(SliceVal)
		et := r.typ.Underlying().(*types.Slice).Elem()
		for _, xv := range sliceElems(args[1].(SliceVal)) {
			x := xv.(RVal)
			v := copyVal(boxFor(et, x))
			if s.arr != nil && s.len < s.cap {
				assign(&s.arr.elems[s.off+s.len], v)
				s.len++
				continue
			}
			nc := 2*s.cap + 1
			av := &ArrayVal{elems: make([]Value, nc)}
			for j := range av.elems {
				if j < s.len {
					av.elems[j] = s.arr.elems[s.off+j]
				} else {
					av.elems[j] = zero(et)
				}
			}
			av.elems[s.len] = v
			s = SliceVal{arr: av, len: s.len + 1, cap: nc}
		}
		return RVal{typ: r.typ, val: s}, true
	case "reflect.MakeMapWithSize", "reflect.MakeMap":
		t := argRType(args[0])
		return RVal{typ: t, val: MapVal{&MapObj{}}}, true
	case "(reflect.Value).SetMapIndex":
		r, k, v := args[0].(RVal), args[1].(RVal), args[2].(RVal)
		m := r.load().(MapVal)
		if m.m == nil {
			e.goPanic("assignment to entry in nil map (reflect.Value.SetMapIndex)")
		}
		mt := r.typ.Underlying().(*types.Map)
		e.mapSet(m.m, boxFor(mt.Key(), k), boxFor(mt.Elem(), v))
		return nil, true
	case "reflect.VisibleFields":
		t := argRType(args[0])
		st := t.Underlying().(*types.Struct)
		sfType := fn.Signature.Results().At(0).Type().Underlying().(*types.Slice).Elem()
		var elems []Value
		for i := 0; i < st.NumFields(); i++ {
			if st.Field(i).Embedded() {
				unsupported("embedded field in reflect.VisibleFields")
			}
			elems = append(elems, e.mkStructField(sfType, st, i))
		}
		return mkSlice(elems), true
	case "(reflect.StructField).IsExported":
		sf := args[0].(*StructVal)
		st := fn.Signature.Recv().Type().Underlying().(*types.Struct)
		for j := 0; j < st.NumFields(); j++ {
			if st.Field(j).Name() == "PkgPath" {
				return mkBool(len(sf.fields[j].(StrVal).bytes) == 0), true
			}
		}
		unsupported("StructField without PkgPath")
	case "(reflect.StructTag).Lookup":
		tag := e.mustStr(args[0], "StructTag.Lookup")
		key := e.mustStr(args[1], "StructTag.Lookup")
		v, ok := reflect.StructTag(tag).Lookup(key)
		return TupleVal{mkStr(v), mkBool(ok)}, true
	case "(reflect.StructTag).Get":
		tag := e.mustStr(args[0], "StructTag.Get")
		key := e.mustStr(args[1], "StructTag.Get")
		return mkStr(reflect.StructTag(tag).Get(key)), true
	case "(reflect.Value).Cap":
		r := args[0].(RVal)
		if v, ok := r.load().(SliceVal); ok {
			return mkInt(int64(v.cap)), true
		}
		e.goPanic("reflect: call of reflect.Value.Cap on unsupported value")
	case "(reflect.Value).Grow":
		r := args[0].(RVal)
		n := int(e.mustInt(args[1], "reflect.Value.Grow"))
		sv, ok := r.load().(SliceVal)
		if !ok || r.slot == nil || n < 0 {
			e.goPanic("reflect.Value.Grow of an unaddressable or non-slice value, or negative n")
		}
		if sv.len+n > sv.cap {
			et := r.typ.Underlying().(*types.Slice).Elem()
			nc := sv.len + n
			av := &ArrayVal{elems: make([]Value, nc)}
			for j := range av.elems {
				if j < sv.len {
					av.elems[j] = sv.arr.elems[sv.off+j]
				} else {
					av.elems[j] = zero(et)
				}
			}
			assign(r.slot, SliceVal{arr: av, len: sv.len, cap: nc})
		}
		return nil, true
	case "(reflect.Value).SetLen":
		r := args[0].(RVal)
		n := int(e.mustInt(args[1], "reflect.Value.SetLen"))
		sv, ok := r.load().(SliceVal)
		if !ok || r.slot == nil {
			e.goPanic("reflect.Value.SetLen of an unaddressable or non-slice value")
		}
		if n < 0 || n > sv.cap {
			e.goPanic("reflect: slice length out of range in SetLen")
		}
		sv.len = n
		assign(r.slot, sv)
		return nil, true
	case "(reflect.Value).Index":
		r := args[0].(RVal)
		i := int(e.mustInt(args[1], "reflect.Value.Index"))
		switch v := r.load().(type) {
		case SliceVal:
			if i < 0 || i >= v.len {
				e.goPanic("reflect: slice index out of range")
			}
			return RVal{typ: r.typ.Underlying().(*types.Slice).Elem(), slot: &v.arr.elems[v.off+i]}, true
		}
		unsupported("reflect.Value.Index on %T", r.load())
	case "(reflect.Value).Len":
		r := args[0].(RVal)
		switch v := r.load().(type) {
		case SliceVal:
			return mkInt(int64(v.len)), true
		case StrVal:
			return mkInt(int64(len(v.bytes))), true
		case MapVal:
			if v.m == nil {
				return mkInt(0), true
			}
			return mkInt(int64(len(v.m.entries))), true
		case *ArrayVal:
			return mkInt(int64(len(v.elems))), true
		}
		e.goPanic("reflect: call of reflect.Value.Len on unsupported value")
	case "(reflect.Value).Bool", "(reflect.Value).Int", "(reflect.Value).Uint", "(reflect.Value).Float", "(reflect.Value).String":
		r := args[0].(RVal)
		if r.typ == nil {
			if fn.Name() == "String" {
				return mkStr("<invalid Value>"), true
			}
			e.goPanic("reflect: call of reflect.Value." + fn.Name() + " on zero Value")
		}
		k := kindOf(r.typ)
		okKind := false
		switch fn.Name() {
		case "Bool":
			okKind = k == reflect.Bool
		case "Int":
			okKind = k >= reflect.Int && k <= reflect.Int64
		case "Uint":
			okKind = k >= reflect.Uint && k <= reflect.Uintptr
		case "Float":
			okKind = k == reflect.Float32 || k == reflect.Float64
		case "String":
			if k != reflect.String {
				unsupported("reflect.Value.String of a non-string value")
			}
			okKind = true
		}
		if !okKind {
			e.goPanic("reflect: call of reflect.Value." + fn.Name() + " on " + k.String() + " Value")
		}
		return r.load(), true
	case "(reflect.Kind).String":
		k := args[0].(*Term)
		if k.konst {
			return mkStr(reflect.Kind(k.iv).String()), true
		}
	}
	return nil, false
}

// mkStructField builds the reflect.StructField describing field i of st.
func (e *Engine) mkStructField(sfType types.Type, st *types.Struct, i int) *StructVal {
	sfStruct := sfType.Underlying().(*types.Struct)
	f := st.Field(i)
	sf := zero(sfType).(*StructVal)
	for j := 0; j < sfStruct.NumFields(); j++ {
		switch sfStruct.Field(j).Name() {
		case "Name":
			sf.fields[j] = mkStr(f.Name())
		case "PkgPath":
			if !f.Exported() {
				sf.fields[j] = mkStr(f.Pkg().Path())
			}
		case "Type":
			sf.fields[j] = e.rtypeIface(f.Type())
		case "Tag":
			sf.fields[j] = mkStr(st.Tag(i))
		case "Index":
			sf.fields[j] = mkSlice([]Value{mkInt(int64(i))})
		case "Anonymous":
			sf.fields[j] = mkBool(f.Embedded())
		}
	}
	return sf
}

// rtypeMethod handles invoke on reflect.Type values.
func (e *Engine) rtypeMethod(rt RType, name string, args []Value) Value {
	switch name {
	case "Kind":
		return mkInt(int64(kindOf(rt.t)))
	case "Elem":
		switch u := rt.t.Underlying().(type) {
		case *types.Pointer:
			return e.rtypeIface(u.Elem())
		case *types.Slice:
			return e.rtypeIface(u.Elem())
		case *types.Map:
			return e.rtypeIface(u.Elem())
		case *types.Array:
			return e.rtypeIface(u.Elem())
		}
		e.goPanic("reflect: Elem of invalid type " + rt.t.String())
	case "Key":
		return e.rtypeIface(rt.t.Underlying().(*types.Map).Key())
	case "String", "Name":
		return mkStr(rt.t.String())
	case "NumField":
		return mkInt(int64(rt.t.Underlying().(*types.Struct).NumFields()))
	case "Field":
		st, ok := rt.t.Underlying().(*types.Struct)
		if !ok {
			e.goPanic("reflect: Field of non-struct type " + rt.t.String())
		}
		i := e.concretize(args[0].(*Term), 0, st.NumFields())
		if i < 0 || i >= st.NumFields() {
			e.goPanic("reflect: Field index out of bounds")
		}
		return e.mkStructField(e.libNamed("reflect", "StructField"), st, i)
	}
	unsupported("reflect.Type.%s", name)
	return nil
}

// mustInt: a concrete integer operand (sizes and indices in the reflective
// paths are concrete on every path).
func (e *Engine) mustInt(v Value, what string) int64 {
	t, ok := v.(*Term)
	if !ok || !t.konst {
		unsupported("%s with a symbolic operand", what)
	}
	return t.iv
}
