package main

import (
	"unicode/utf8"
	"fmt"
	"go/constant"
	"go/token"
	"go/types"
	"strings"
	"unicode"

	"golang.org/x/tools/go/ssa"
)

const hardLoopCap = 20000

func (e *Engine) exec(fr *Frame) Value {
	var prev *ssa.BasicBlock
	b := fr.fn.Blocks[0]
	symArrive := false // the branch that led to this block had a symbolic condition
	for {
		// The unwind bound limits iterations that depend on symbolic data; loops
		// whose every branch condition is concrete (table initialisation, walks
		// over concrete-length containers) only have the hard cap.
		fr.visits[b]++
		if symArrive {
			fr.symVisits[b]++
		}
		if fr.symVisits[b] > e.sh.unwind || fr.visits[b] > hardLoopCap {
			panic(pathEnd{"unwind", fmt.Sprintf("%s block %d exceeded unwind %d", fr.fn.String(), b.Index, e.sh.unwind)})
		}
		symArrive = false
		// phis first (parallel assignment)
		nphi := 0
		var phiVals []Value
		for _, in := range b.Instrs {
			phi, ok := in.(*ssa.Phi)
			if !ok {
				break
			}
			idx := -1
			for i, p := range b.Preds {
				if p == prev {
					idx = i
				}
			}
			phiVals = append(phiVals, e.get(fr, phi.Edges[idx]))
			nphi++
		}
		for i := 0; i < nphi; i++ {
			fr.env[b.Instrs[i].(*ssa.Phi)] = phiVals[i]
		}
		var next *ssa.BasicBlock
		for _, in := range b.Instrs[nphi:] {
			switch in := in.(type) {
			case *ssa.If:
				c := e.get(fr, in.Cond).(*Term)
				symArrive = !c.konst
				if e.decide(c) {
					next = b.Succs[0]
				} else {
					next = b.Succs[1]
				}
			case *ssa.Jump:
				next = b.Succs[0]
			case *ssa.Return:
				e.runDefers(fr)
				switch len(in.Results) {
				case 0:
					return nil
				case 1:
					return e.get(fr, in.Results[0])
				default:
					tv := make(TupleVal, len(in.Results))
					for i, r := range in.Results {
						tv[i] = e.get(fr, r)
					}
					return tv
				}
			case *ssa.Panic:
				msg := "explicit panic"
				if iv, ok := e.get(fr, in.X).(IfaceVal); ok {
					if s, ok := concreteStr(iv.val); ok {
						msg += ": " + s
					}
				}
				e.goPanic(msg + " in " + fr.fn.String())
			case *ssa.RunDefers:
				e.runDefers(fr)
			default:
				e.step(fr, in)
			}
		}
		if next == nil {
			unsupported("block without terminator in %s", fr.fn.String())
		}
		prev, b = b, next
	}
}

func (e *Engine) runDefers(fr *Frame) {
	for len(fr.defers) > 0 {
		d := fr.defers[len(fr.defers)-1]
		fr.defers = fr.defers[:len(fr.defers)-1]
		d()
	}
}

func (e *Engine) globalSlot(g *ssa.Global) *Value {
	if s, ok := e.globals[g]; ok {
		return s
	}
	if g.Pkg == nil || !strings.HasPrefix(g.Pkg.Pkg.Path(), e.sh.modPath) {
		// library initialisers are not executed; a few kinds of library globals
		// have an obvious initial value
		elem := g.Type().Underlying().(*types.Pointer).Elem()
		s := new(Value)
		switch {
		case types.Identical(elem, types.Universe.Lookup("error").Type()):
			// sentinel errors (io.EOF, strconv.ErrSyntax, ...): one distinct error each
			*s = e.newError(mkStr(g.String()))
		case strings.HasPrefix(g.String(), "encoding/base64.") && strings.HasSuffix(g.String(), "Encoding"):
			// the standard encodings: an object that knows its name (its methods are intrinsics)
			enc := new(Value)
			*enc = mkStr(g.String())
			*s = PtrVal{enc}
		case g.String() == "crypto/rand.Reader":
			// the system's random source: an opaque reader (whoever reads from it is modelled)
			*s = IfaceVal{typ: e.sh.marks.opaque, val: PtrVal{new(Value)}}
		case g.String() == "unicode.properties":
			// the Latin-1 property table, rebuilt from the exported predicates
			av := zero(elem).(*ArrayVal)
			for c := 0; c < len(av.elems); c++ {
				r := rune(c)
				var p int64
				if unicode.IsControl(r) {
					p |= 1
				}
				if unicode.IsPunct(r) {
					p |= 2
				}
				if unicode.IsNumber(r) {
					p |= 4
				}
				if unicode.IsSymbol(r) {
					p |= 8
				}
				if unicode.Is(unicode.Z, r) {
					p |= 16
				}
				switch {
				case unicode.IsUpper(r):
					p |= 32
				case unicode.IsLower(r):
					p |= 64
				case unicode.IsLetter(r):
					p |= 32 | 64
				}
				if unicode.IsPrint(r) {
					p |= 128
				}
				av.elems[c] = mkInt(p)
			}
			*s = av
		case g.String() == "strings.asciiSpace" || g.String() == "bytes.asciiSpace":
			av := zero(elem).(*ArrayVal)
			for _, c := range []int{'\t', '\n', '\v', '\f', '\r', ' '} {
				av.elems[c] = mkInt(1)
			}
			*s = av
		default:
			unsupported("global of library package: %s", g.String())
		}
		e.globals[g] = s
		return s
	}
	s := new(Value)
	*s = zero(g.Type().Underlying().(*types.Pointer).Elem())
	e.globals[g] = s
	return s
}

func (e *Engine) get(fr *Frame, v ssa.Value) Value {
	switch v := v.(type) {
	case *ssa.Const:
		return e.constVal(v)
	case *ssa.Function:
		return FuncVal{fn: v}
	case *ssa.Global:
		return PtrVal{e.globalSlot(v)}
	case *ssa.Builtin:
		unsupported("builtin %s used as value", v.Name())
	}
	r, ok := fr.env[v]
	if !ok {
		unsupported("no value for %s (%T) in %s", v.Name(), v, fr.fn)
	}
	return r
}

func (e *Engine) constVal(c *ssa.Const) Value {
	if c.Value == nil {
		return zero(c.Type())
	}
	switch c.Value.Kind() {
	case constant.Bool:
		return mkBool(constant.BoolVal(c.Value))
	case constant.Int:
		if b, ok := c.Type().Underlying().(*types.Basic); ok && b.Info()&types.IsFloat != 0 {
			f, _ := constant.Float64Val(c.Value)
			return FloatVal{f}
		}
		i, exact := constant.Int64Val(c.Value)
		if !exact {
			// e.g. math.MaxUint64: the engine's integers are int64; computing on
			// with a truncated value would silently go wrong
			unsupported("integer constant %s is outside the integer range of the engine", c.Value.String())
		}
		return mkInt(i)
	case constant.Float:
		f, _ := constant.Float64Val(c.Value)
		return FloatVal{f}
	case constant.String:
		return mkStr(constant.StringVal(c.Value))
	}
	unsupported("const %s", c.String())
	return nil
}

func strEq(a, b StrVal) *Term {
	if a.atom != nil || b.atom != nil {
		if a.atom == nil || b.atom == nil {
			return tFalse
		}
		return atomEq(a.atom, b.atom)
	}
	if len(a.bytes) != len(b.bytes) {
		return tFalse
	}
	r := tTrue
	for i := range a.bytes {
		r = tAnd(r, tEq(a.bytes[i], b.bytes[i]))
		if r == tFalse {
			return r
		}
	}
	return r
}

func atomEq(a, b *Atom) *Term {
	if a.kind != b.kind {
		return tFalse
	}
	switch a.kind {
	case "opaque":
		return mkBool(a.id == b.id)
	case "sig":
		return tAnd(tAnd(tEq(a.key, b.key), strEq(a.alg, b.alg)), jEq(a.tree, b.tree))
	case "json":
		return jEq(a.tree, b.tree)
	}
	return tFalse
}

// strLess is the lexicographic order on byte vectors.
func strLess(a, b StrVal) *Term {
	if a.atom != nil || b.atom != nil {
		unsupported("ordering on opaque string")
	}
	res := tFalse
	prefixEq := tTrue
	n := len(a.bytes)
	if len(b.bytes) < n {
		n = len(b.bytes)
	}
	for i := 0; i < n; i++ {
		res = tOr(res, tAnd(prefixEq, tCmp("<", a.bytes[i], b.bytes[i])))
		prefixEq = tAnd(prefixEq, tEq(a.bytes[i], b.bytes[i]))
	}
	if len(a.bytes) < len(b.bytes) {
		res = tOr(res, prefixEq)
	}
	return res
}

// eq returns a term for a == b (Go's ==).
func (e *Engine) eq(a, b Value) *Term {
	switch a := a.(type) {
	case *Term:
		bt, ok := b.(*Term)
		if !ok {
			return tFalse
		}
		if a.isBool != bt.isBool {
			return tFalse
		}
		return tEq(a, bt)
	case StrVal:
		bs, ok := b.(StrVal)
		if !ok {
			return tFalse
		}
		return strEq(a, bs)
	case FloatVal:
		bf, ok := b.(FloatVal)
		return mkBool(ok && a.f == bf.f)
	case PtrVal:
		bp, ok := b.(PtrVal)
		return mkBool(ok && a.slot == bp.slot)
	case RType:
		br, ok := b.(RType)
		return mkBool(ok && types.Identical(a.t, br.t))
	case MapVal: // only vs nil
		bm, ok := b.(MapVal)
		if ok && (a.m == nil || bm.m == nil) {
			return mkBool(a.m == bm.m)
		}
		e.goPanic("runtime error: comparing uncomparable type map")
	case SliceVal:
		switch b.(type) {
		case JBytes, bufBytes, SigBytes:
			if a.arr == nil {
				return tFalse
			}
		}
		bs, ok := b.(SliceVal)
		if ok && (a.arr == nil || bs.arr == nil) {
			return mkBool(a.arr == nil && bs.arr == nil)
		}
		e.goPanic("runtime error: comparing uncomparable type slice")
	case IfaceVal:
		bi, ok := b.(IfaceVal)
		if !ok {
			return tFalse
		}
		if a.typ == nil || bi.typ == nil {
			return mkBool(a.typ == nil && bi.typ == nil)
		}
		if !types.Identical(a.typ, bi.typ) {
			return tFalse
		}
		if !types.Comparable(a.typ) && a.typ != e.sh.marks.fmtErr && a.typ != e.sh.marks.rtype {
			e.goPanic("runtime error: comparing uncomparable type " + a.typ.String())
		}
		return e.eq(a.val, bi.val)
	case *StructVal:
		bs := b.(*StructVal)
		r := tTrue
		for i := range a.fields {
			r = tAnd(r, e.eq(a.fields[i], bs.fields[i]))
		}
		return r
	case *ArrayVal:
		bs := b.(*ArrayVal)
		r := tTrue
		for i := range a.elems {
			r = tAnd(r, e.eq(a.elems[i], bs.elems[i]))
		}
		return r
	case JBytes, bufBytes, SigBytes, YBytes:
		// byte slices holding a document: only comparison with nil is meaningful
		if bs, ok := b.(SliceVal); ok && bs.arr == nil {
			return tFalse
		}
		e.goPanic("runtime error: comparing uncomparable type []byte")
	case FuncVal:
		bf, ok := b.(FuncVal)
		return mkBool(ok && a.fn == nil && bf.fn == nil && a.native == nil && bf.native == nil)
	case nil:
		return mkBool(b == nil)
	}
	unsupported("eq on %T", a)
	return nil
}

func (e *Engine) step(fr *Frame, in ssa.Instruction) {
	switch in := in.(type) {
	case *ssa.Alloc:
		slot := new(Value)
		*slot = zero(in.Type().Underlying().(*types.Pointer).Elem())
		fr.env[in] = PtrVal{slot}
	case *ssa.UnOp:
		x := e.get(fr, in.X)
		switch in.Op {
		case token.MUL:
			p := x.(PtrVal)
			if p.slot == nil {
				e.goPanic("nil pointer dereference (load) in " + fr.fn.String())
			}
			fr.env[in] = copyVal(*p.slot)
		case token.NOT:
			fr.env[in] = tNot(x.(*Term))
		case token.SUB:
			switch x := x.(type) {
			case *Term:
				fr.env[in] = tArith("-", mkInt(0), x)
			case FloatVal:
				fr.env[in] = FloatVal{-x.f}
			}
		case token.XOR:
			// bitwise complement: -x-1 on signed integers, max-x on unsigned ones
			t, isT := x.(*Term)
			b, isB := in.Type().Underlying().(*types.Basic)
			if !isT || !isB || b.Info()&types.IsInteger == 0 {
				unsupported("unop ^ on %T", x)
			}
			if b.Info()&types.IsUnsigned == 0 {
				fr.env[in] = tArith("-", tArith("-", mkInt(0), t), mkInt(1))
				break
			}
			var mx int64
			switch b.Kind() {
			case types.Uint8:
				mx = 1<<8 - 1
			case types.Uint16:
				mx = 1<<16 - 1
			case types.Uint32:
				mx = 1<<32 - 1
			default:
				unsupported("unop ^ on a 64-bit unsigned value")
			}
			fr.env[in] = tArith("-", mkInt(mx), t)
		default:
			unsupported("unop %s", in.Op.String())
		}
	case *ssa.Store:
		p := e.get(fr, in.Addr).(PtrVal)
		if p.slot == nil {
			e.goPanic("nil pointer dereference (store) in " + fr.fn.String())
		}
		assign(p.slot, e.get(fr, in.Val))
	case *ssa.BinOp:
		fr.env[in] = e.binop(in.Op, e.get(fr, in.X), e.get(fr, in.Y))
	case *ssa.FieldAddr:
		p := e.get(fr, in.X).(PtrVal)
		if p.slot == nil {
			e.goPanic("nil pointer dereference (field) in " + fr.fn.String())
		}
		sv, ok := (*p.slot).(*StructVal)
		if !ok {
			unsupported("FieldAddr on %T in %s", *p.slot, fr.fn)
		}
		fr.env[in] = PtrVal{&sv.fields[in.Field]}
	case *ssa.Field:
		sv := e.get(fr, in.X).(*StructVal)
		fr.env[in] = copyVal(sv.fields[in.Field])
	case *ssa.IndexAddr:
		x := e.get(fr, in.X)
		idx := e.get(fr, in.Index).(*Term)
		switch x := x.(type) {
		case SliceVal:
			e.panicIf(tOr(tCmp("<", idx, mkInt(0)), tCmp(">=", idx, mkInt(int64(x.len)))), "index out of range in "+fr.fn.String())
			i := e.concretize(idx, 0, x.len-1)
			fr.env[in] = PtrVal{&x.arr.elems[x.off+i]}
		case PtrVal:
			if x.slot == nil {
				e.goPanic("nil array pointer in " + fr.fn.String())
			}
			av := (*x.slot).(*ArrayVal)
			e.panicIf(tOr(tCmp("<", idx, mkInt(0)), tCmp(">=", idx, mkInt(int64(len(av.elems))))), "array index out of range in "+fr.fn.String())
			i := e.concretize(idx, 0, len(av.elems)-1)
			fr.env[in] = PtrVal{&av.elems[i]}
		default:
			unsupported("indexaddr on %T", x)
		}
	case *ssa.Index:
		idx := e.get(fr, in.Index).(*Term)
		switch x := e.get(fr, in.X).(type) {
		case *ArrayVal:
			e.panicIf(tOr(tCmp("<", idx, mkInt(0)), tCmp(">=", idx, mkInt(int64(len(x.elems))))), "array index out of range in "+fr.fn.String())
			fr.env[in] = copyVal(x.elems[e.concretize(idx, 0, len(x.elems)-1)])
		case StrVal:
			fr.env[in] = e.strIndex(x, idx, fr.fn)
		case SliceVal:
			e.panicIf(tOr(tCmp("<", idx, mkInt(0)), tCmp(">=", idx, mkInt(int64(x.len)))), "index out of range in "+fr.fn.String())
			fr.env[in] = copyVal(x.arr.elems[x.off+e.concretize(idx, 0, x.len-1)])
		default:
			unsupported("index on %T", x)
		}
	case *ssa.Slice:
		e.sliceOp(fr, in)
	case *ssa.MakeSlice:
		n := e.concretize(e.get(fr, in.Len).(*Term), 0, 256)
		c := e.concretize(e.get(fr, in.Cap).(*Term), 0, 256)
		et := in.Type().Underlying().(*types.Slice).Elem()
		av := &ArrayVal{elems: make([]Value, c)}
		for i := range av.elems {
			av.elems[i] = zero(et)
		}
		fr.env[in] = SliceVal{arr: av, len: n, cap: c}
	case *ssa.MakeMap:
		fr.env[in] = MapVal{&MapObj{}}
	case *ssa.Lookup:
		e.lookup(fr, in)
	case *ssa.MapUpdate:
		m := e.get(fr, in.Map).(MapVal)
		if m.m == nil {
			e.goPanic("assignment to entry in nil map in " + fr.fn.String())
		}
		e.mapSet(m.m, e.get(fr, in.Key), e.get(fr, in.Value))
	case *ssa.Extract:
		fr.env[in] = e.get(fr, in.Tuple).(TupleVal)[in.Index]
	case *ssa.MakeClosure:
		fv := FuncVal{fn: in.Fn.(*ssa.Function)}
		for _, b := range in.Bindings {
			fv.bindings = append(fv.bindings, e.get(fr, b))
		}
		fr.env[in] = fv
	case *ssa.MakeInterface:
		fr.env[in] = IfaceVal{typ: in.X.Type(), val: e.get(fr, in.X)}
	case *ssa.ChangeInterface:
		fr.env[in] = e.get(fr, in.X)
	case *ssa.ChangeType:
		fr.env[in] = e.get(fr, in.X)
	case *ssa.Convert:
		fr.env[in] = e.convert(in.X.Type(), in.Type(), e.get(fr, in.X))
	case *ssa.MultiConvert:
		fr.env[in] = e.convert(in.X.Type(), in.Type(), e.get(fr, in.X))
	case *ssa.TypeAssert:
		e.typeAssert(fr, in)
	case *ssa.Range:
		x := e.get(fr, in.X)
		switch x := x.(type) {
		case MapVal:
			it := &MapIter{visited: map[*MapEntry]bool{}, orig: map[*MapEntry]bool{}}
			if x.m != nil {
				it.m = x.m
				for _, en := range x.m.entries {
					it.orig[en] = true
				}
			}
			fr.env[in] = it
		case StrVal:
			fr.env[in] = &StrIter{s: x}
		default:
			unsupported("range over %T", x)
		}
	case *ssa.Next:
		e.next(fr, in)
	case *ssa.Call:
		fr.env[in] = e.doCall(fr, in.Common())
	case *ssa.Defer:
		c := in.Common()
		args := make([]Value, len(c.Args))
		for i, a := range c.Args {
			args[i] = e.get(fr, a)
		}
		var callee Value
		if !c.IsInvoke() {
			if _, isB := c.Value.(*ssa.Builtin); !isB {
				callee = e.get(fr, c.Value)
			}
		} else {
			callee = e.get(fr, c.Value)
		}
		cc := *c
		fr.defers = append(fr.defers, func() { e.doCallArgs(fr, &cc, callee, args) })
	case *ssa.DebugRef:
	default:
		unsupported("instr %T in %s", in, fr.fn)
	}
}

func (e *Engine) strIndex(x StrVal, idx *Term, fn *ssa.Function) Value {
	if x.atom != nil {
		unsupported("index into opaque string")
	}
	e.panicIf(tOr(tCmp("<", idx, mkInt(0)), tCmp(">=", idx, mkInt(int64(len(x.bytes))))), "string index out of range in "+fn.String())
	return x.bytes[e.concretize(idx, 0, len(x.bytes)-1)]
}

func (e *Engine) next(fr *Frame, in *ssa.Next) {
	tt := in.Type().(*types.Tuple)
	if in.IsString {
		it := e.get(fr, in.Iter).(*StrIter)
		if it.pos >= len(it.s.bytes) {
			fr.env[in] = TupleVal{tFalse, mkInt(0), mkInt(0)}
			return
		}
		b := it.s.bytes[it.pos]
		if e.decide(tCmp(">=", b, mkInt(128))) {
			unsupported("range over non-ASCII string")
		}
		fr.env[in] = TupleVal{tTrue, mkInt(int64(it.pos)), b}
		it.pos++
		return
	}
	it := e.get(fr, in.Iter).(*MapIter)
	// Candidates: unvisited entries currently in the map. Entries present at
	// the start must be produced (unless deleted meanwhile); entries created
	// during the iteration may or may not be produced (Go spec) - both
	// explored, at most maxNew productions per loop.
	const maxNew = 1
	var must, may []*MapEntry
	if it.m != nil {
		for _, en := range it.m.entries {
			if it.visited[en] {
				continue
			}
			if it.orig[en] {
				must = append(must, en)
			} else if it.newVisits < maxNew {
				may = append(may, en)
			}
		}
	}
	cands := append(append([]*MapEntry{}, must...), may...)
	if len(may) > 0 {
		e.mapNondet = true
	}
	var pick *MapEntry
	if len(must) == 0 && len(may) > 0 {
		if !e.decide(e.fresh("mapnew", true)) {
			cands = nil
		}
	}
	switch {
	case len(cands) <= 1 || e.sh.fixedMapOrder:
		// single candidate, or a harness that states it runs with insertion order only
		if len(cands) > 0 {
			pick = cands[0]
		}
	case len(it.orig) <= 4:
		// small maps: every order
		e.mapNondet = true
		for i, c := range cands {
			if i == len(cands)-1 || e.decide(e.fresh("maporder", true)) {
				pick = c
				break
			}
		}
	default:
		// larger maps: every rotation of the insertion order (Go's runtime
		// starts at a random position and then walks on)
		e.mapNondet = true
		if !it.started {
			it.started = true
			for i, c := range cands {
				if i == len(cands)-1 || e.decide(e.fresh("maprot", true)) {
					pick = c
					break
				}
			}
			// remember the cyclic successor order
			for i, c := range it.m.entries {
				if c == pick {
					it.cycle = append(append([]*MapEntry{}, it.m.entries[i:]...), it.m.entries[:i]...)
				}
			}
		} else {
			for _, c := range it.cycle {
				for _, d := range cands {
					if c == d && pick == nil {
						pick = c
					}
				}
			}
			if pick == nil {
				pick = cands[0]
			}
		}
	}
	if pick == nil {
		fr.env[in] = TupleVal{tFalse, zero(tt.At(1).Type()), zero(tt.At(2).Type())}
	} else {
		it.visited[pick] = true
		if !it.orig[pick] {
			it.newVisits++
		}
		fr.env[in] = TupleVal{tTrue, pick.key, copyVal(pick.val)}
	}
}

func (e *Engine) convert(from, to types.Type, x Value) Value {
	fu, tu := from.Underlying(), to.Underlying()
	fb, fIsBasic := fu.(*types.Basic)
	tb, tIsBasic := tu.(*types.Basic)
	switch {
	case fIsBasic && tIsBasic:
		switch {
		case fb.Info()&types.IsInteger != 0 && tb.Info()&types.IsInteger != 0:
			return x
		case fb.Info()&types.IsString != 0 && tb.Info()&types.IsString != 0:
			return x
		case fb.Info()&types.IsInteger != 0 && tb.Info()&types.IsString != 0:
			t := x.(*Term)
			if !t.konst {
				// string(byteTerm) for an ASCII byte
				if e.decide(tOr(tCmp("<", t, mkInt(0)), tCmp(">=", t, mkInt(128)))) {
					unsupported("string(rune) of non-ASCII symbolic value")
				}
				return StrVal{bytes: []*Term{t}}
			}
			return mkStr(string(rune(t.iv)))
		case fb.Info()&types.IsInteger != 0 && tb.Info()&types.IsFloat != 0:
			t := x.(*Term)
			if !t.konst {
				unsupported("float(symbolic int)")
			}
			return FloatVal{float64(t.iv)}
		case fb.Info()&types.IsFloat != 0 && tb.Info()&types.IsFloat != 0:
			return x
		case fb.Info()&types.IsFloat != 0 && tb.Info()&types.IsInteger != 0:
			return mkInt(int64(x.(FloatVal).f))
		}
	case fIsBasic && fb.Info()&types.IsString != 0:
		// string -> []byte / []rune
		if sl, ok := tu.(*types.Slice); ok {
			_ = sl
			s := x.(StrVal)
			if s.atom != nil {
				return atomBytes(s.atom)
			}
			if eb, isB := sl.Elem().Underlying().(*types.Basic); isB && eb.Kind() == types.Int32 {
				// []rune(s): decoded characters; the capacity is what the runtime's
				// size classes give (slicing beyond the length is legal up to it)
				var runes []Value
				if cs, conc := concreteStr(s); conc {
					for _, r := range cs {
						runes = append(runes, mkInt(int64(r)))
					}
				} else {
					for i := 0; i < len(s.bytes); {
						b := s.bytes[i]
						if b.konst && b.iv >= 128 {
							// a constant multi-byte character inside a partly symbolic string
							buf := []byte{}
							for j := i; j < len(s.bytes) && j < i+4 && s.bytes[j].konst; j++ {
								buf = append(buf, byte(s.bytes[j].iv))
							}
							r, size := utf8.DecodeRune(buf)
							if r == utf8.RuneError && size <= 1 && len(buf) < 4 && i+len(buf) < len(s.bytes) {
								unsupported("[]rune of a string whose multi-byte character has symbolic bytes")
							}
							runes = append(runes, mkInt(int64(r)))
							i += size
							continue
						}
						if !b.konst && e.decide(tCmp(">=", b, mkInt(128))) {
							unsupported("[]rune of a string with a symbolic non-ASCII byte")
						}
						runes = append(runes, b)
						i++
					}
				}
				c := runeSliceCap(len(runes))
				av := &ArrayVal{elems: make([]Value, c)}
				for i := range av.elems {
					if i < len(runes) {
						av.elems[i] = runes[i]
					} else {
						av.elems[i] = mkInt(0)
					}
				}
				return SliceVal{arr: av, len: len(runes), cap: c}
			}
			elems := make([]Value, len(s.bytes))
			for i, b := range s.bytes {
				elems[i] = b
			}
			return mkSlice(elems)
		}
	case tIsBasic && tb.Info()&types.IsString != 0:
		switch v := x.(type) {
		case SliceVal:
			out := StrVal{}
			if sl, isSl := fu.(*types.Slice); isSl {
				if eb, isB := sl.Elem().Underlying().(*types.Basic); isB && eb.Kind() == types.Int32 {
					// string([]rune): each character encoded
					for _, r := range sliceElems(v) {
						t := r.(*Term)
						if t.konst {
							out.bytes = append(out.bytes, mkStr(string(rune(t.iv))).bytes...)
							continue
						}
						if e.decide(tOr(tCmp("<", t, mkInt(0)), tCmp(">=", t, mkInt(128)))) {
							unsupported("string of a []rune with a symbolic non-ASCII character")
						}
						out.bytes = append(out.bytes, t)
					}
					return out
				}
			}
			for _, b := range sliceElems(v) {
				out.bytes = append(out.bytes, b.(*Term))
			}
			return out
		case JBytes:
			return StrVal{atom: &Atom{kind: "json", tree: v.tree}}
		case bufBytes:
			return StrVal{atom: &Atom{kind: "json", tree: e.bytesToJ(v)}}
		case SigBytes:
			return StrVal{atom: v.atom}
		}
	}
	if _, ok := fu.(*types.Pointer); ok {
		return x
	}
	if _, ok := fu.(*types.Slice); ok {
		if _, ok := tu.(*types.Slice); ok {
			return x
		}
	}
	unsupported("convert %v -> %v (%T)", from, to, x)
	return nil
}

// runeSliceCap: the capacity the Go runtime gives []rune(s) for n characters
// (4n bytes rounded up to the allocator's size class).
func runeSliceCap(n int) int {
	classes := []int{0, 8, 16, 24, 32, 48, 64, 80, 96, 112, 128, 144, 160, 176, 192, 208, 224, 240, 256, 288, 320, 352, 384, 416, 448, 480, 512, 576, 640, 704, 768, 896, 1024, 1152, 1280, 1408, 1536, 1792, 2048, 2304, 2688, 3072, 3200, 3456, 4096, 4864, 5376, 6144, 6528, 6784, 6912, 8192, 9472, 9728, 10240, 10880, 12288, 13568, 14336, 16384, 18432, 19072, 20480, 21760, 24576, 27264, 28672, 32768}
	need := 4 * n
	for _, c := range classes {
		if c >= need {
			return c / 4
		}
	}
	return (need + 8191) / 8192 * 8192 / 4
}

func atomBytes(a *Atom) Value {
	switch a.kind {
	case "sig":
		return SigBytes{atom: a}
	case "json":
		return JBytes{tree: a.tree}
	}
	return SigBytes{atom: a}
}

func (e *Engine) binop(op token.Token, x, y Value) Value {
	switch op {
	case token.EQL:
		return e.eq(x, y)
	case token.NEQ:
		return tNot(e.eq(x, y))
	}
	if xs, ok := x.(StrVal); ok {
		ys := y.(StrVal)
		switch op {
		case token.ADD:
			if xs.atom != nil || ys.atom != nil {
				if len(xs.bytes) == 0 && xs.atom == nil {
					return ys
				}
				if len(ys.bytes) == 0 && ys.atom == nil {
					return xs
				}
				unsupported("concatenation with opaque string")
			}
			return StrVal{bytes: append(append(make([]*Term, 0, len(xs.bytes)+len(ys.bytes)), xs.bytes...), ys.bytes...)}
		case token.LSS:
			return strLess(xs, ys)
		case token.GTR:
			return strLess(ys, xs)
		case token.LEQ:
			return tNot(strLess(ys, xs))
		case token.GEQ:
			return tNot(strLess(xs, ys))
		}
		unsupported("string binop %s", op.String())
	}
	if xf, ok := x.(FloatVal); ok {
		yf := y.(FloatVal)
		switch op {
		case token.ADD:
			return FloatVal{xf.f + yf.f}
		case token.SUB:
			return FloatVal{xf.f - yf.f}
		case token.MUL:
			return FloatVal{xf.f * yf.f}
		case token.QUO:
			return FloatVal{xf.f / yf.f}
		case token.LSS:
			return mkBool(xf.f < yf.f)
		case token.LEQ:
			return mkBool(xf.f <= yf.f)
		case token.GTR:
			return mkBool(xf.f > yf.f)
		case token.GEQ:
			return mkBool(xf.f >= yf.f)
		}
		unsupported("float binop %s", op.String())
	}
	a, b := x.(*Term), y.(*Term)
	if a.isBool {
		switch op {
		case token.AND:
			return tAnd(a, b)
		case token.OR:
			return tOr(a, b)
		}
		unsupported("bool binop %s", op.String())
	}
	switch op {
	case token.ADD:
		return tArith("+", a, b)
	case token.SUB:
		return tArith("-", a, b)
	case token.MUL:
		if !a.konst && !b.konst {
			unsupported("symbolic * symbolic")
		}
		return tArith("*", a, b)
	case token.QUO:
		if b.konst && b.iv == 0 {
			e.goPanic("integer divide by zero")
		}
		if a.konst && b.konst {
			return mkInt(a.iv / b.iv)
		}
		if b.konst && b.iv > 0 {
			// Go truncates toward zero; SMT div floors. Equal for a >= 0.
			if e.decide(tCmp("<", a, mkInt(0))) {
				unsupported("division of negative symbolic value")
			}
			return app(false, "div", a, b)
		}
		unsupported("symbolic division")
	case token.REM:
		if b.konst && b.iv == 0 {
			e.goPanic("integer divide by zero")
		}
		if a.konst && b.konst {
			return mkInt(a.iv % b.iv)
		}
		if b.konst && b.iv > 0 {
			if e.decide(tCmp("<", a, mkInt(0))) {
				unsupported("remainder of negative symbolic value")
			}
			return app(false, "mod", a, b)
		}
		unsupported("symbolic remainder")
	case token.LSS:
		return tCmp("<", a, b)
	case token.LEQ:
		return tCmp("<=", a, b)
	case token.GTR:
		return tCmp(">", a, b)
	case token.GEQ:
		return tCmp(">=", a, b)
	case token.SHL:
		if a.konst && b.konst {
			return mkInt(a.iv << uint(b.iv))
		}
	case token.SHR:
		if a.konst && b.konst {
			return mkInt(a.iv >> uint(b.iv))
		}
		if _, ok := e.bitWidth(a); ok && b.konst && b.iv >= 0 && b.iv < 62 {
			// non-negative value of known width: a logical shift is a division
			return app(false, "div", a, mkInt(int64(1)<<uint(b.iv)))
		}
	case token.AND:
		if a.konst && b.konst {
			return mkInt(a.iv & b.iv)
		}
		if r := e.bitwise(op, a, b); r != nil {
			return r
		}
	case token.OR:
		if a.konst && b.konst {
			return mkInt(a.iv | b.iv)
		}
		if r := e.bitwise(op, a, b); r != nil {
			return r
		}
	case token.XOR:
		if a.konst && b.konst {
			return mkInt(a.iv ^ b.iv)
		}
		if r := e.bitwise(op, a, b); r != nil {
			return r
		}
	}
	unsupported("binop %s on symbolic ints", op.String())
	return nil
}

func (e *Engine) sliceOp(fr *Frame, in *ssa.Slice) {
	x := e.get(fr, in.X)
	getIdx := func(v ssa.Value, def int, hi int) int {
		if v == nil {
			return def
		}
		t := e.get(fr, v).(*Term)
		e.panicIf(tOr(tCmp("<", t, mkInt(0)), tCmp(">", t, mkInt(int64(hi)))), "slice bounds out of range in "+fr.fn.String())
		return e.concretize(t, 0, hi)
	}
	switch x := x.(type) {
	case SliceVal:
		lo := getIdx(in.Low, 0, x.cap)
		hi := getIdx(in.High, x.len, x.cap)
		mx := x.cap
		if in.Max != nil {
			mx = getIdx(in.Max, x.cap, x.cap)
		}
		if lo > hi || hi > mx {
			e.goPanic("slice bounds out of range (lo>hi) in " + fr.fn.String())
		}
		if x.arr == nil {
			fr.env[in] = SliceVal{}
			return
		}
		fr.env[in] = SliceVal{arr: x.arr, off: x.off + lo, len: hi - lo, cap: mx - lo}
	case PtrVal: // pointer to array
		if x.slot == nil {
			e.goPanic("slice of nil array pointer")
		}
		av := (*x.slot).(*ArrayVal)
		lo := getIdx(in.Low, 0, len(av.elems))
		hi := getIdx(in.High, len(av.elems), len(av.elems))
		if lo > hi {
			e.goPanic("slice bounds out of range (lo>hi) in " + fr.fn.String())
		}
		fr.env[in] = SliceVal{arr: av, off: lo, len: hi - lo, cap: len(av.elems) - lo}
	case StrVal:
		if x.atom != nil {
			unsupported("slice of opaque string")
		}
		lo := getIdx(in.Low, 0, len(x.bytes))
		hi := getIdx(in.High, len(x.bytes), len(x.bytes))
		if lo > hi {
			e.goPanic("slice bounds out of range (lo>hi) in " + fr.fn.String())
		}
		fr.env[in] = StrVal{bytes: x.bytes[lo:hi]}
	default:
		unsupported("slice of %T", x)
	}
}

// mapFind forks over which entry (if any) has the key.
func (e *Engine) mapFind(m *MapObj, k Value) *MapEntry {
	for _, ent := range m.entries {
		if e.decide(e.eq(ent.key, k)) {
			return ent
		}
	}
	return nil
}

func (e *Engine) checkHashable(k Value) {
	if iv, ok := k.(IfaceVal); ok && iv.typ != nil && !types.Comparable(iv.typ) {
		e.goPanic("runtime error: hash of unhashable type " + iv.typ.String())
	}
}

func (e *Engine) mapSet(m *MapObj, k, v Value) {
	e.checkHashable(k)
	if ent := e.mapFind(m, k); ent != nil {
		ent.val = copyVal(v)
	} else {
		m.entries = append(m.entries, &MapEntry{key: k, val: copyVal(v)})
	}
}

func (e *Engine) mapDelete(m *MapObj, k Value) {
	if ent := e.mapFind(m, k); ent != nil {
		for i, x := range m.entries {
			if x == ent {
				m.entries = append(append([]*MapEntry{}, m.entries[:i]...), m.entries[i+1:]...)
				break
			}
		}
	}
}

func (e *Engine) lookup(fr *Frame, in *ssa.Lookup) {
	x := e.get(fr, in.X)
	if sv, isStr := x.(StrVal); isStr {
		fr.env[in] = e.strIndex(sv, e.get(fr, in.Index).(*Term), fr.fn)
		return
	}
	mv := x.(MapVal)
	vt := in.X.Type().Underlying().(*types.Map).Elem()
	var ent *MapEntry
	k := e.get(fr, in.Index)
	if mv.m != nil {
		e.checkHashable(k)
		ent = e.mapFind(mv.m, k)
	}
	var v Value
	if ent != nil {
		v = copyVal(ent.val)
	} else {
		v = zero(vt)
	}
	if in.CommaOk {
		fr.env[in] = TupleVal{v, mkBool(ent != nil)}
	} else {
		fr.env[in] = v
	}
}

func (e *Engine) implements(t types.Type, it *types.Interface) bool {
	if t == e.sh.marks.fmtErr {
		// engine-native error values implement exactly `error`-shaped interfaces
		if it.NumMethods() == 1 && it.Method(0).Name() == "Error" {
			return true
		}
		return it.NumMethods() == 0
	}
	if t == e.sh.marks.rtype || t == e.sh.marks.regex || t == e.sh.marks.opaque {
		return it.NumMethods() == 0
	}
	return types.Implements(t, it)
}

func (e *Engine) implementsVal(x IfaceVal, it *types.Interface) bool {
	if x.typ == e.sh.marks.opaque {
		if obj, ok := opaqueObj(x); ok {
			return e.absImplements(obj, it)
		}
	}
	return e.implements(x.typ, it)
}

func (e *Engine) typeAssert(fr *Frame, in *ssa.TypeAssert) {
	x := e.get(fr, in.X).(IfaceVal)
	var ok bool
	var res Value
	if it, isIface := in.AssertedType.Underlying().(*types.Interface); isIface {
		ok = x.typ != nil && e.implementsVal(x, it)
		res = x
	} else {
		ok = x.typ != nil && types.Identical(x.typ, in.AssertedType)
		if ok {
			res = x.val
		}
	}
	if in.CommaOk {
		if !ok {
			res = zero(in.AssertedType)
		}
		fr.env[in] = TupleVal{res, mkBool(ok)}
		return
	}
	if !ok {
		e.goPanic("interface conversion failed in " + fr.fn.String())
	}
	fr.env[in] = res
}

func (e *Engine) doCall(fr *Frame, c *ssa.CallCommon) Value {
	args := make([]Value, len(c.Args))
	for i, a := range c.Args {
		args[i] = e.get(fr, a)
	}
	var callee Value
	if c.IsInvoke() {
		callee = e.get(fr, c.Value)
	} else if _, isB := c.Value.(*ssa.Builtin); !isB {
		if _, isF := c.Value.(*ssa.Function); !isF {
			callee = e.get(fr, c.Value)
		}
	}
	return e.doCallArgs(fr, c, callee, args)
}

func (e *Engine) doCallArgs(fr *Frame, c *ssa.CallCommon, callee Value, args []Value) Value {
	if c.IsInvoke() {
		recv := callee.(IfaceVal)
		if recv.typ == nil {
			e.goPanic("invoke of method " + c.Method.Name() + " on nil interface in " + fr.fn.String())
		}
		return e.invoke(recv, c.Method, args)
	}
	switch f := c.Value.(type) {
	case *ssa.Builtin:
		return e.builtin(fr, f, c, args)
	case *ssa.Function:
		return e.call(f, args)
	}
	return e.callFuncVal(callee.(FuncVal), args)
}

func (e *Engine) invoke(recv IfaceVal, method *types.Func, args []Value) Value {
	name := method.Name()
	if rt, ok := recv.val.(RType); ok {
		return e.rtypeMethod(rt, name, args)
	}
	if recv.typ == e.sh.marks.fmtErr {
		return e.fmtErrMethod(recv, name, args)
	}
	if v, ok := e.invokeIntrinsic(recv, method, args); ok {
		return v
	}
	m := e.sh.prog.LookupMethod(recv.typ, method.Pkg(), name)
	if m == nil {
		unsupported("no method %s on %v", name, recv.typ)
	}
	return e.call(m, append([]Value{recv.val}, args...))
}

func (e *Engine) builtin(fr *Frame, b *ssa.Builtin, c *ssa.CallCommon, args []Value) Value {
	switch b.Name() {
	case "len":
		switch x := args[0].(type) {
		case SliceVal:
			return mkInt(int64(x.len))
		case StrVal:
			if x.atom != nil {
				unsupported("len of opaque string")
			}
			return mkInt(int64(len(x.bytes)))
		case MapVal:
			if x.m == nil {
				return mkInt(0)
			}
			return mkInt(int64(len(x.m.entries)))
		case JBytes, bufBytes, SigBytes, YBytes:
			return mkInt(1)
		}
	case "cap":
		return mkInt(int64(args[0].(SliceVal).cap))
	case "append":
		s := args[0].(SliceVal)
		var t SliceVal
		switch a1 := args[1].(type) {
		case SliceVal:
			t = a1
		case StrVal:
			elems := make([]Value, len(a1.bytes))
			for i, bt := range a1.bytes {
				elems[i] = bt
			}
			t = mkSlice(elems)
		case JBytes, bufBytes, SigBytes, YBytes:
			// opaque byte documents are immutable values of the engine: appending
			// one to an empty slice is a copy
			if s.len == 0 {
				return a1
			}
			unsupported("append of %T to a non-empty slice", a1)
		default:
			unsupported("append of %T", a1)
		}
		if t.len == 0 {
			return s
		}
		if s.arr != nil && s.len+t.len <= s.cap {
			for i := 0; i < t.len; i++ {
				assign(&s.arr.elems[s.off+s.len+i], t.arr.elems[t.off+i])
			}
			s.len += t.len
			return s
		}
		nc := 2 * s.cap
		if nc < s.len+t.len {
			nc = s.len + t.len
		}
		et := c.Args[0].Type().Underlying().(*types.Slice).Elem()
		av := &ArrayVal{elems: make([]Value, nc)}
		for i := range av.elems {
			switch {
			case i < s.len:
				av.elems[i] = copyVal(s.arr.elems[s.off+i])
			case i < s.len+t.len:
				av.elems[i] = copyVal(t.arr.elems[t.off+i-s.len])
			default:
				av.elems[i] = zero(et)
			}
		}
		return SliceVal{arr: av, len: s.len + t.len, cap: nc}
	case "copy":
		d := args[0].(SliceVal)
		var src []Value
		switch s := args[1].(type) {
		case SliceVal:
			src = append([]Value{}, sliceElems(s)...)
		case StrVal:
			for _, bt := range s.bytes {
				src = append(src, bt)
			}
		}
		n := len(src)
		if d.len < n {
			n = d.len
		}
		for i := 0; i < n; i++ {
			assign(&d.arr.elems[d.off+i], src[i])
		}
		return mkInt(int64(n))
	case "delete":
		m := args[0].(MapVal)
		if m.m == nil {
			return nil
		}
		e.mapDelete(m.m, args[1])
		return nil
	case "print", "println":
		return nil
	case "ssa:wrapnilchk":
		if p, ok := args[0].(PtrVal); ok && p.slot == nil {
			e.goPanic("value method called using nil pointer")
		}
		return args[0]
	case "min", "max":
		acc, isInt := args[0].(*Term)
		if !isInt {
			unsupported("min/max of %T", args[0])
		}
		for _, x := range args[1:] {
			b2, ok := x.(*Term)
			if !ok {
				unsupported("min/max of %T", x)
			}
			if b.Name() == "min" {
				acc = tIte(tCmp("<=", acc, b2), acc, b2)
			} else {
				acc = tIte(tCmp(">=", acc, b2), acc, b2)
			}
		}
		return acc
	case "clear":
		if m, ok := args[0].(MapVal); ok && m.m != nil {
			m.m.entries = nil
		}
		return nil
	}
	unsupported("builtin %s(%T)", b.Name(), args[0])
	return nil
}

// bitWidth: k such that 0 <= t < 2^k is known structurally (constants, tracked
// byte variables, ite/mod/bitwise combinations of those); ok=false otherwise.
func (e *Engine) bitWidth(t *Term) (int, bool) {
	if t.isBool {
		return 0, false
	}
	if t.konst {
		if t.iv < 0 || t.iv >= 1<<16 {
			return 0, false
		}
		k := 0
		for (int64(1) << uint(k)) <= t.iv {
			k++
		}
		return k, true
	}
	if w, ok := e.bitw[t]; ok {
		return w, true
	}
	switch t.op {
	case "var":
		if _, ok := e.doms[t.s]; ok {
			return 8, true
		}
	case "ite":
		a, oka := e.bitWidth(t.args[1])
		b, okb := e.bitWidth(t.args[2])
		if oka && okb {
			return max(a, b), true
		}
	case "mod":
		if t.args[1].konst && t.args[1].iv > 0 {
			return e.bitWidth(mkInt(t.args[1].iv - 1))
		}
	}
	// not structural: ask whether the path condition entails a byte range
	if e.sol.CheckWith(tNot(tAnd(tCmp("<=", mkInt(0), t), tCmp("<=", t, mkInt(255))))) == "unsat" {
		e.bitw[t] = 8
		return 8, true
	}
	return 0, false
}

// bitwise encodes &, | and ^ on values of known small width bit by bit in
// integer arithmetic (bit i of x is (x div 2^i) mod 2); nil when a width is
// not known.
func (e *Engine) bitwise(op token.Token, a, b *Term) *Term {
	wa, oka := e.bitWidth(a)
	wb, okb := e.bitWidth(b)
	if !oka || !okb {
		return nil
	}
	w := max(wa, wb)
	if op == token.AND {
		w = min(wa, wb)
	}
	bit := func(x *Term, i int) *Term {
		if x.konst {
			return mkInt((x.iv >> uint(i)) & 1)
		}
		return app(false, "mod", app(false, "div", x, mkInt(int64(1)<<uint(i))), mkInt(2))
	}
	r := mkInt(0)
	for i := 0; i < w; i++ {
		x, y := bit(a, i), bit(b, i)
		var z *Term
		switch {
		case x.konst && y.konst:
			switch op {
			case token.AND:
				z = mkInt(x.iv & y.iv)
			case token.OR:
				z = mkInt(x.iv | y.iv)
			default:
				z = mkInt(x.iv ^ y.iv)
			}
		case op == token.AND:
			z = tArith("*", x, y)
			if !x.konst && !y.konst {
				z = tIte(tAnd(tEq(x, mkInt(1)), tEq(y, mkInt(1))), mkInt(1), mkInt(0))
			}
		case op == token.OR:
			z = tIte(tOr(tEq(x, mkInt(1)), tEq(y, mkInt(1))), mkInt(1), mkInt(0))
		default:
			z = tIte(tEq(x, y), mkInt(0), mkInt(1))
		}
		r = tArith("+", r, tArith("*", mkInt(int64(1)<<uint(i)), z))
	}
	if !r.konst {
		e.bitw[r] = w
	}
	return r
}
