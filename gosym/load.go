package main

import (
	"fmt"
	"os"
	"path/filepath"
	"sort"
	"strings"
	"sync"

	"golang.org/x/tools/go/packages"
	"golang.org/x/tools/go/ssa"
	"golang.org/x/tools/go/ssa/ssautil"
)

const modulePath = "github.com/buildkite/go-pipeline"

// Loaded is one repo package loaded with its harness overlay and built to SSA.
type Loaded struct {
	prog    *ssa.Program
	pkg     *ssa.Package
	overlay map[string][]byte // virtual path -> content (engine view)
	files   map[string]string // virtual path -> real file (native replay view)
	dir     string            // package dir relative to the repo root ("." for root)
	pkgName string
	dropped []string // harness files left out because they no longer type-check
}

var (
	repoDir  = envOr("VERIF_REPO", "/repo")
	verifDir = envOr("VERIF_DIR", defaultVerifDir())
)

// defaultVerifDir: the current directory when it looks like the framework
// root (the manifest commands run with cwd=/verif; background runs use a
// snapshot elsewhere), otherwise /verif.
func defaultVerifDir() string {
	if wd, err := os.Getwd(); err == nil {
		if st, err := os.Stat(filepath.Join(wd, "harness", "support.go.txt")); err == nil && !st.IsDir() {
			return wd
		}
	}
	return "/verif"
}

func envOr(k, d string) string {
	if v := os.Getenv(k); v != "" {
		return v
	}
	return d
}

var (
	droppedMu    sync.Mutex
	droppedFiles = map[string]map[string]bool{} // package dir -> harness files left out
)

// harnessSources returns the harness files for a package dir: the shared
// support file (package clause rewritten) plus /verif/harness/<dir>/*.go.
func harnessSources(dir, pkgName string, withTest bool) (map[string][]byte, error) {
	out := map[string][]byte{}
	hdir := filepath.Join(verifDir, "harness", hdirName(dir))
	ents, err := os.ReadDir(hdir)
	if err != nil {
		return nil, err
	}
	for _, en := range ents {
		if en.IsDir() || !strings.HasSuffix(en.Name(), ".go") {
			continue
		}
		b, err := os.ReadFile(filepath.Join(hdir, en.Name()))
		if err != nil {
			return nil, err
		}
		droppedMu.Lock()
		skipped := droppedFiles[dir]["zz_vp_"+en.Name()]
		droppedMu.Unlock()
		if skipped {
			continue
		}
		out["zz_vp_"+en.Name()] = b
	}
	shared := []string{"support.go.txt"}
	if withTest {
		shared = append(shared, "replay_test.go.txt")
	}
	for _, s := range shared {
		b, err := os.ReadFile(filepath.Join(verifDir, "harness", s))
		if err != nil {
			return nil, err
		}
		name := "zz_vp_" + strings.TrimSuffix(s, ".txt")
		out[name] = []byte(strings.Replace(string(b), "package PKG", "package "+pkgName, 1))
	}
	return out, nil
}

func hdirName(dir string) string {
	if dir == "." || dir == "" {
		return "root"
	}
	return strings.ReplaceAll(dir, "/", "_")
}

func pkgNameFor(dir string) string {
	switch dir {
	case ".", "":
		return "pipeline"
	case "internal/env":
		return "env"
	}
	return filepath.Base(dir)
}

// loadPackage loads repo package `dir` with the harness overlay and builds SSA
// for it and all its dependencies (generics instantiated).
func loadPackage(dir string) (*Loaded, error) {
	// If some harness file no longer type-checks against the edited tree
	// (e.g. it reaches into a representation that was refactored), drop that
	// file and keep the harnesses that still compile; the caller reports the
	// harnesses that disappeared as inconclusive.
	var dropped []string
	skip := map[string]bool{}
	for attempt := 0; attempt < 6; attempt++ {
		ld, bad, err := loadPackageOnce(dir, skip)
		if err == nil {
			ld.dropped = dropped
			droppedMu.Lock()
			droppedFiles[dir] = skip
			droppedMu.Unlock()
			return ld, nil
		}
		if len(bad) == 0 {
			return nil, err
		}
		progress := false
		for _, f := range bad {
			if !skip[f] && f != "zz_vp_support.go" {
				skip[f] = true
				dropped = append(dropped, fmt.Sprintf("%s (%v)", f, err))
				progress = true
			}
		}
		if !progress {
			return nil, err
		}
	}
	return nil, fmt.Errorf("harness files of %s do not type-check", dir)
}

func loadPackageOnce(dir string, skip map[string]bool) (*Loaded, []string, error) {
	pkgName := pkgNameFor(dir)
	srcs, err := harnessSources(dir, pkgName, false)
	if err != nil {
		return nil, nil, fmt.Errorf("reading harness sources: %w", err)
	}
	overlay := map[string][]byte{}
	for name, b := range srcs {
		if skip[name] {
			continue
		}
		overlay[filepath.Join(repoDir, dir, name)] = b
	}
	cfg := &packages.Config{
		Mode:       packages.LoadAllSyntax,
		Dir:        repoDir,
		Overlay:    overlay,
		BuildFlags: []string{"-tags=verif"},
		Env:        append(os.Environ(), "GOFLAGS=-mod=mod", "GOPROXY=off", "GOSUMDB=off", "GOTOOLCHAIN=local"),
	}
	pat := "./" + dir
	if dir == "." || dir == "" {
		pat = "."
	}
	pkgs, err := packages.Load(cfg, pat)
	if err != nil {
		return nil, nil, err
	}
	var errs []string
	badFiles := map[string]bool{}
	packages.Visit(pkgs, nil, func(p *packages.Package) {
		for _, e := range p.Errors {
			errs = append(errs, e.Error())
			// position is file:line:col
			if i := strings.Index(e.Pos, ":"); i > 0 {
				base := filepath.Base(e.Pos[:i])
				if strings.HasPrefix(base, "zz_vp_") {
					badFiles[base] = true
				}
			}
		}
	})
	if len(errs) > 0 {
		sort.Strings(errs)
		if len(errs) > 8 {
			errs = errs[:8]
		}
		var bad []string
		for f := range badFiles {
			bad = append(bad, f)
		}
		sort.Strings(bad)
		return nil, bad, fmt.Errorf("package errors: %s", strings.Join(errs, "; "))
	}
	prog, spkgs := ssautil.AllPackages(pkgs, ssa.InstantiateGenerics)
	prog.Build()
	if len(spkgs) == 0 || spkgs[0] == nil {
		return nil, nil, fmt.Errorf("no SSA package for %s", pat)
	}
	return &Loaded{prog: prog, pkg: spkgs[0], overlay: overlay, dir: dir, pkgName: pkgName}, nil, nil
}
