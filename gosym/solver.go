package main

import (
	"bufio"
	"fmt"
	"io"
	"os"
	"os/exec"
	"strings"
	"time"
)

// Solver is one long-lived SMT solver process driven over stdin/stdout.
type Solver struct {
	name    string
	cmd     *exec.Cmd
	in      io.WriteCloser
	w       *bufio.Writer
	out     *bufio.Reader
	queries int
	sat     int
	unsat   int
	unknown int
	errors  int
	dur     time.Duration
	dead    bool
}

// solverArgs returns the command line for a named back end.
func solverArgs(name string) (string, []string) {
	switch name {
	case "cvc5":
		return "cvc5", []string{"--incremental", "--lang", "smt2", "--produce-models", "--tlimit-per=20000"}
	case "z3":
		return "z3", []string{"-in", "-t:20000"}
	default:
		return "z3-new", []string{"-in", "-t:20000"}
	}
}

func NewSolver(name string) *Solver {
	bin, args := solverArgs(name)
	cmd := exec.Command(bin, args...)
	in, _ := cmd.StdinPipe()
	outp, _ := cmd.StdoutPipe()
	cmd.Stderr = cmd.Stdout
	if err := cmd.Start(); err != nil {
		panic(fmt.Sprintf("cannot start solver %s: %v", bin, err))
	}
	s := &Solver{name: name, cmd: cmd, in: in, w: bufio.NewWriterSize(in, 1<<16), out: bufio.NewReaderSize(outp, 1<<16)}
	s.send("(set-option :produce-models true)")
	if name == "cvc5" {
		s.send("(set-logic QF_LIA)")
	}
	return s
}

func (s *Solver) send(l string) {
	if s.dead {
		return
	}
	if dumpFile != nil {
		dumpFile.WriteString(l + "\n")
	}
	if _, err := s.w.WriteString(l); err != nil {
		s.dead = true
	}
	s.w.WriteByte('\n')
}

func (s *Solver) flush() {
	if err := s.w.Flush(); err != nil {
		s.dead = true
	}
}

func (s *Solver) Push()          { s.send("(push 1)") }
func (s *Solver) Pop()           { s.send("(pop 1)") }
func (s *Solver) Assert(t *Term) { s.send("(assert " + t.s + ")") }
func (s *Solver) Declare(n string, isBool bool) {
	sort := "Int"
	if isBool {
		sort = "Bool"
	}
	s.send("(declare-const " + n + " " + sort + ")")
}

// Check returns "sat", "unsat" or "unknown"; any error line is "unknown".
func (s *Solver) Check() string {
	if s.dead {
		s.unknown++
		return "unknown"
	}
	t0 := time.Now()
	s.send("(check-sat)")
	s.flush()
	line, err := s.out.ReadString('\n')
	s.dur += time.Since(t0)
	s.queries++
	if err != nil {
		s.dead = true
		s.unknown++
		return "unknown"
	}
	r := strings.TrimSpace(line)
	switch r {
	case "sat":
		s.sat++
	case "unsat":
		s.unsat++
	default:
		s.unknown++
		if strings.HasPrefix(r, "(error") {
			s.errors++
		}
		r = "unknown"
	}
	return r
}

// CheckBoth asks "context + t" and "context + not t" in one round trip.
func (s *Solver) CheckBoth(t, nt *Term) (string, string) {
	if s.dead {
		s.unknown += 2
		return "unknown", "unknown"
	}
	t0 := time.Now()
	s.send("(push 1)")
	s.send("(assert " + t.s + ")")
	s.send("(check-sat)")
	s.send("(pop 1)")
	s.send("(push 1)")
	s.send("(assert " + nt.s + ")")
	s.send("(check-sat)")
	s.send("(pop 1)")
	s.flush()
	res := [2]string{}
	for i := 0; i < 2; i++ {
		line, err := s.out.ReadString('\n')
		s.queries++
		if err != nil {
			s.dead = true
			s.unknown++
			res[i] = "unknown"
			continue
		}
		r := strings.TrimSpace(line)
		switch r {
		case "sat":
			s.sat++
		case "unsat":
			s.unsat++
		default:
			s.unknown++
			if strings.HasPrefix(r, "(error") {
				s.errors++
			}
			r = "unknown"
		}
		res[i] = r
	}
	s.dur += time.Since(t0)
	return res[0], res[1]
}

// CheckWith checks satisfiability of the current context plus t.
func (s *Solver) CheckWith(t *Term) string {
	s.Push()
	s.Assert(t)
	r := s.Check()
	s.Pop()
	return r
}

// GetValues reads the model values of the named constants (after a sat answer).
func (s *Solver) GetValues(names []string) map[string]string {
	res := map[string]string{}
	const chunk = 200
	for start := 0; start < len(names); start += chunk {
		end := start + chunk
		if end > len(names) {
			end = len(names)
		}
		part := names[start:end]
		s.send("(get-value (" + strings.Join(part, " ") + "))")
		s.flush()
		depth := 0
		var sb strings.Builder
		for {
			c, err := s.out.ReadByte()
			if err != nil {
				s.dead = true
				return res
			}
			sb.WriteByte(c)
			if c == '(' {
				depth++
			} else if c == ')' {
				depth--
				if depth == 0 {
					break
				}
			}
		}
		s.out.ReadString('\n')
		txt := sb.String()
		for _, n := range part {
			i := strings.Index(txt, "("+n+" ")
			if i < 0 {
				continue
			}
			rest := txt[i+len(n)+2:]
			d := 0
			j := 0
			for ; j < len(rest); j++ {
				if rest[j] == '(' {
					d++
				} else if rest[j] == ')' {
					if d == 0 {
						break
					}
					d--
				}
			}
			res[n] = strings.TrimSpace(rest[:j])
		}
	}
	return res
}

func (s *Solver) Close() {
	s.send("(exit)")
	s.flush()
	s.in.Close()
	done := make(chan struct{})
	go func() { s.cmd.Wait(); close(done) }()
	select {
	case <-done:
	case <-time.After(2 * time.Second):
		s.cmd.Process.Kill()
	}
}

// OneShot asks a stand-alone question: declarations + assertions, no context.
func (s *Solver) OneShot(decls []decl, asserts []*Term) string {
	s.Push()
	for _, d := range decls {
		s.Declare(d.name, d.isBool)
	}
	for _, a := range asserts {
		s.Assert(a)
	}
	r := s.Check()
	s.Pop()
	return r
}

type decl struct {
	name   string
	isBool bool
}

// parseSMTInt parses "5" or "(- 5)".
func parseSMTInt(v string) (int64, bool) {
	v = strings.TrimSpace(v)
	neg := false
	if strings.HasPrefix(v, "(-") {
		neg = true
		v = strings.TrimSpace(strings.TrimSuffix(strings.TrimPrefix(v, "(-"), ")"))
	}
	var n int64
	if v == "" {
		return 0, false
	}
	for _, c := range v {
		if c < '0' || c > '9' {
			return 0, false
		}
		n = n*10 + int64(c-'0')
	}
	if neg {
		n = -n
	}
	return n, true
}

var dumpFile = func() *os.File {
	if p := os.Getenv("VP_DUMP"); p != "" {
		f, _ := os.Create(p)
		return f
	}
	return nil
}()
