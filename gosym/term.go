package main

import (
	"strconv"
	"strings"
)

// Term is an SMT-LIB term of sort Bool or Int with constant folding.
type Term struct {
	s      string
	isBool bool
	konst  bool
	iv     int64
	bv     bool
	op     string  // "var", "not", "and", "or", "=", "<", "<=", ">", ">=", "+", "-", "*", "ite", ...
	args   []*Term // operands (structure kept for the cheap domain pre-check)
}

var (
	tTrue  = &Term{s: "true", isBool: true, konst: true, bv: true}
	tFalse = &Term{s: "false", isBool: true, konst: true, bv: false}
)

func mkBool(b bool) *Term {
	if b {
		return tTrue
	}
	return tFalse
}

var smallInts [1024]*Term

func init() {
	for i := range smallInts {
		smallInts[i] = &Term{s: strconv.Itoa(i), konst: true, iv: int64(i)}
	}
}

func mkInt(i int64) *Term {
	if i >= 0 && i < int64(len(smallInts)) {
		return smallInts[i]
	}
	s := strconv.FormatInt(i, 10)
	if i < 0 {
		s = "(- " + strconv.FormatInt(-i, 10) + ")"
	}
	return &Term{s: s, konst: true, iv: i}
}

func mkVar(name string, isBool bool) *Term { return &Term{s: name, isBool: isBool, op: "var"} }

func app(isBool bool, op string, args ...*Term) *Term {
	var sb strings.Builder
	sb.WriteByte('(')
	sb.WriteString(op)
	for _, a := range args {
		sb.WriteByte(' ')
		sb.WriteString(a.s)
	}
	sb.WriteByte(')')
	return &Term{s: sb.String(), isBool: isBool, op: op, args: args}
}

func tNot(a *Term) *Term {
	if a.konst {
		return mkBool(!a.bv)
	}
	if a.op == "not" {
		return a.args[0]
	}
	return app(true, "not", a)
}

func tAnd(a, b *Term) *Term {
	if a.konst {
		if a.bv {
			return b
		}
		return tFalse
	}
	if b.konst {
		if b.bv {
			return a
		}
		return tFalse
	}
	return app(true, "and", a, b)
}

func tOr(a, b *Term) *Term {
	if a.konst {
		if a.bv {
			return tTrue
		}
		return b
	}
	if b.konst {
		if b.bv {
			return tTrue
		}
		return a
	}
	return app(true, "or", a, b)
}

func tIte(c, a, b *Term) *Term {
	if c.konst {
		if c.bv {
			return a
		}
		return b
	}
	if a.s == b.s {
		return a
	}
	if a.isBool {
		if a.konst && b.konst {
			if a.bv && !b.bv {
				return c
			}
			if !a.bv && b.bv {
				return tNot(c)
			}
		}
	}
	return app(a.isBool, "ite", c, a, b)
}

func tEq(a, b *Term) *Term {
	if a.konst && b.konst {
		if a.isBool {
			return mkBool(a.bv == b.bv)
		}
		return mkBool(a.iv == b.iv)
	}
	if a.s == b.s {
		return tTrue
	}
	return app(true, "=", a, b)
}

func tCmp(op string, a, b *Term) *Term {
	if a.konst && b.konst {
		switch op {
		case "<":
			return mkBool(a.iv < b.iv)
		case "<=":
			return mkBool(a.iv <= b.iv)
		case ">":
			return mkBool(a.iv > b.iv)
		case ">=":
			return mkBool(a.iv >= b.iv)
		}
	}
	return app(true, op, a, b)
}

func tArith(op string, a, b *Term) *Term {
	if a.konst && b.konst {
		switch op {
		case "+":
			return mkInt(a.iv + b.iv)
		case "-":
			return mkInt(a.iv - b.iv)
		case "*":
			return mkInt(a.iv * b.iv)
		}
	}
	if op == "+" {
		if a.konst && a.iv == 0 {
			return b
		}
		if b.konst && b.iv == 0 {
			return a
		}
	}
	if op == "*" {
		if a.konst && a.iv == 1 {
			return b
		}
		if b.konst && b.iv == 1 {
			return a
		}
	}
	return app(false, op, a, b)
}
