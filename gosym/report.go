package main

import (
	"encoding/json"
	"fmt"
	"os"
	"path/filepath"
	"sort"
	"strings"
	"time"
)

type confirmed struct {
	file    string
	rf      *ReplayFile
	outcome string
}

// finish replays counterexamples and samples natively, classifies the
// results, writes the evidence file and returns the process exit code.
func finish(run *PropRun) int {
	id := run.Spec.ID
	kfs := loadKnownFindings()
	replayDir := filepath.Join(outDir(), "replays")
	os.MkdirAll(replayDir, 0o755)
	// remove stale replay files of this property
	if old, _ := filepath.Glob(filepath.Join(replayDir, id+"-*.json")); old != nil {
		for _, f := range old {
			os.Remove(f)
		}
	}
	tmpDir, _ := os.MkdirTemp("", "vpsamples-")
	defer os.RemoveAll(tmpDir)

	type job struct {
		path string
		rf   *ReplayFile
	}
	jobsByPkg := map[string][]job{}
	nFind := 0
	for _, res := range run.Results {
		perLabel := map[string]int{}
		for _, f := range res.Findings {
			key := f.Kind + "|" + f.Label
			perLabel[key]++
			if perLabel[key] > 3 || f.Script == nil {
				continue
			}
			nFind++
			rf := &ReplayFile{Property: id, Pkg: res.Spec.Pkg, Harness: f.Harness, Script: f.Script, Params: res.Params,
				Kind: f.Kind, Label: f.Label, Notes: f.Notes, Expect: "violation"}
			if f.MapNondet {
				rf.Repeat = 300
			}
			p := filepath.Join(replayDir, fmt.Sprintf("%s-%s-%d.json", id, f.Harness, nFind))
			writeJSON(p, rf)
			jobsByPkg[res.Spec.Pkg] = append(jobsByPkg[res.Spec.Pkg], job{p, rf})
		}
		// samples of completed paths: native run must pass every assertion
		ns := 0
		for _, s := range res.Samples {
			if ns >= sampleReplays(run.Tier) {
				break
			}
			ns++
			rf := &ReplayFile{Property: id, Pkg: res.Spec.Pkg, Harness: s.Harness, Script: s.Script, Params: res.Params, Expect: "pass", Notes: s.Notes}
			p := filepath.Join(tmpDir, fmt.Sprintf("%s-%s-sample-%d.json", id, s.Harness, ns))
			writeJSON(p, rf)
			jobsByPkg[res.Spec.Pkg] = append(jobsByPkg[res.Spec.Pkg], job{p, rf})
		}
	}

	// witnesses of static (non-path) obligations are replayed through a harness too
	for _, x := range run.Extra {
		if x.Witness == "" || x.WitnessHarness == "" {
			continue
		}
		nFind++
		bs := make([]int, len(x.Witness))
		for i := 0; i < len(x.Witness); i++ {
			bs[i] = int(x.Witness[i])
		}
		rf := &ReplayFile{Property: id, Pkg: x.WitnessPkg, Harness: x.WitnessHarness, Script: []ScriptEntry{{K: "s", S: bs}}, Params: map[string]int{},
			Kind: "assert", Label: x.Name + " witness", Expect: "violation"}
		p := filepath.Join(replayDir, fmt.Sprintf("%s-%s-%d.json", id, x.WitnessHarness, nFind))
		writeJSON(p, rf)
		jobsByPkg[x.WitnessPkg] = append(jobsByPkg[x.WitnessPkg], job{p, rf})
	}

	var violations, known, unconfirmed []confirmed
	tracesValidated, traceMismatch := 0, 0
	var replayErrs []string
	var modelValidation []string
	pkgs := []string{}
	for p := range jobsByPkg {
		pkgs = append(pkgs, p)
	}
	sort.Strings(pkgs)
	for _, pkg := range pkgs {
		jobs := jobsByPkg[pkg]
		files := make([]string, len(jobs))
		for i, j := range jobs {
			files[i] = j.path
		}
		var validate []string
		seenV := map[string]bool{}
		for _, res := range run.Results {
			if res.Spec.Pkg == pkg {
				for _, v := range res.Spec.Validate {
					if !seenV[v] {
						seenV[v] = true
						validate = append(validate, v)
					}
				}
			}
		}
		// findings of unbounded recursion kill the native process (a Go stack
		// overflow is fatal): replay each in a process of its own
		isolated := map[string]string{}
		var batch []string
		nIso := 0
		for i, j := range jobs {
			if j.rf.Kind == "panic" && strings.Contains(j.rf.Label, "unbounded recursion") {
				nIso++
				if nIso <= 2 {
					_, ilog, ierr := nativeReplay(pkg, []string{files[i]})
					if strings.Contains(ilog, "stack overflow") || strings.Contains(ilog, "goroutine stack exceeds") {
						isolated[files[i]] = "panic:fatal error: stack overflow (unbounded recursion)"
					} else if ierr != nil {
						isolated[files[i]] = "abort:" + ierr.Error()
					} else {
						isolated[files[i]] = "pass"
					}
				}
				continue
			}
			batch = append(batch, files[i])
		}
		outcomes, log, err := nativeReplay(pkg, batch, validate...)
		if outcomes == nil {
			outcomes = map[string]string{}
		}
		for f, oc := range isolated {
			outcomes[f] = oc
		}
		for _, v := range validate {
			line := outcomes["model:"+v]
			modelValidation = append(modelValidation, v+": "+line)
			if !strings.Contains(line, "mismatches=0 ") {
				run.Inconclusive = append(run.Inconclusive, "library model "+v+" disagrees with the real library natively: "+line)
			}
		}
		if err != nil {
			replayErrs = append(replayErrs, fmt.Sprintf("native replay in %s: %v", pkg, err))
			if len(log) > 2000 {
				log = log[len(log)-2000:]
			}
			fmt.Printf("WARNING native replay failed in %s: %v\n%s\n", pkg, err, log)
		}
		for _, j := range jobs {
			oc := outcomes[j.path]
			if j.rf.Expect == "pass" {
				switch {
				case oc == "pass":
					tracesValidated++
				case oc == "" || strings.HasPrefix(oc, "abort:"):
					// not realisable natively (e.g. an abstract key attribute the library cannot produce)
				default:
					traceMismatch++
					run.Inconclusive = append(run.Inconclusive, fmt.Sprintf("sampled path of %s does not agree natively: %s", j.rf.Harness, oc))
					fmt.Printf("WARNING sampled path of %s disagrees natively: %s\n", j.rf.Harness, oc)
				}
				continue
			}
			c := confirmed{file: j.path, rf: j.rf, outcome: oc}
			if strings.HasPrefix(oc, "fail:") || strings.HasPrefix(oc, "panic:") {
				label := j.rf.Label
				if strings.HasPrefix(oc, "fail:") {
					label = strings.TrimPrefix(oc, "fail:")
				}
				if k := matchKnown(kfs, id, j.rf.Harness, label); k != nil {
					known = append(known, c)
				} else {
					violations = append(violations, c)
				}
			} else {
				unconfirmed = append(unconfirmed, c)
			}
		}
	}

	// print verdict lines
	seenKnown := map[string]bool{}
	for _, c := range known {
		label := c.rf.Label
		if strings.HasPrefix(c.outcome, "fail:") {
			label = strings.TrimPrefix(c.outcome, "fail:")
		}
		k := matchKnown(kfs, id, c.rf.Harness, label)
		if !seenKnown[k.What] {
			seenKnown[k.What] = true
			fmt.Printf("KNOWN-FINDING: property=%s %s\n", id, k.What)
		}
		os.Remove(c.file)
	}
	for _, c := range unconfirmed {
		fmt.Printf("WARNING unconfirmed counterexample (does not reproduce natively: %q) harness=%s label=%q - obligation inconclusive\n", c.outcome, c.rf.Harness, c.rf.Label)
		run.Inconclusive = append(run.Inconclusive, fmt.Sprintf("unconfirmed counterexample in %s: %s (native outcome %q)", c.rf.Harness, c.rf.Label, c.outcome))
		if os.Getenv("VP_KEEP") == "" {
			os.Remove(c.file)
		}
	}
	extraViol := 0
	for _, x := range run.Extra {
		for _, v := range x.Violations {
			extraViol++
			p := filepath.Join(replayDir, fmt.Sprintf("%s-%s-%d.json", id, x.Name, extraViol))
			writeJSON(p, map[string]any{"property": id, "obligation": x.Name, "violation": v})
			fmt.Printf("VIOLATION property=%s replay=%s\n", id, p)
			fmt.Printf("    %s: %s\n", x.Name, v)
		}
		run.Inconclusive = append(run.Inconclusive, x.Inconclusive...)
	}
	for _, c := range violations {
		fmt.Printf("VIOLATION property=%s replay=%s\n", id, c.file)
		fmt.Printf("    harness=%s %s  (native: %s)\n", c.rf.Harness, c.rf.Label, c.outcome)
	}
	for _, m := range run.Inconclusive {
		fmt.Printf("INCONCLUSIVE property=%s %s\n", id, m)
	}

	run.ModelValidation = modelValidation
	writeEvidence(run, tracesValidated, traceMismatch, len(violations)+extraViol, len(known), len(unconfirmed), replayErrs)
	if len(violations)+extraViol > 0 {
		return 1
	}
	fmt.Printf("OK property=%s tier=%s (%s)\n", id, run.Tier, summaryLine(run))
	return 0
}

func sampleReplays(tier string) int {
	if tier == "thorough" {
		return 12
	}
	return 4
}

func summaryLine(run *PropRun) string {
	var paths, queries int
	for _, r := range run.Results {
		paths += r.Stats.Completed
		queries += r.Stats.FeasQueries + r.Stats.AssertQueries
	}
	return fmt.Sprintf("%d harnesses, %d completed paths, %d solver queries, %.1fs", len(run.Results), paths, queries, time.Since(run.Started).Seconds())
}

func writeJSON(path string, v any) {
	b, _ := json.MarshalIndent(v, "", " ")
	os.WriteFile(path, append(b, '\n'), 0o644)
}

func writeEvidence(run *PropRun, tracesValidated, traceMismatch, nviol, nknown, nunconf int, replayErrs []string) {
	id := run.Spec.ID
	var tot Stats
	funcs := map[string]bool{}
	harnesses := []map[string]any{}
	samples := []any{}
	inconcl := append([]string{}, run.Inconclusive...)
	for _, r := range run.Results {
		tot.add(r.Stats)
		for _, f := range r.Funcs {
			if !strings.Contains(f, ".vp") && !strings.Contains(f, "$vp") {
				funcs[f] = true
			}
		}
		for _, k := range sortedKeys(r.Inconcl) {
			inconcl = append(inconcl, fmt.Sprintf("%s: %s (x%d)", r.Spec.Name, k, r.Inconcl[k]))
		}
		if r.Stats.BudgetExhausted {
			inconcl = append(inconcl, fmt.Sprintf("%s: time budget exhausted before all paths were explored (reduced coverage, not a success claim for the remainder)", r.Spec.Name))
		}
		// vacuity: assertion sites reached
		harnesses = append(harnesses, map[string]any{
			"harness": r.Spec.Name, "package": r.Spec.Pkg, "decides": r.Spec.What,
			"bounds": r.Params, "unwind": r.Unwind, "go_map_iteration": mapOrderNote(r.Spec.FixedMapOrder),
			"paths_completed": r.Stats.Completed, "paths_assume_killed": r.Stats.AssumeKilled, "paths_infeasible": r.Stats.Infeasible,
			"paths_outside_model": r.Stats.Outside, "unwinding_failures": r.Stats.Unwind, "unsupported": r.Stats.Unsupported,
			"solver_unknown_paths": r.Stats.Unknown, "forks": r.Stats.Forks,
			"assertions_checked": r.Stats.AssertsChecked, "assertions_failed": r.Stats.AssertsFailed, "panics_found": r.Stats.Panics,
			"assert_sites_reached": r.Asserts, "cover_sites": r.Covers,
			"queries": map[string]int{"feasibility": r.Stats.FeasQueries, "assertion": r.Stats.AssertQueries, "sat": r.Stats.Sat, "unsat": r.Stats.Unsat, "unknown": r.Stats.UnknownQ,
				"second_solver": r.Stats.Second, "second_solver_disagree": r.Stats.SecondDisagree},
			"solver_s": r.Stats.SolverSec, "second_solver_s": r.Stats.Solver2Sec, "wall_s": r.WallS,
			"counterexamples_by_label": r.FindCount, "load_error": r.LoadErr,
		})
		for i, s := range r.Samples {
			if i >= 2 {
				break
			}
			samples = append(samples, map[string]any{"harness": s.Harness, "assignment": s.Script, "notes": s.Notes})
		}
	}
	for _, x := range run.Extra {
		samples = append(samples, map[string]any{"obligation": x.Name, "detail": x.Detail})
	}
	fl := []string{}
	for f := range funcs {
		fl = append(fl, f)
	}
	sort.Strings(fl)
	states := tot.Completed
	trans := tot.Forks
	for _, x := range run.Extra {
		states += x.Obligations
		trans += x.Discharged
	}
	if len(samples) == 0 {
		samples = append(samples, map[string]any{"note": "no path completed"})
	}
	cov := map[string]any{
		"states":                        states,
		"transitions":                   trans,
		"traces_validated_against_impl": tracesValidated,
		"samples":                       samples,
		"explanation":                   "states = completed symbolic paths (each decided for all values of its symbolic inputs), transitions = fork decisions; bounded symbolic execution of the repository's SSA with an SMT solver deciding every branch and assertion",
		"functions_encoded":             fl,
		"harnesses":                     harnesses,
		"extra_obligations":             run.Extra,
		"outside_bounds":                run.Spec.Outside,
		"queries": map[string]int{"feasibility": tot.FeasQueries, "assertion": tot.AssertQueries, "sat": tot.Sat, "unsat": tot.Unsat, "unknown": tot.UnknownQ,
			"second_solver": tot.Second, "second_solver_disagree": tot.SecondDisagree},
		"solver_s":                    tot.SolverSec,
		"second_solver_s":             tot.Solver2Sec,
		"inconclusive":                inconcl,
		"sampled_paths_disagreeing":   traceMismatch,
		"known_findings_reproduced":   nknown,
		"unconfirmed_counterexamples": nunconf,
		"native_replay_errors":        replayErrs,
		"model_validation":            run.ModelValidation,
		"exhaustive":                  false,
	}
	ev := map[string]any{
		"property_id": id,
		"tier":        run.Tier,
		"seed":        run.Seed,
		"level":       "model_checking",
		"coverage":    cov,
		"assumptions": run.Spec.Assumptions,
		"wall_s":      time.Since(run.Started).Seconds(),
		"violations":  nviol,
	}
	os.MkdirAll(filepath.Join(outDir(), "evidence"), 0o755)
	writeJSON(filepath.Join(outDir(), "evidence", id+".json"), ev)
}

func jsonUnmarshal(b []byte, v any) error { return json.Unmarshal(b, v) }

func mapOrderNote(fixed bool) string {
	if fixed {
		return "insertion order only (order-insensitivity of this code is decided by another harness of the property family)"
	}
	return "all orders for maps of <= 4 entries, all rotations of the insertion order beyond; entries inserted during iteration produced or skipped"
}

// outDir: where evidence and replay files go (VERIF_OUT redirects them, used
// when the checks are tried against a scratch copy carrying a seeded change).
func outDir() string { return envOr("VERIF_OUT", verifDir) }
