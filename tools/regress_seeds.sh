#!/bin/bash
# usage: tools/regress_seeds.sh [name-substring]
# Re-runs, for every stored seeded change, the quick check of the property it
# breaks (and, where the record says a related check reports it, that check)
# against a scratch worktree carrying the change. Prints one line per change.
set -u
cd "$(dirname "$0")/.."
wt=${SEED_WT:-/tmp/seedtest}
[ -d "$wt" ] || git -C /repo worktree add --detach "$wt" HEAD >/dev/null 2>&1
filter=${1:-}
for d in seeded/*${filter}*/; do
  name=$(basename "$d")
  prop=$(python3 -c "import json;print(json.load(open('$d/meta.json'))['property_broken'])")
  # properties named in detected_by as "Cnn quick" / "Cnn `harness`"
  props=$(python3 - "$d" <<'PY'
import json,re,sys
m=json.load(open(sys.argv[1]+'/meta.json'))
ps=[m['property_broken']]
for p in re.findall(r'\bC\d\d\b', m.get('detected_by','')):
    if p not in ps: ps.append(p)
print(' '.join(ps[:4]))
PY
)
  hit=""
  for p in $props; do
    out=$(timeout 1800 tools/try_seed.sh "$PWD/$d/patch.diff" "$p" 2>&1)
    if echo "$out" | grep -q "VIOLATION property=$p"; then hit="$hit $p"; break; fi
    if echo "$out" | grep -q "PATCH DOES NOT APPLY"; then hit="PATCH-DOES-NOT-APPLY"; break; fi
  done
  det=$(python3 -c "import json;print(json.load(open('$d/meta.json')).get('detection',''))")
  if [ -z "$hit" ] && { [ "$det" = "not-reported" ] || [ "$det" = "inconclusive" ]; }; then echo "known-unreported  $name ($det, see meta.json)";
  elif [ -z "$hit" ]; then echo "MISSED  $name (tried: $props)"; else echo "caught  $name by$hit"; fi
done
