#!/bin/bash
# usage: [VPARGS="-workers 4 -harness name"] tools/try_seed.sh <patch.diff> <property> [tier]
# Applies a seeded change to a scratch worktree of /repo (never /repo itself
# while background runs are using it), runs the property's check against it
# with evidence redirected, and restores the worktree.
set -u
patch=$1; prop=$2; tier=${3:-quick}
wt=${SEED_WT:-/tmp/seedtest}
git -C "$wt" checkout -q -- . && git -C "$wt" clean -qfd
git -C "$wt" apply "$patch" || { echo "PATCH DOES NOT APPLY"; exit 3; }
out=$(mktemp -d /tmp/seedout-XXXX)
VERIF_REPO="$wt" VERIF_OUT="$out" /verif/bin/vpcheck -property "$prop" -tier "$tier" ${VPARGS:-} 2>&1 | grep -v "^\[" | sed 's/(native.*//' | sort | uniq -c | sort -rn | head -12
code=${PIPESTATUS[0]}
git -C "$wt" checkout -q -- . && git -C "$wt" clean -qfd
rm -rf "$out"
echo "exit=$code"
