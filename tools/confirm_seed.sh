#!/bin/bash
# usage: tools/confirm_seed.sh <seed-out-dir>   (patch.diff, zz_seed_demo_test.go, demo_pkg.txt)
# Confirms in a scratch worktree that the change compiles, passes the existing
# suite, and that the demo fails with it and passes without it.
set -u
src=$1
wt=${SEED_WT:-/tmp/seedtest}
export GOFLAGS=-mod=mod GOPROXY=off GOSUMDB=off GOTOOLCHAIN=local
pkg=$(tr -d ' \n' < "$src/demo_pkg.txt")
git -C "$wt" checkout -q -- . && git -C "$wt" clean -qfd
git -C "$wt" apply "$src/patch.diff" || { echo "RESULT patch_applies=no"; exit 3; }
( cd "$wt" && go build ./... ) >/dev/null 2>&1 && build=ok || build=FAIL
suite=$( cd "$wt" && go test -count=1 ./... 2>&1 | grep -c "^FAIL\|^---" )
cp "$src/zz_seed_demo_test.go" "$wt/$pkg/zz_seed_demo_test.go"
with=$( cd "$wt" && timeout 300 go test -count=1 -run 'Seed' "./$pkg" 2>&1 | tail -1 | cut -c1-60 )
git -C "$wt" apply -R "$src/patch.diff"
without=$( cd "$wt" && timeout 300 go test -count=1 -run 'Seed' "./$pkg" 2>&1 | tail -1 | cut -c1-60 )
git -C "$wt" checkout -q -- . && git -C "$wt" clean -qfd
echo "RESULT patch_applies=yes build=$build existing_suite_failures=$suite demo_with_change=[$with] demo_without_change=[$without]"
