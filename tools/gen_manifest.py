#!/usr/bin/env python3
"""Regenerates /verif/MANIFEST.json from the table below (claims) and the
not-applicable list. Run after changing what is claimed."""
import json, os

ROOT = os.path.dirname(os.path.dirname(os.path.abspath(__file__)))
TECH = "SMT-based bounded symbolic execution of the repository's go/ssa (gosym: z3 decides every branch and assertion, cvc5 re-checks unsat verdicts in the thorough tier), counterexamples replayed natively through the same harness"

CLAIMS = {
 "C04": dict(
  text="Bounded symbolic execution of (*Pipeline).Interpolate, every per-type interpolate method and the generic walkers (interpolateAny/Slice/Map/MapValues/OrderedMap) from the current SSA. A populated instance of every step kind with a distinct string in every string position is run through the real envInterpolator (the interpolate library replaced by a natively validated Go model) and each position must equal the single-pass expansion; the walkers are run with a marking transformer (injective, not idempotent) on arbitrary small trees against an independently built expected tree. Go's map-iteration nondeterminism (all orders; entries inserted during iteration produced or skipped) is explored as fork choices, which is what exposes order-dependent double expansion that a native run shows only on large maps.",
  note="Bounds: one instance per step kind, maps <= 2 entries, trees of depth 1 (quick) / 2 (thorough), strings of <= 1 symbolic byte plus concrete tags; the walkers run with two transformers (append-a-marker, and a byte shift whose renames chain: the image of one key can be the original spelling of another). Trusted: gosym's Go semantics (sampled paths replayed natively), vpModelInterpolate for buildkite/interpolate (validated natively on ~2M strings per run). Outside: brace operations of the interpolate library, deeper trees, shared subtrees, post-expansion key collisions.",
  ref="DESIGN.md §5 C04"),
 "C05": dict(
  text="Bounded symbolic execution of the real SSA of ordered.Map (Set, Replace, Delete, compact, Len, IsZero, Get, Contains, Range, ToMap, ToMapRecursive, MarshalJSON, MarshalYAML, Equal): an SMT solver decides every branch and assertion, so each result holds for all keys, values, tombstone patterns and operation arguments within the slot bound. The mutators are checked as one inductive step from an arbitrary state satisfying the representation invariant (which is exactly the set of reachable states), so histories of any length are covered up to the slot bound; a bounded-history harness through the public API cross-checks the invariant.",
  note="Bounds: <=4 (quick) / <=6 (thorough) slots, Equal 3+3 / 4+4, histories of 3 / 5 operations, unwinding assertions on. Trusted: gosym's Go semantics (sampled paths replayed natively), cmp.Equal on scalars is ==, json/yaml scalar encoding modelled abstractly. Outside: larger maps, non-scalar values, byte-level JSON/YAML output.",
  ref="DESIGN.md §5 C05"),
 "C07": dict(
  text="Bounded symbolic execution of DecodeYAML/decodeYAML/rangeYAMLMap(Impl)/canonicalMapKey on symbolic yaml.Node graphs (what yaml.v3's parser hands over): merge chains and arbitrary small graphs with value aliases (including self and mutual cycles), aliases inside sequences, aliases as keys, merges by alias / sequence of aliases / inline mapping. The oracle is an independent recursive reference of the YAML merge rules plus a value-cycle classification: error iff a value cycle exists, otherwise content and key order equal the reference and every alias expands to a distinct object.",
  note="Bounds: root <= 2 entries, one anchored mapping of 1 entry (which may be a nested mapping merging or aliasing its ancestor) or 2 entries (quick); thorough adds two anchors; keys and anchor names of 0/1 symbolic bytes. Exceeding the call-depth bound (400) on these finite graphs is reported as non-termination and confirmed natively (stack overflow in an isolated process). Trusted: yaml.Node.Decode on !!str scalars yields Value. Outside: the yaml.v3 scanner/parser (bytes -> nodes), non-string key tags, expansion-size blow-up, duplicate explicit keys.",
  ref="DESIGN.md §5 C07"),
 "C08": dict(
  text="Bounded symbolic execution of the decode side (DecodeYAML key order incl. merge position, Map[string,string].UnmarshalOrdered, Plugins.UnmarshalOrdered on the one-mapping form, Pipeline.UnmarshalOrdered for the env block) and the ordered emitters (Map.MarshalJSON segment order, Map.MarshalYAML Content order, Pipeline.MarshalJSON env member order in the JSON data model) for every key set within the bound; a programmatically built map survives node-level YAML encode -> decode with ordered.Equal.",
  note="Bounds: <= 3 (quick) / 5 (thorough) entries, keys of 0-2 symbolic bytes (empty key, coinciding prefixes). The engine explores every Go-map iteration order, so any routing through a Go map is visible with two entries. Outside: token order in bytes emitted by encoding/json and yaml.v3, quoting of keys.",
  ref="DESIGN.md §5 C08"),
 "C10": dict(
  text="Bounded symbolic execution of (*Pipeline).Interpolate / interpolateEnvBlock with ordered.Map.Range/Replace and internal/env.Env against the in-order fold of the property statement: symbolic env block entries drawn from the interpolation sub-grammar (literal, $V, ${V}, $$V, names built by expansion), symbolic caller environment, both precedence settings, case-sensitive and case-insensitive caller env, a later step string.",
  note="Bounds: 2 entries, <= 1 caller variable, one-letter names and values over {A,B,a} (+x), so expanded names hit caller variables and case folding matters; thorough adds the escaped and braced value shapes; a second harness covers names that collide after expansion (3 / 4 entries). Trusted: vpModelInterpolate (natively validated), strings.ToUpper modelled bytewise. Outside: brace operations, post-expansion name collisions, longer blocks.",
  ref="DESIGN.md §5 C10"),
 "C11": dict(
  text="Bounded symbolic execution of (*Matrix).validatePermutation, (*MatrixAdjustment).ShouldSkip and (*CommandStep).InterpolateMatrixPermutation against the property sentence written as an independent predicate over lists (the oracle never ranges over a Go map), for every matrix, adjustment list and permutation within the bounds and every Go map iteration order; a rejected permutation leaves command, label, key, env, plugins and matrix untouched.",
  note="Bounds: (<=2 dims, <=1 adj) and (<=1 dim, <=2 adj) quick; (<=2 dims, <=2 adj) and (<=1 dim, <=3 adj) thorough; value lists of 0-2 values, tuple arity within one of the number of dimensions, every skip kind; c11_tuple: two dimensions with values of 1 or 5 (7) symbolic bytes over the characters that occur as constants in step_command_matrix.go (tuple equality must be per dimension). Outside: nil value lists (`dim: null`), larger matrices.",
  ref="DESIGN.md §5 C11"),
 "C12": dict(
  text="Three obligations. (1) Unbounded: the token pattern found in the package initialiser's SSA is translated to an SMT RegLan and proved language-equivalent to the property's token grammar (z3 5.1.0 and cvc5; a witness is replayed through the real Transform). (2) Bounded symbolic execution of newMatrixInterpolator/Transform (regexp executed by a leftmost-first backtracking matcher over the code's own pattern) on literal-token-literal inputs with dangerous literals against a hand-written scanner of the property grammar: single pass, error iff unknown dimension. (3) Field scope of InterpolateMatrixPermutation on a command step.",
  note="Bounds: 1 (quick) / 2 (thorough) tokens, literals of <= 1 byte over {}m.a and space, dimension names of 1 / 2 bytes, <= 2 permutation entries incl. token-shaped values. ASCII only. Trusted: the engine's regexp matcher (validated by native replay of sampled paths).",
  ref="DESIGN.md §5 C12"),
 "C15": dict(
  text="Bounded symbolic execution of stepByType and NewScalarStep on every lower-case byte string of length <= 8, stepByKeyInference over all 2^10 subsets of the kind keys plus an arbitrary extra key, and stepFromMap end to end through the reflective unmarshaler (type absent / string / non-string, kind keys with minimal values, an ill-typed plugins value, extra key), each against the rule table restated in the harness; sentinel errors checked with errors.Is through the real warning tree.",
  note="Bounds: strings <= 8 bytes over [a-z]; <= 2 (quick) / 4 (thorough) kind keys at once end to end. Trusted: reflect modelled over the engine's typed heap from go/types of the current source; fmt.Errorf records %w operands.",
  ref="DESIGN.md §5 C15"),
 "C17": dict(
  text="Bounded symbolic execution of (*Plugin).FullSource (and MarshalYAML's key) on every source up to the length bound over [ab0._/-#:@\\\\] inside the documented forms, against the documented rules written as whole-string predicates; FullSource(FullSource(s)) == FullSource(s). net/url.Parse and path.Join are replaced by Go-written models that are validated natively against the real libraries on every run.",
  note="Bounds: every source of <= 8 (quick) / 12 (thorough) bytes, plus sources assembled from symbolic pieces and the string constants found in FullSource's current SSA (c17_dictionary: suffixes, hosts, separators at any length). Trusted: vpModelURLParse and vpModelPathJoin (0 mismatches on 0.5M-3M strings per run). Outside: longer sources, percent-encoding, query strings, refs/names with empty or dot-only components (outside the property).",
  ref="DESIGN.md §5 C17"),
 "C18": dict(
  text="Bounded symbolic execution of jwkutil.Validate, concat, the allow-list tables (read from the package initialiser) and LoadKey/fromIdOrOnlyKey on abstract jwk.Key / jwk.Set objects with symbolic attributes: structural validity, algorithm presence, algorithm kind (signature / key-encryption / invalid) with a symbolic name of <= 8 bytes, symbolic key type; key sets of <= 2 / 3 keys with symbolic ids and a symbolic requested id. Counterexamples are replayed with real jwx keys.",
  note="Partial: key generation (NewKeyPair) and `what one key signs verifies with its public half and no other` are real cryptography and are not claimed. Trusted: the abstract key/set contract; os.Open/io.ReadAll/jwk.Parse stubbed to deliver the abstract set.",
  ref="DESIGN.md §5 C18"),
 "C19": dict(
  text="Absence of writes, for every state within the bounds: representation-level frame checks around ordered.Map observers (Len, IsZero, Get, Contains, Range, ToMap, Equal, MarshalJSON, MarshalYAML) and around Plugin.FullSource/Marshal*, Matrix.validatePermutation/Marshal*/IsEmpty and CommandStep.MarshalJSON, plus an SSA pass over every function (instantiations and closures included) of the five packages showing that none outside the package initialisers stores to, or through, a package-level variable. A data race needs a write, so read-only sharing and use of distinct objects are race-free for every schedule, modulo third-party internals.",
  note="Partial by construction: goroutine interleavings are not symbolic variables here and the race detector is not the instrument; the claim is `no write`, not an exploration of schedules. Sign/Verify not writing the step or env is decided under C06. Stores in functions that use sync/atomic primitives are reported as inconclusive, not as violations.",
  ref="DESIGN.md §5 C19"),
 "C01": dict(
  text="Bounded symbolic execution of signature.Sign, Verify, ValuesForFields, SignedFields, requireKeys, canonicalPayload, EmptyToNil* and the Plugin/Matrix marshalers: a step is signed, then a presented world that differs from the signed one in exactly one of 23 ways (command, step env, plugin sequence, matrix, repository URL, signed pipeline variable, algorithm string, signed-field list, signature value forged or spliced from another step, another key) is verified and must be rejected; the untouched world (with unrelated env variables) must verify. A second configuration signs a matrix that mixes the anonymous dimension with a named one and an adjustment. Strings are symbolic. JWK keys for EdDSA/ES512/PS512 and an ES256 crypto.Signer. Counterexamples are replayed with real generated keys.",
  note="Partial: decides Verify's own logic (payload rebuilt from the presented step, mandatory field set, requireKeys, env shadowing, algorithm bound into the payload) under an ideal signature scheme and an injective canonical encoding. Unforgeability of the real algorithms and byte-level injectivity of json.Marshal+JCS are assumed, not shown. One step shape (2 plugins, 1 env entry), 1-byte symbolic strings; Go map orders fixed in this harness (C14 varies them).",
  ref="DESIGN.md §5 C01"),
 "C03": dict(
  text="Bounded symbolic execution of the decode side (Pipeline/Steps/CommandStep/GroupStep/Plugins/Matrix/MatrixSetup/MatrixAdjustmentWith/Cache.UnmarshalOrdered, the reflective unmarshaler) and the emit side (inlineFriendlyMarshalJSON, isEmptyValue and every MarshalJSON/MarshalYAML method reached) on generic document trees: every combination of key/id/identifier, label/name, command/commands, each plugins / matrix / cache shorthand, env scalars, all step kinds, groups, pipeline-level extras, unknown extra keys with nested values of every scalar kind. The JSON data model of the marshalled pipeline must be the documented normal form with every other key exactly once and unchanged.",
  note="Partial: on the data model - JSON as an abstract tree, YAML as the node tree of a model of yaml.v3's encoder dispatch (a second configuration checks that the YAML output carries the same data). Not claimed: byte-level rendering and scalar spelling, input syntax variants (gone once nodes exist; resolver is C07), extra keys inside `signature`. One listed known finding (both `command` and `commands`). Bounds: one step per document, <= 1 (quick) / 2 (thorough) extra keys, 1-byte symbolic strings.",
  ref="DESIGN.md §5 C03"),
 "C06": dict(
  text="Bounded symbolic execution of signature.SignSteps, Sign, configureOptions, SignedFields, ValuesForFields, Verify, requireKeys, canonicalPayload over symbolic step lists (command, wait, input, trigger, group, unknown; groups nested), pipeline env / step env overlaps and all four key kinds: refusal iff an unknown step occurs anywhere; otherwise every command step at every depth carries a signature naming the key's algorithm, its signed-field list is exactly the sorted expected list, it verifies (env extended by an unrelated variable), and nothing but Signature fields is written (step scalars, step env, plugins, caller's env map).",
  note="Bounds: two steps per level at nesting depth 0 (quick) / 1 (thorough) with Go map orders fixed, one step per level at depth 2 / 3 with all map orders, and two steps per level inside groups of depth 1 / 2 with minimal command steps (every position of an unknown step relative to groups). Real cryptography idealised (replays use real keys).",
  ref="DESIGN.md §5 C06"),
 "C13": dict(
  text="Bounded symbolic execution of ordered.Unmarshal into Pipeline (Pipeline/Steps/GroupStep.UnmarshalOrdered, unmarshalStep, stepFromMap, NewScalarStep, the reflective unmarshaler, warning.*) on decoded documents whose step sequence mixes valid and invalid scalars, well-formed maps of every kind, ill-typed and unknown-type maps, ints, nulls and (nested) groups, for all four top-level shapes: no panic; a usable result has a non-nil list with exactly one non-nil step per entry in order, recursively in groups; fallbacks hold the original entry verbatim; the warning tree has exactly one leaf per fallback; the result marshals to JSON.",
  note="Partial: the structural half only. `For any byte sequence ... bounded time ... never panics` through yaml.v3's scanner/parser is not encodable and not claimed. YAML marshalling of the result is checked on the node data model (incl. yaml.v3's panic on an inline key that conflicts with a struct field). Bounds: <= 2 (quick) / 3 (thorough) entries without nesting, <= 1 / 2 entries with groups of <= 2 children.",
  ref="DESIGN.md §5 C13"),
 "C14": dict(
  text="Bounded symbolic execution of Sign's payload construction (SignedFields, env:: namespacing, canonicalPayload, EmptyToNil*, Plugin.MarshalJSON/FullSource, Matrix.MarshalJSON) observed where the property observes it - the payload handed to the Logger under WithDebugSigning(true) - for pairs of worlds with symbolic strings: the payloads must be equal for re-orderings (every Go map iteration order is a fork choice), nil vs empty env/plugins/matrix/config and short vs canonical plugin source, and must differ for 18 kinds of single-field and boundary-shifting differences (incl. matrices mixing the anonymous and named dimensions, and an empty-valued variable versus no variable); a second configuration observes the payload Verify rebuilds from the presented world.",
  note="Partial: on the JSON data model. json.Marshal+jcs.Transform are assumed to be a function of, and injective on, the data model; number spelling, escaping and UTF-16 key ordering of the byte output are the libraries' and are not covered.",
  ref="DESIGN.md §5 C14"),
 "C16": dict(
  text="Bounded symbolic execution of ordered.Unmarshal / decodeInto / unmarshalScalar / Map.UnmarshalOrdered through reflect (modelled over the engine's typed heap from go/types of the current source) into a family of tagged struct types: plain, aliased, omitempty, `-`, untagged and unexported fields, slices, maps, nested and pointer-to-struct fields, inline map, ordered inline *MapSA and inline pointer-to-struct. Each named key is present / null / absent and free keys of 0-2 symbolic bytes are added; every key must land in exactly one destination, absent keys leave fields untouched, null zeroes them, leftovers keep document order.",
  note="Partial: the partition rule only. `Equals what yaml.Node.Decode produces` needs yaml.v3's reflective decoder and is not claimed. Bounds: 8 named keys x 3 states plus <= 1 (quick) / 2 (thorough) free keys, source maps with or without an un-compacted deleted entry; every scalar kind into every scalar-accepting destination.",
  ref="DESIGN.md §5 C16"),
 "C02": dict(
  text="Composition decided by bounded symbolic execution: SignSteps on a symbolic command step from an option lattice (command incl. multi-line, env nil/empty/populated, plugins nil/empty/short/canonical source with every scalar kind in configs, matrix nil/empty/simple/named with adjustments/only adjustments, pipeline env with a shadowed variable, all four key kinds) together with wait and group steps, then json.Marshal, re-parse both ways (CommandStep.UnmarshalJSON and the whole-pipeline path, JSON read as YAML), then Verify with the pipeline env plus an unrelated variable: the signature record is unchanged and verifies, also for the step inside the group.",
  note="Partial: both legs on the data model (JSON: abstract JSON tree; YAML: node tree produced by a model of yaml.v3's encoder dispatch - yaml tags, omitempty/IsZero, inline maps, MarshalYAML methods) under the ideal signature scheme. Not claimed: the spelling and re-typing of scalars in real bytes (emitters/scanners of yaml.v3 and encoding/json) and real signatures. Go map orders fixed in these harnesses (C14 varies them). Found the setup: null (JSON) and setup: {} (YAML) defects before their repair; counterexamples were confirmed natively with real yaml.v3 and real keys.",
  ref="DESIGN.md §5 C02"),
 "C09": dict(
  text="Bounded symbolic execution of the JSON leg on the JSON data model: for a parsed command step with every optional part nil / empty / populated (key, label, command, env, signature, extras; plugins with every config shape; every Matrix and Cache marshal shape), json.Marshal (abstract, real MarshalJSON methods executed) -> CommandStep.UnmarshalJSON (yaml.Unmarshal modelled, then the real DecodeYAML and UnmarshalOrdered code) must succeed, give the same fields up to nil-vs-empty and canonical plugin sources, and marshal again to the same data; the same for a small pipeline through the whole-document path.",
  note="Partial: both legs on the data model - the YAML leg as a node tree produced by a model of yaml.v3's encoder dispatch (validated by native replay of sampled paths through the real library), compared through the JSON data model with nil and empty containers identified. Not claimed: scalar re-typing by the YAML scanner/emitter in real bytes and byte-identical repeated marshalling. One listed known finding (alias kept next to an empty primary key). Go map orders fixed (marshalled maps are compared as sets).",
  ref="DESIGN.md §5 C09"),
}

NOT_APPLICABLE = {}

def main():
    props = [json.loads(l)["id"] for l in open(os.path.join(ROOT, "properties.jsonl"))]
    extra_na = json.load(open(os.path.join(ROOT, "tools", "not_applicable.json")))
    checks = []
    for pid in props:
        if pid not in CLAIMS:
            continue
        c = CLAIMS[pid]
        checks.append({
            "property_id": pid,
            "quick_cmd": f"bin/vpcheck -property {pid} -tier quick",
            "thorough_cmd": f"bin/vpcheck -property {pid} -tier thorough",
            "evidence_file": f"evidence/{pid}.json",
            "replay_cmd_template": "bin/vpcheck -replay {path}",
            "engine": "gosym",
            "level_claimed": {"category": "model_checking", "text": c["text"], "design_ref": c["ref"]},
            "level_note": c["note"],
            "technique": c.get("technique", TECH),
        })
    na = [{"property_id": p, "reason": extra_na.get(p, "check not built yet in this session; planned per DESIGN.md §5 (will be replaced by a claim or a definitive reason)")} for p in props if p not in CLAIMS]
    m = {
        "version": 1,
        "setup_cmd": "cd gosym && GOFLAGS=-mod=mod GOPROXY=off GOSUMDB=off GOTOOLCHAIN=local go build -o ../bin/vpcheck .",
        "hooks": {"guard": "verif", "enable": "harness sources (//go:build verif) are injected as overlay files by bin/vpcheck (go/packages Overlay for the encoder, `go test -tags verif -overlay` for native replay); nothing is written into /repo", "baseline_off_cmd": "cd /repo && GOFLAGS=-mod=mod go test -vet=off -count=1 ./...", "source_commits": [], "add_only": True},
        "engines": [{"name": "gosym", "path": "gosym/", "serves_properties": sorted(CLAIMS), "kind_free_text": "bounded symbolic executor for Go written here: go/ssa (x/tools v0.29.0, generics instantiated) interpreted path-wise with QF_LIA path conditions; z3 5.1.0 decides every branch and assertion (cvc5 re-checks every unsat verdict in the thorough tier); counterexamples and sampled paths are replayed natively through the same harness via go test -overlay"}],
        "checks": checks,
        "notes": "All checks rebuild their encoding from /repo's working tree on every run (packages are loaded with an in-memory overlay). Exit 1 + VIOLATION only for a counterexample that reproduces natively against the real build; unsupported constructs, solver unknowns and non-reproducing counterexamples are printed as INCONCLUSIVE and recorded in the evidence.",
        "not_applicable": na,
    }
    json.dump(m, open(os.path.join(ROOT, "MANIFEST.json"), "w"), indent=1)
    print("claimed:", sorted(CLAIMS), "not applicable:", [x["property_id"] for x in na])

if __name__ == "__main__":
    main()
