//go:build verif

package signature

import (
	"maps"
	"context"

	"github.com/buildkite/go-pipeline"
	"github.com/buildkite/go-pipeline/ordered"
)

// C01 - any semantic change to signed step content makes verification fail
// (Verify's own logic under the ideal signature scheme and an injective
// canonical encoding).

func init() {
	vpRegister("c01_tamper", vpH_c01_tamper)
	vpRegister("c01_fields", vpH_c01_fields)
	vpRegister("c01_legacy", vpH_c01_legacy)
	vpRegister("c01_config", vpH_c01_config)
	vpRegister("c01_inplace", vpH_c01_inplace)
	vpRegister("c01_source", vpH_c01_source)
}

// The mandatory-field rule on its own: whatever the signed-field list looks
// like (any order, repeats, env:: entries), the step hands out values exactly
// when all five mandatory fields occur in it.
func vpH_c01_fields() {
	names := []string{"command", "env", "plugins", "matrix", "repository_url", "env::P"}
	n := vpInt(0, vpParam("fields"))
	var fields []string
	var has [6]bool
	for i := 0; i < n; i++ {
		j := vpInt(0, 5)
		fields = append(fields, names[j])
		has[j] = true
	}
	c := &CommandStepWithInvariants{CommandStep: pipeline.CommandStep{Command: "c"}, RepositoryURL: "r"}
	vals, err := c.ValuesForFields(fields)
	if has[0] && has[1] && has[2] && has[3] && has[4] {
		ok := err == nil
		for _, f := range names[:5] {
			if _, present := vals[f]; !present {
				ok = false
			}
		}
		vpAssert(ok, "a field list that covers the five mandatory fields (any order, repeats, env:: entries) yields their values")
	} else {
		vpAssert(err != nil, "a field list that lacks a mandatory field is refused however it is padded")
	}
}

// vpLegacyFielder signs like an older signer that did not cover one of the
// fields that are mandatory today.
type vpLegacyFielder struct {
	*CommandStepWithInvariants
	omit string
}

func (l vpLegacyFielder) SignedFields() (map[string]any, error) {
	m, err := l.CommandStepWithInvariants.SignedFields()
	if err != nil {
		return nil, err
	}
	delete(m, l.omit)
	return m, nil
}

// A genuine signature (made with the right key) that does not cover a
// mandatory field never verifies against a command step, whatever is done to
// the (unsigned) field list: the uncovered field could otherwise be changed
// freely.
func vpH_c01_legacy() {
	ctx := context.Background()
	mand := []string{"command", "env", "plugins", "matrix", "repository_url"}
	omit := mand[vpInt(0, 4)]
	step := pipeline.CommandStep{Command: "c", Env: map[string]string{"A": "x"}, Plugins: pipeline.Plugins{{Source: "p#v1"}}}
	s := vpSigSigner(1)
	sig, err := Sign(ctx, s, vpLegacyFielder{&CommandStepWithInvariants{CommandStep: step, RepositoryURL: "r"}, omit})
	vpAssume(err == nil && sig != nil)
	rec := &pipeline.Signature{Algorithm: sig.Algorithm, SignedFields: append([]string{}, sig.SignedFields...), Value: sig.Value}
	for pad := vpInt(0, 2); pad > 0; pad-- { // pad the list with repeats of fields it already has
		f := mand[vpInt(0, 4)]
		vpAssume(f != omit)
		if vpBool() {
			rec.SignedFields = append(rec.SignedFields, f)
		} else {
			rec.SignedFields = append([]string{f}, rec.SignedFields...)
		}
	}
	pres := step
	presRepo := "r"
	if vpBool() { // the uncovered field is what an attacker would change
		switch omit {
		case "command":
			pres.Command = "evil"
		case "env":
			pres.Env = map[string]string{"A": "evil"}
		case "plugins":
			pres.Plugins = pipeline.Plugins{{Source: "evil#v1"}}
		case "matrix":
			pres.Matrix = &pipeline.Matrix{Setup: pipeline.MatrixSetup{"": {"evil"}}}
		case "repository_url":
			presRepo = "evil"
		}
	}
	verr := Verify(ctx, rec, s, &CommandStepWithInvariants{CommandStep: pres, RepositoryURL: presRepo})
	vpAssert(verr != nil, "a signature that does not cover a mandatory field never verifies, however its field list is padded")
}

func vpH_c01_tamper() {
	ctx := context.Background()
	c := vpStr(1, "a-c")
	ev, cv, pv := vpStrUpTo(1, "x-z"), vpStrUpTo(1, "x-z"), vpStrUpTo(1, "x-z") // empty values included
	r := "r" + vpStr(1, "a-c")
	x := vpStr(1, "a-c")

	// the step variable's name may end in a word the package itself mentions
	// (names the code treats specially are names like any other)
	an := "A" + vpStrConstLike("*", "^_[A-Z][A-Z_]*$", "")
	shape := vpInt(0, 3) // how the caller spells the options, the same at both ends
	mkStep := func() *pipeline.CommandStep {
		return &pipeline.CommandStep{
			Command: c,
			Env:     map[string]string{an: ev},
			Plugins: pipeline.Plugins{{Source: "p#v1", Config: map[string]any{"k": cv}}, {Source: "q"}},
		}
	}
	signed := mkStep()
	// unknown keys of a matrix built in code may spell the names of real fields;
	// the real fields are what is signed
	decoy := vpParam("matrix") != 0 && vpBool()
	if vpParam("matrix") != 0 {
		signed.Matrix = vpDecoyed(vpMixedMatrix("l", "u"), decoy)
	}
	// the pipeline variable's name may start with a word the package itself mentions (reserved-looking prefixes)
	pn := vpStrConstLike("*", "^[A-Z][A-Z_]*_$", "") + "P"
	penv := map[string]string{pn: pv}

	useSigner := vpBool()
	var key Key
	var keySet, otherKeySet any
	alg := "EdDSA"
	if useSigner {
		s := vpSigSigner(1)
		key, keySet, otherKeySet, alg = s, s, vpSigSigner(2), "ES256"
	} else {
		switch vpInt(0, 2) {
		case 1:
			alg = "ES512"
		case 2:
			alg = "PS512"
		}
		k := vpSigKey(alg, 1)
		key, keySet, otherKeySet = k, vpKeySetOf(k), vpKeySetOf(vpSigKey(alg, 2))
	}
	sig, err := Sign(ctx, key, &CommandStepWithInvariants{CommandStep: *signed, RepositoryURL: r}, vpCallOpts(penv, shape)...)
	vpAssert(err == nil && sig != nil, "signing succeeds")
	if sig == nil {
		return
	}
	vpAssert(signed.Env[an] == ev && len(signed.Env) == 1 && len(penv) == 1 && penv[pn] == pv, "signing leaves the step's and the caller's env as they were")

	// the presented world
	pres := mkStep()
	if vpParam("matrix") != 0 {
		pres.Matrix = vpDecoyed(vpMixedMatrix("l", "u"), decoy)
	}
	presRepo := r
	venv := map[string]string{pn: pv, "UNRELATED": "u"}
	rec := &pipeline.Signature{Algorithm: sig.Algorithm, SignedFields: append([]string{}, sig.SignedFields...), Value: sig.Value}
	ks := keySet

	kind := vpInt(0, 23)
	if vpParam("matrix") == 0 && !useSigner && vpBool() {
		kind = 31 + vpInt(0, 1)
	}
	if vpParam("matrix") != 0 {
		kind = vpInt(24, 30)
	}
	switch kind {
	case 0: // untouched
	case 1:
		vpAssume(x != c)
		pres.Command = x
	case 2:
		vpAssume(x != ev)
		pres.Env[an] = x
	case 3:
		pres.Env["B"] = x
	case 4:
		delete(pres.Env, an)
	case 5:
		pres.Plugins[0].Source = "p#v2"
	case 6:
		vpAssume(x != cv)
		pres.Plugins[0].Config = map[string]any{"k": x}
	case 7:
		pres.Plugins[0], pres.Plugins[1] = pres.Plugins[1], pres.Plugins[0]
	case 8:
		pres.Plugins = append(pres.Plugins, &pipeline.Plugin{Source: "extra"})
	case 9:
		pres.Plugins = pres.Plugins[:1]
	case 10:
		pres.Matrix = &pipeline.Matrix{Setup: pipeline.MatrixSetup{"": {x}}}
	case 11:
		presRepo = r + x
	case 12:
		vpAssume(x != pv)
		venv[pn] = x
	case 13:
		delete(venv, pn)
	case 14:
		rec.Algorithm = "ES384"
	case 15: // a mandatory field dropped from the signed-field list
		drop := vpInt(0, 4)
		mand := []string{"command", "env", "plugins", "matrix", "repository_url"}
		var nf []string
		for _, f := range rec.SignedFields {
			if f != mand[drop] {
				nf = append(nf, f)
			}
		}
		rec.SignedFields = nf
	case 16: // the signed pipeline variable dropped from the list
		var nf []string
		for _, f := range rec.SignedFields {
			if f != "env::"+pn {
				nf = append(nf, f)
			}
		}
		rec.SignedFields = nf
	case 17:
		rec.SignedFields = append(rec.SignedFields, "label")
	case 18:
		rec.Value = vpForgedSignature()
	case 19: // another step's signature value spliced in
		other := mkStep()
		other.Command = c + "2"
		osig, oerr := Sign(ctx, key, &CommandStepWithInvariants{CommandStep: *other, RepositoryURL: r}, WithEnv(penv))
		vpAssume(oerr == nil && osig != nil)
		rec.Value = osig.Value
	case 20: // another key
		ks = otherKeySet
	case 21: // an extra env:: field that was not signed is claimed
		rec.SignedFields = append(rec.SignedFields, "env::UNRELATED")
	case 22: // a step env variable that shadows the signed pipeline variable appears
		pres.Env[pn] = pv
	case 23: // plugin config key renamed
		pres.Plugins[0].Config = map[string]any{"k" + x: cv}
	case 31: // a key set that holds only a key of another algorithm
		other := "ES512"
		if alg == "ES512" {
			other = "PS512"
		}
		ks = vpKeySetOf(vpSigKey(other, 3))
	case 32: // an empty key set
		ks = vpKeySetOf()
	case 24: // a named dimension changed next to the anonymous one
		vpAssume(x != "l")
		pres.Matrix = vpDecoyed(vpMixedMatrix(x, "u"), decoy)
	case 25: // the anonymous dimension changed next to a named one
		vpAssume(x != "u")
		pres.Matrix = vpDecoyed(vpMixedMatrix("l", x), decoy)
	case 26: // a named dimension removed
		pres.Matrix = vpDecoyed(&pipeline.Matrix{Setup: pipeline.MatrixSetup{"": {"u", "i"}}, Adjustments: vpMixedMatrix("l", "u").Adjustments}, decoy)
	case 27: // an adjustment's skip flag flipped
		pres.Matrix = vpDecoyed(vpMixedMatrix("l", "u"), decoy)
		pres.Matrix.Adjustments[0].Skip = false
	case 28: // an adjustment added that repeats an earlier tuple (the list is a list: every entry is signed)
		pres.Matrix = vpDecoyed(vpMixedMatrix("l", "u"), decoy)
		pres.Matrix.Adjustments = append(pres.Matrix.Adjustments, &pipeline.MatrixAdjustment{With: pipeline.MatrixAdjustmentWith{"": "a", "os": "w"}, Skip: false})
	case 29: // ... with other settings
		pres.Matrix = vpDecoyed(vpMixedMatrix("l", "u"), decoy)
		pres.Matrix.Adjustments = append(pres.Matrix.Adjustments, &pipeline.MatrixAdjustment{With: pipeline.MatrixAdjustmentWith{"": "a", "os": "w"}, RemainingFields: map[string]any{"soft_fail": true}})
	case 30: // the adjustments reordered
		pres.Matrix = vpDecoyed(vpMixedMatrix("l", "u"), decoy)
		pres.Matrix.Adjustments = pipeline.MatrixAdjustments{{With: pipeline.MatrixAdjustmentWith{"": "b", "os": "w"}}, pres.Matrix.Adjustments[0]}
	}
	verr := Verify(ctx, rec, ks, &CommandStepWithInvariants{CommandStep: *pres, RepositoryURL: presRepo}, vpCallOpts(venv, shape)...)
	if kind == 0 {
		vpAssert(verr == nil, "the untouched step verifies (with unrelated variables in the verification env)")
	} else {
		vpAssert(verr != nil, "any single semantic change to the step, env, repository, signature record or key makes verification fail")
	}
	vpAssert(len(venv) <= 2 && signed.Command == c, "verification does not write the env map")
}

// vpDecoyed adds unknown keys that are spelled like the real fields.
func vpDecoyed(m *pipeline.Matrix, decoy bool) *pipeline.Matrix {
	if decoy {
		m.RemainingFields = map[string]any{"setup": "decoy", "adjustments": "decoy"}
		for _, a := range m.Adjustments {
			a.RemainingFields = map[string]any{"with": "decoy", "skip": "decoy"}
		}
	}
	return m
}

// vpMixedMatrix: a matrix that mixes the anonymous dimension with a named one and has an adjustment.
func vpMixedMatrix(os, anon string) *pipeline.Matrix {
	return &pipeline.Matrix{
		Setup:       pipeline.MatrixSetup{"": {anon, "i"}, "os": {os}},
		Adjustments: pipeline.MatrixAdjustments{{With: pipeline.MatrixAdjustmentWith{"": "a", "os": "w"}, Skip: true}},
	}
}

// A plugin's config is signed content whatever its type: swapping it for any
// other value - also between falsy scalars, or between a falsy scalar and
// nothing - is refused. Only nil and the empty containers are one value.
func vpH_c01_config() {
	ctx := context.Background()
	configs := []any{nil, map[string]any{}, []any{}, false, 0, "", true, "x", 1.5, []any{false}, map[string]any{"k": nil}}
	i, j := vpInt(0, len(configs)-1), vpInt(0, len(configs)-1)
	vpAssume(i != j)
	s := vpSigSigner(1)
	signed := pipeline.CommandStep{Command: "c", Plugins: pipeline.Plugins{{Source: "p#v1", Config: configs[i]}}}
	sig, err := Sign(ctx, s, &CommandStepWithInvariants{CommandStep: signed, RepositoryURL: "r"})
	vpAssume(err == nil && sig != nil)
	pres := pipeline.CommandStep{Command: "c", Plugins: pipeline.Plugins{{Source: "p#v1", Config: configs[j]}}}
	verr := Verify(ctx, sig, s, &CommandStepWithInvariants{CommandStep: pres, RepositoryURL: "r"})
	if i <= 2 && j <= 2 {
		vpAssert(verr == nil, "nil and the empty containers are the same plugin config")
	} else {
		vpAssert(verr != nil, "a plugin config swapped for any other value (also between falsy scalars) is refused")
	}
}

// The step that is verified is the step as it is now: content changed in
// place after signing - deep inside a plugin config or a matrix extra, in
// objects that were already marshalled once while signing - is seen.
func vpH_c01_inplace() {
	ctx := context.Background()
	v1, v2 := vpStr(1, "x-z"), vpStr(1, "x-z")
	vpAssume(v1 != v2)
	leaf := map[string]any{"a": v1}
	list := []any{v1, "k"}
	inner := ordered.NewMap[string, any](2)
	inner.Set("leaf", leaf)
	inner.Set("list", list)
	outer := ordered.NewMap[string, any](1)
	outer.Set("inner", inner)
	adjExtra := ordered.NewMap[string, any](1)
	adjExtra.Set("policy", map[string]any{"p": v1})
	step := pipeline.CommandStep{
		Command: "c",
		Plugins: pipeline.Plugins{{Source: "p#v1", Config: outer}},
		Matrix: &pipeline.Matrix{Setup: pipeline.MatrixSetup{"os": {"l"}}, Adjustments: pipeline.MatrixAdjustments{{With: pipeline.MatrixAdjustmentWith{"os": "w"}, RemainingFields: map[string]any{"soft_fail": adjExtra}}}},
	}
	s := vpSigSigner(1)
	sig, err := Sign(ctx, s, &CommandStepWithInvariants{CommandStep: step, RepositoryURL: "r"})
	vpAssume(err == nil && sig != nil)
	vpAssert(Verify(ctx, sig, s, &CommandStepWithInvariants{CommandStep: step, RepositoryURL: "r"}) == nil, "the untouched step verifies")
	switch vpInt(0, 3) {
	case 0:
		leaf["a"] = v2
	case 1:
		list[0] = v2
	case 2:
		adjExtra.Get("policy")
		pol, _ := adjExtra.Get("policy")
		pol.(map[string]any)["p"] = v2
	default:
		inner.Set("leaf", map[string]any{"a": v2})
	}
	vpAssert(Verify(ctx, sig, s, &CommandStepWithInvariants{CommandStep: step, RepositoryURL: "r"}) != nil, "content changed in place after signing (inside nested containers that were already marshalled once) is refused")
}

// Two short-form plugin sources name the same plugin only if they are the same
// string: letter case, a name that already ends in the plugin suffix, dots and
// refs are all significant. A signature made for one never verifies the other.
func vpH_c01_source() {
	ctx := context.Background()
	mk := func() string {
		name := vpStr(1, "abB.") + vpStrUpTo(1, "abB.-")
		if w := vpStrConstOr("*plugin.go", ""); w != "" && vpBool() {
			name += w
		}
		if vpBool() {
			name = vpStr(1, "abB") + "/" + name
		}
		if vpBool() {
			name += "#" + vpStr(1, "abB1")
		}
		return name
	}
	pairs := [][2]string{
		{"thing", "thing-buildkite-plugin"}, {"o/thing#v1", "o/thing-buildkite-plugin#v1"},
		{"Thing", "thing"}, {"o/t#Rel", "o/t#rel"}, {"O/t", "o/t"},
		{"thing.js", "thing-js"}, {"a.b/t", "a-b/t"}, {"t#v1.0", "t#v1-0"},
		{"t-", "t"}, {"o/t", "o/t/"}, {"buildkite-plugins/t", "Buildkite-Plugins/t"},
	}
	var s1, s2 string
	if pick := vpInt(0, len(pairs)); pick < len(pairs) {
		s1, s2 = pairs[pick][0], pairs[pick][1]
		if vpBool() {
			s1, s2 = s2, s1
		}
	} else {
		s1, s2 = mk(), mk()
	}
	vpAssume(s1 != s2)
	// both stay short forms: no further slashes, no scheme, no leading dot
	vpAssume(!vpReMatch("[:@\\\\]|^[./]|/.*/", s1) && !vpReMatch("[:@\\\\]|^[./]|/.*/", s2))
	signed := pipeline.CommandStep{Command: "c", Plugins: pipeline.Plugins{{Source: s1}}}
	pres := pipeline.CommandStep{Command: "c", Plugins: pipeline.Plugins{{Source: s2}}}
	f1, f2 := signed.Plugins[0].FullSource(), pres.Plugins[0].FullSource()
	vpAssert(f1 != f2, "different short-form sources have different canonical sources")
	k := vpSigSigner(1)
	sig, err := Sign(ctx, k, &CommandStepWithInvariants{CommandStep: signed, RepositoryURL: "r"})
	vpAssume(err == nil && sig != nil)
	verr := Verify(ctx, sig, k, &CommandStepWithInvariants{CommandStep: pres, RepositoryURL: "r"})
	vpAssert(verr != nil, "a signature made for one plugin source does not verify a step that names another")
}

// vpCallOpts: the options of one Sign / Verify / SignSteps call in the shapes a
// caller may give them: the env in one WithEnv, or preceded by another WithEnv
// that carries a copy of it; debug signing off, on without a logger, on with one.
func vpCallOpts(env map[string]string, shape int) []Option {
	switch shape {
	case 1:
		return []Option{WithEnv(maps.Clone(env)), WithEnv(env)}
	case 2:
		return []Option{WithEnv(env), WithDebugSigning(true)}
	case 3:
		return []Option{WithLogger(&vpLogger{}), WithDebugSigning(true), WithEnv(env)}
	}
	return []Option{WithEnv(env)}
}
