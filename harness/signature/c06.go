//go:build verif

package signature

import (
	"github.com/lestrrat-go/jwx/v2/jwk"
	"context"
	"strings"

	"github.com/buildkite/go-pipeline"
)

// C06 - signing a step list signs every command step at every depth, or refuses.

func init() {
	vpRegister("c06_signsteps", vpH_c06_signsteps)
	vpRegister("c06_envnames", vpH_c06_envnames)
	vpRegister("c06_resign", vpH_c06_resign)
	vpRegister("c06_rotation", vpH_c06_rotation)
	vpRegister("c19_obs_verify", vpH_c19_obs_verify)
}

// Pipeline variable names are arbitrary strings: the env:: namespacing must
// work for every name, in particular names made of the characters the signing
// code itself handles (the namespace prefix, separators).
func vpH_c06_envnames() {
	ctx := context.Background()
	class := "A_a" + vpConstChars("*sign.go")
	name := vpStrUpTo(3, class) // the empty name included
	val := vpStrUpTo(1, "x-y")
	step := &pipeline.CommandStep{Command: "c"}
	shadow := false
	switch vpInt(0, 3) {
	case 1:
		shadow = true
		step.Env = map[string]string{name: "s"}
	case 2: // a step variable that differs in letter case is another variable: no shadowing
		other := strings.ToUpper(name)
		vpAssume(other != name)
		step.Env = map[string]string{other: "s"}
	case 3:
		other := strings.ToLower(name)
		vpAssume(other != name)
		step.Env = map[string]string{other: "s"}
	}
	penv := map[string]string{name: val}
	s := vpSigSigner(1)
	err := SignSteps(ctx, pipeline.Steps{step}, s, "r", WithEnv(penv))
	vpAssert(err == nil && step.Signature != nil, "signing succeeds for every pipeline variable name")
	if err != nil || step.Signature == nil {
		return
	}
	sig := step.Signature
	n := 0
	for i, f := range sig.SignedFields {
		if f == "env::"+name {
			n++
		}
		if i > 0 {
			vpAssert(sig.SignedFields[i-1] < f, "signed fields are sorted and distinct")
		}
	}
	if shadow {
		vpAssert(n == 0 && len(sig.SignedFields) == 5, "a shadowed pipeline variable is not signed")
	} else {
		vpAssert(n == 1 && len(sig.SignedFields) == 6, "an unshadowed pipeline variable is signed as env::NAME, whatever its name")
	}
	venv := map[string]string{"UNRELATED": "u", name: val}
	verr := Verify(ctx, sig, s, &CommandStepWithInvariants{CommandStep: *step, RepositoryURL: "r"}, WithEnv(venv))
	vpAssert(verr == nil, "the attached signature verifies for every pipeline variable name")
	if !shadow {
		venv[name] = val + "!"
		verr = Verify(ctx, sig, s, &CommandStepWithInvariants{CommandStep: *step, RepositoryURL: "r"}, WithEnv(venv))
		vpAssert(verr != nil, "a changed value of the signed pipeline variable is refused, whatever its name")
		delete(venv, name)
		verr = Verify(ctx, sig, s, &CommandStepWithInvariants{CommandStep: *step, RepositoryURL: "r"}, WithEnv(venv))
		vpAssert(verr != nil, "a missing signed pipeline variable is refused, whatever its name and value")
	}
}

type vpStepInfo struct {
	cmd      *pipeline.CommandStep
	command  string
	label    string
	envA     string
	hasA     bool
	envB     string
	hasB     bool
	plugin   *pipeline.Plugin
	children []*vpStepInfo
}

// vpGenSteps draws a step list; unknown reports whether an unknown step occurs at any depth.
func vpGenSteps(depth, max int) (steps pipeline.Steps, infos []*vpStepInfo, unknown bool) {
	n := vpInt(0, max)
	for i := 0; i < n; i++ {
		top := 4
		if depth > 0 {
			top = 5
		}
		switch vpInt(0, top) {
		case 0:
			// command text may contain any short separator the package's own code
			// mentions (line endings, delimiters): text is text
			in := &vpStepInfo{command: vpStr(1, "a-b") + vpStrConstLike("*", "^[^A-Za-z0-9]{1,3}$", "") + "z", label: "l"}
			c := &pipeline.CommandStep{Command: in.command, Label: in.label}
			if vpParam("lite") == 0 && vpBool() {
				c.Env = map[string]string{}
				if in.hasA = vpBool(); in.hasA {
					in.envA = vpStr(1, "x-y")
					c.Env["A"] = in.envA
				}
				if in.hasB = vpBool(); in.hasB {
					in.envB = vpStr(1, "x-y")
					c.Env["B"] = in.envB
				}
			}
			if vpParam("lite") == 0 && vpBool() {
				in.plugin = &pipeline.Plugin{Source: "p", Config: map[string]any{"k": vpStr(1, "x-y")}}
				c.Plugins = pipeline.Plugins{in.plugin}
			}
			in.cmd = c
			steps = append(steps, c)
			infos = append(infos, in)
		case 1:
			steps = append(steps, &pipeline.WaitStep{Scalar: "wait"})
		case 2:
			steps = append(steps, &pipeline.InputStep{Scalar: "block"})
		case 3:
			steps = append(steps, &pipeline.TriggerStep{Contents: map[string]any{"trigger": "t"}})
		case 4:
			steps = append(steps, &pipeline.UnknownStep{Contents: "mystery"})
			unknown = true
		case 5:
			kids, kinfos, ku := vpGenSteps(depth-1, max)
			steps = append(steps, &pipeline.GroupStep{Steps: kids})
			infos = append(infos, kinfos...)
			unknown = unknown || ku
		}
	}
	return steps, infos, unknown
}

func vpH_c06_signsteps() {
	ctx := context.Background()
	steps, infos, unknown := vpGenSteps(vpParam("depth"), vpParam("width"))

	// pipeline env: A and/or B
	penv := map[string]string{}
	pA, pB := vpBool(), vpParam("lite") == 0 && vpBool()
	vA, vB := vpStr(1, "x-y"), vpStr(1, "x-y")
	if pA {
		penv["A"] = vA
	}
	if pB {
		penv["B"] = vB
	}
	repo := "r" + vpStr(1, "a-b")

	var key Key
	var keySet any
	alg := ""
	nalg := 3
	if vpParam("lite") != 0 {
		nalg = 0
	}
	switch vpInt(0, nalg) {
	case 0:
		alg = "EdDSA"
	case 1:
		alg = "ES512"
	case 2:
		alg = "PS512"
	case 3:
		alg = "ES256"
	}
	if alg == "ES256" {
		s := vpSigSigner(1)
		key, keySet = s, s
	} else {
		k := vpSigKey(alg, 1)
		key, keySet = k, vpKeySetOf(k)
	}

	err := SignSteps(ctx, steps, key, repo, WithEnv(penv))
	if unknown {
		vpAssert(err != nil, "a step of unknown kind anywhere makes signing refuse")
		return
	}
	vpAssert(err == nil, "signing a list without unknown steps succeeds")
	vpAssert(len(penv) == vpB2I(pA)+vpB2I(pB) && (!pA || penv["A"] == vA) && (!pB || penv["B"] == vB), "signing does not modify the caller's env map")

	for _, in := range infos {
		c := in.cmd
		sig := c.Signature
		vpAssert(sig != nil, "every command step at every depth carries a signature")
		if sig == nil {
			continue
		}
		vpAssert(sig.Algorithm == alg, "the signature names the key's algorithm")
		want := []string{"command", "env"}
		if pA && !in.hasA {
			want = append(want, "env::A")
		}
		if pB && !in.hasB {
			want = append(want, "env::B")
		}
		want = append(want, "matrix", "plugins", "repository_url")
		same := len(sig.SignedFields) == len(want)
		for i := range want {
			if i < len(sig.SignedFields) && sig.SignedFields[i] != want[i] {
				same = false
			}
		}
		vpAssert(same, "signed fields are exactly the five mandatory fields plus env::NAME for each unshadowed pipeline variable, sorted")

		// nothing else in the step changed
		vpAssert(c.Command == in.command && c.Label == in.label && c.Key == "" && c.Matrix == nil && c.Cache == nil && c.RemainingFields == nil, "signing changes nothing but the signature (scalars)")
		vpAssert(len(c.Env) == vpB2I(in.hasA)+vpB2I(in.hasB) && (!in.hasA || c.Env["A"] == in.envA) && (!in.hasB || c.Env["B"] == in.envB), "signing does not modify the step env")
		if in.plugin != nil {
			vpAssert(len(c.Plugins) == 1 && c.Plugins[0] == in.plugin && in.plugin.Source == "p", "signing does not modify plugins")
		} else {
			vpAssert(c.Plugins == nil, "signing does not materialise plugins")
		}

		// it verifies, also with an unrelated variable in the verification env
		venv := map[string]string{"UNRELATED": "u"}
		for k, v := range penv {
			venv[k] = v
		}
		verr := Verify(ctx, sig, keySet, &CommandStepWithInvariants{CommandStep: *c, RepositoryURL: repo}, WithEnv(venv))
		vpAssert(verr == nil, "the attached signature verifies with the public key (pipeline env plus unrelated variables)")
	}
}

func vpB2I(b bool) int {
	if b {
		return 1
	}
	return 0
}

// Signing a list whose steps already carry signatures (a re-run with another
// pipeline env or repository, the same key): the outcome is that of signing
// fresh steps - field lists follow the env given now, and what is signed now
// is what verifies.
func vpH_c06_resign() {
	ctx := context.Background()
	s := vpSigSigner(1)
	inner := &pipeline.CommandStep{Command: "c"}
	steps := pipeline.Steps{inner}
	if vpBool() {
		steps = pipeline.Steps{&pipeline.GroupStep{Steps: pipeline.Steps{inner}}}
	}
	env1 := map[string]string{}
	if vpBool() {
		env1["A"] = "x"
	}
	if vpBool() {
		env1["B"] = "y"
	}
	vpAssume(SignSteps(ctx, steps, s, "r", WithEnv(env1)) == nil && inner.Signature != nil)

	env2 := map[string]string{}
	hasA, hasB := vpBool(), vpBool()
	vA := vpStr(1, "x-y")
	if hasA {
		env2["A"] = vA
	}
	if hasB {
		env2["B"] = "y"
	}
	repo2 := "r"
	if vpBool() {
		repo2 = "r2"
	}
	err := SignSteps(ctx, steps, s, repo2, WithEnv(env2))
	vpAssert(err == nil && inner.Signature != nil, "signing already-signed steps again succeeds")
	if err != nil || inner.Signature == nil {
		return
	}
	sig := inner.Signature
	want := []string{"command", "env"}
	if hasA {
		want = append(want, "env::A")
	}
	if hasB {
		want = append(want, "env::B")
	}
	want = append(want, "matrix", "plugins", "repository_url")
	same := len(sig.SignedFields) == len(want)
	for i := range want {
		if i < len(sig.SignedFields) && sig.SignedFields[i] != want[i] {
			same = false
		}
	}
	vpAssert(same, "after re-signing, the signed fields are the mandatory ones plus env::NAME for each variable of the env given now")
	mk := func() map[string]string {
		m := map[string]string{}
		for k, v := range env2 {
			m[k] = v
		}
		return m
	}
	vpAssert(Verify(ctx, sig, s, &CommandStepWithInvariants{CommandStep: *inner, RepositoryURL: repo2}, WithEnv(mk())) == nil, "the re-signed step verifies under the env and repository given now")
	if hasA {
		m := mk()
		m["A"] = vA + "!"
		vpAssert(Verify(ctx, sig, s, &CommandStepWithInvariants{CommandStep: *inner, RepositoryURL: repo2}, WithEnv(m)) != nil, "a changed pipeline variable is refused after re-signing")
	}
	if hasB {
		m := mk()
		delete(m, "B")
		vpAssert(Verify(ctx, sig, s, &CommandStepWithInvariants{CommandStep: *inner, RepositoryURL: repo2}, WithEnv(m)) != nil, "a removed pipeline variable is refused after re-signing")
	}
	vpAssert(Verify(ctx, sig, s, &CommandStepWithInvariants{CommandStep: *inner, RepositoryURL: repo2 + "x"}, WithEnv(mk())) != nil, "another repository is refused after re-signing")
}

// Signing depends on the key that is given, not on what was signed before in
// the same process: after a key rotation that kept the key id, identical steps
// signed with the new key verify under the new key and not under the old one.
func vpH_c06_rotation() {
	ctx := context.Background()
	alg := "EdDSA"
	if vpBool() {
		alg = "ES512"
	}
	kid := "k" + vpStrUpTo(1, "a-b")
	k1, k2 := vpSigKeyKid(alg, 1, kid), vpSigKeyKid(alg, 2, kid)
	cmd := vpStr(1, "a-b")
	penv := map[string]string{}
	if vpBool() {
		penv["P"] = "v"
	}
	mk := func() (pipeline.Steps, *pipeline.CommandStep) {
		c := &pipeline.CommandStep{Command: cmd, Plugins: pipeline.Plugins{{Source: "p#v1"}}}
		if vpParam("group") != 0 {
			return pipeline.Steps{&pipeline.GroupStep{Steps: pipeline.Steps{c}}}, c
		}
		return pipeline.Steps{c}, c
	}
	st1, c1 := mk()
	vpAssume(SignSteps(ctx, st1, k1, "r", WithEnv(penv)) == nil && c1.Signature != nil)
	vpAssert(Verify(ctx, c1.Signature, vpKeySetOf(k1), &CommandStepWithInvariants{CommandStep: *c1, RepositoryURL: "r"}, WithEnv(penv)) == nil, "steps signed with the first key verify under it")
	st2, c2 := mk()
	err := SignSteps(ctx, st2, k2, "r", WithEnv(penv))
	vpAssert(err == nil && c2.Signature != nil, "signing identical steps with another key that carries the same key id succeeds")
	if err != nil || c2.Signature == nil {
		return
	}
	vpAssert(Verify(ctx, c2.Signature, vpKeySetOf(k2), &CommandStepWithInvariants{CommandStep: *c2, RepositoryURL: "r"}, WithEnv(penv)) == nil, "... and they verify under the key that signed them")
	vpAssert(Verify(ctx, c2.Signature, vpKeySetOf(k1), &CommandStepWithInvariants{CommandStep: *c2, RepositoryURL: "r"}, WithEnv(penv)) != nil, "... and not under the earlier key")
}

// Verify and Sign are observers of everything they are given: the step, the
// env map and the signature record (whose field list need not be in the order
// this library writes) look exactly the same afterwards.
func vpH_c19_obs_verify() {
	ctx := context.Background()
	step := &pipeline.CommandStep{
		Command: "c",
		Env:     map[string]string{"E": "v"},
		Plugins: pipeline.Plugins{{Source: "p#v1", Config: map[string]any{}}, {Source: "q", Config: []any{}}},
		Matrix:  &pipeline.Matrix{Setup: pipeline.MatrixSetup{"os": {"b", "a"}, "none": nil}},
	}
	penv := map[string]string{"P": "1", "A": "2"}
	base := map[string]string{"B": "0"}
	// the options in the shapes a caller may give them: one env, an env after
	// another one, with or without debug signing
	var opts []Option
	shape := vpInt(0, 3)
	if shape&1 != 0 {
		opts = append(opts, WithEnv(base))
	}
	opts = append(opts, WithEnv(penv))
	if shape&2 != 0 {
		opts = append(opts, WithLogger(&vpLogger{}), WithDebugSigning(true))
	}
	s := vpSigSigner(1)
	before, benv, bbase := vpSnapshot(step), vpSnapshot(penv), vpSnapshot(base)
	sig, err := Sign(ctx, s, &CommandStepWithInvariants{CommandStep: *step, RepositoryURL: "r"}, opts...)
	vpAssume(err == nil && sig != nil)
	vpAssert(vpUnchanged(step, before) && vpUnchanged(penv, benv) && vpUnchanged(base, bbase), "signing writes nothing into the step (plugins, matrix, env) or the caller's env maps")
	// the same signature with its field list in another order (the list itself is not signed)
	rec := &pipeline.Signature{Algorithm: sig.Algorithm, Value: sig.Value}
	n := len(sig.SignedFields)
	switch vpInt(0, 2) {
	case 0:
		rec.SignedFields = append([]string{}, sig.SignedFields...)
	case 1: // reversed
		for i := n - 1; i >= 0; i-- {
			rec.SignedFields = append(rec.SignedFields, sig.SignedFields[i])
		}
	default: // rotated
		rec.SignedFields = append(append([]string{}, sig.SignedFields[1:]...), sig.SignedFields[0])
	}
	brec := vpSnapshot(rec)
	verr := Verify(ctx, rec, s, &CommandStepWithInvariants{CommandStep: *step, RepositoryURL: "r"}, opts...)
	vpAssert(verr == nil, "the order of the signed-field list does not matter for verification")
	vpAssert(vpUnchanged(rec, brec), "verifying writes nothing into the signature record (the field list keeps its order)")
	vpAssert(vpUnchanged(step, before) && vpUnchanged(penv, benv) && vpUnchanged(base, bbase), "verifying writes nothing into the step or the env maps")
}

func init() { vpRegister("c18_otherkeys", vpH_c18_otherkeys) }

// What one private key signs verifies with its public half and with no other
// key (signature scheme idealised): under key sets that hold the signer's
// public key - alone or next to others - the signature verifies; under key
// sets that hold only other keys (same algorithm, another algorithm, none at
// all) it does not.
func vpH_c18_otherkeys() {
	ctx := context.Background()
	algs := []string{"EdDSA", "ES512", "PS512"}
	ai := vpInt(0, 2)
	alg, other := algs[ai], algs[(ai+1+vpInt(0, 1))%3]
	k := vpSigKey(alg, 1)
	step := &pipeline.CommandStep{Command: vpStr(1, "a-b")}
	sig, err := Sign(ctx, k, &CommandStepWithInvariants{CommandStep: *step, RepositoryURL: "r"})
	vpAssume(err == nil && sig != nil)
	same, foreign := vpSigKey(alg, 2), vpSigKey(other, 3)
	var ks jwk.Set
	want := false
	switch vpInt(0, 6) {
	case 0:
		ks, want = vpKeySetOf(k), true
	case 1:
		ks, want = vpKeySetOf(same, k), true
	case 2:
		ks, want = vpKeySetOf(foreign, k), true
	case 3:
		ks = vpKeySetOf(same)
	case 4:
		ks = vpKeySetOf(foreign)
	case 5:
		ks = vpKeySetOf()
	default:
		ks = vpKeySetOf(foreign, same)
	}
	verr := Verify(ctx, sig, ks, &CommandStepWithInvariants{CommandStep: *step, RepositoryURL: "r"})
	vpAssert((verr == nil) == want, "a signature verifies exactly under key sets that hold the signer's public key")
}
