//go:build verif

package signature

import (
	"errors"
	"net/url"
)

// The signature package reaches Plugin.FullSource (through Plugin.MarshalJSON)
// and therefore net/url.Parse and path.Join. The models are the ones validated
// in the root package (harness/root/models.go); they are repeated here because
// a model must live in the package that holds the harness.

var vpErrURL = errors.New("url: parse error")

func vpModelURLParse(raw string) (*url.URL, error) {
	if !vpReMatch(`^[A-Za-z0-9._/#:@\\\\+\\-]*$`, raw) {
		vpOutside("url.Parse model: byte outside the modelled alphabet")
	}
	if len(raw) > 0 && raw[0] == '/' {
		vpOutside("url.Parse model: leading slash")
	}
	u, frag := raw, ""
	for i := 0; i < len(raw); i++ {
		if raw[i] == '#' {
			u, frag = raw[:i], raw[i+1:]
			break
		}
	}
	if len(u) > 0 && u[0] == ':' {
		return nil, vpErrURL
	}
	if vpReMatch(`^[A-Za-z][A-Za-z0-9+.\-]*:`, u) {
		for i := 0; i < len(u); i++ {
			if u[i] == ':' {
				return &url.URL{Scheme: u[:i]}, nil
			}
		}
	}
	if vpReMatch(`^[^/]*:`, u) {
		return nil, vpErrURL
	}
	return &url.URL{Path: u, Fragment: frag}, nil
}

func vpModelPathJoin(elems ...string) string {
	joined := ""
	for _, e := range elems {
		if e == "" {
			continue
		}
		if joined != "" {
			joined += "/"
		}
		joined += e
	}
	if joined == "" {
		return ""
	}
	start := 0
	for i := 0; i <= len(joined); i++ {
		if i == len(joined) || joined[i] == '/' {
			seg := joined[start:i]
			if seg == "" || seg == "." || seg == ".." {
				vpOutside("path.Join model: result is not already clean")
			}
			start = i + 1
		}
	}
	return joined
}
