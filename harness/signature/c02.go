//go:build verif

package signature

import (
	"context"
	"encoding/json"

	"github.com/buildkite/go-pipeline"
	"github.com/buildkite/go-pipeline/ordered"
	"gopkg.in/yaml.v3"
)

// C02 (JSON leg, data model, ideal signatures) - signed steps still verify
// after serialisation and re-parse: SignSteps -> json.Marshal -> re-parse (step
// by step the way an agent receives a job, and as a whole pipeline) -> Verify.

func init() {
	vpRegister("c02_roundtrip", vpH_c02_roundtrip)
	vpRegister("c02_yaml", vpH_c02_yaml)
}

type vpC02World struct {
	steps  pipeline.Steps
	step   *pipeline.CommandStep
	penv   map[string]string
	pv     string
	repo   string
	keySet any
	venv   map[string]string
	ok     bool
}

func vpMkC02World() (w vpC02World) {
	ctx := context.Background()
	step := &pipeline.CommandStep{Command: vpStrUpTo(1, "a-c")}
	if vpBool() {
		step.Command = "a\nb"
	}
	switch vpInt(0, 2) { // env: nil / empty / populated (incl. a value that looks like another YAML type)
	case 1:
		step.Env = map[string]string{}
	case 2:
		step.Env = map[string]string{"A": vpStrUpTo(1, "x-z"), "N": "12", "B": "true"}
	}
	switch vpInt(0, 3) { // plugins: nil / empty / short source with config / canonical source, config with non-string scalars
	case 1:
		step.Plugins = pipeline.Plugins{}
	case 2:
		step.Plugins = pipeline.Plugins{{Source: "docker#v1", Config: map[string]any{"image": vpStrUpTo(1, "x-z")}}, {Source: "q"}}
	case 3:
		step.Plugins = pipeline.Plugins{{Source: "github.com/o/r-buildkite-plugin#v2", Config: map[string]any{"n": 3, "f": 1.5, "t": true, "z": nil, "l": []any{"a", 1}, "m": map[string]any{"k": "v"}}}}
	}
	switch vpInt(0, 4) { // matrix: nil / empty / simple / named with adjustments / only adjustments
	case 1:
		step.Matrix = &pipeline.Matrix{}
	case 2:
		step.Matrix = &pipeline.Matrix{Setup: pipeline.MatrixSetup{"": {vpStr(1, "x-z"), "2"}}}
	case 3:
		step.Matrix = &pipeline.Matrix{Setup: pipeline.MatrixSetup{"os": {"l"}, "arch": {}}, Adjustments: pipeline.MatrixAdjustments{{With: pipeline.MatrixAdjustmentWith{"os": "w", "arch": "a"}, Skip: true}}}
	case 4:
		step.Matrix = &pipeline.Matrix{Adjustments: pipeline.MatrixAdjustments{{With: pipeline.MatrixAdjustmentWith{"": "x"}, RemainingFields: map[string]any{"soft_fail": true}}}}
	}
	label := vpStrUpTo(1, "a-c")
	step.Label = label
	penv := map[string]string{}
	pv := vpStrUpTo(1, "x-z")
	if vpBool() {
		penv["P"] = pv
		penv["A"] = "shadowed-or-not"
	}
	repo := "r" + vpStr(1, "a-c")

	var key Key
	var keySet any
	if vpBool() {
		s := vpSigSigner(1)
		key, keySet = s, s
	} else {
		alg := "EdDSA"
		switch vpInt(0, 2) {
		case 1:
			alg = "ES512"
		case 2:
			alg = "PS512"
		}
		k := vpSigKey(alg, 1)
		key, keySet = k, vpKeySetOf(k)
	}

	wait := &pipeline.WaitStep{Scalar: "wait"}
	grp := &pipeline.GroupStep{Steps: pipeline.Steps{&pipeline.CommandStep{Command: "inner"}}}
	steps := pipeline.Steps{step, wait, grp}
	err := SignSteps(ctx, steps, key, repo, WithEnv(penv))
	vpAssert(err == nil && step.Signature != nil, "signing succeeds")
	if err != nil || step.Signature == nil {
		return
	}
	w.ok = true
	venv := map[string]string{"UNRELATED": "u"}
	for k, v := range penv {
		venv[k] = v
	}
	w.steps, w.step, w.penv, w.pv, w.repo, w.keySet, w.venv = steps, step, penv, pv, repo, keySet, venv
	return w
}

func vpH_c02_roundtrip() {
	ctx := context.Background()
	w := vpMkC02World()
	if !w.ok {
		return
	}
	steps, step, penv, pv, repo, keySet, venv := w.steps, w.step, w.penv, w.pv, w.repo, w.keySet, w.venv

	// (1) step by step, the way an agent receives a job
	b, merr := json.Marshal(step)
	vpAssert(merr == nil, "the signed step marshals to JSON")
	if merr != nil {
		return
	}
	got := new(pipeline.CommandStep)
	uerr := got.UnmarshalJSON(b)
	vpAssert(uerr == nil, "the JSON form of the signed step is accepted by CommandStep.UnmarshalJSON")
	if uerr != nil {
		return
	}
	vpAssert(got.Signature != nil && got.Signature.Value == step.Signature.Value && got.Signature.Algorithm == step.Signature.Algorithm && len(got.Signature.SignedFields) == len(step.Signature.SignedFields), "the embedded signature survives the round trip unchanged")
	if got.Signature == nil {
		return
	}
	verr := Verify(ctx, got.Signature, keySet, &CommandStepWithInvariants{CommandStep: *got, RepositoryURL: repo}, WithEnv(venv))
	vpAssert(verr == nil, "the re-parsed step still verifies (CommandStep.UnmarshalJSON path)")

	// (2) as a whole pipeline
	p := &pipeline.Pipeline{Steps: steps}
	if len(penv) > 0 {
		p.Env = ordered.NewMap[string, string](2)
		p.Env.Set("P", pv)
		p.Env.Set("A", "shadowed-or-not")
	}
	pb, perr := json.Marshal(p)
	vpAssert(perr == nil, "the signed pipeline marshals to JSON")
	if perr != nil {
		return
	}
	var n yaml.Node
	vpAssert(yaml.Unmarshal(pb, &n) == nil, "the JSON form is readable")
	p2 := new(pipeline.Pipeline)
	vpAssert(ordered.Unmarshal(&n, p2) == nil, "the signed pipeline re-parses without warning")
	vpAssert(len(p2.Steps) == 3, "the step list keeps its length")
	if len(p2.Steps) != 3 {
		return
	}
	c2, isCmd := p2.Steps[0].(*pipeline.CommandStep)
	vpAssert(isCmd && c2.Signature != nil, "the signed step is still a command step with its signature")
	if !isCmd || c2.Signature == nil {
		return
	}
	verr2 := Verify(ctx, c2.Signature, keySet, &CommandStepWithInvariants{CommandStep: *c2, RepositoryURL: repo}, WithEnv(venv))
	vpAssert(verr2 == nil, "the re-parsed step still verifies (whole-pipeline path)")
	g2, isGrp := p2.Steps[2].(*pipeline.GroupStep)
	vpAssert(isGrp && len(g2.Steps) == 1, "groups survive")
	if isGrp && len(g2.Steps) == 1 {
		ic, ok := g2.Steps[0].(*pipeline.CommandStep)
		vpAssert(ok && ic.Signature != nil, "steps inside groups keep their signatures")
		if ok && ic.Signature != nil {
			vpAssert(Verify(ctx, ic.Signature, keySet, &CommandStepWithInvariants{CommandStep: *ic, RepositoryURL: repo}, WithEnv(venv)) == nil, "steps inside groups still verify")
		}
	}
}

// the YAML leg on the node data model (yaml.Marshal's encoder dispatch; the
// spelling of scalars in bytes is the library's)
func vpH_c02_yaml() {
	ctx := context.Background()
	w := vpMkC02World()
	if !w.ok {
		return
	}
	p := &pipeline.Pipeline{Steps: w.steps}
	if len(w.penv) > 0 {
		p.Env = ordered.NewMap[string, string](2)
		p.Env.Set("P", w.pv)
		p.Env.Set("A", "shadowed-or-not")
	}
	yb, yerr := yaml.Marshal(p)
	vpAssert(yerr == nil, "the signed pipeline marshals to YAML")
	if yerr != nil {
		return
	}
	var n yaml.Node
	vpAssert(yaml.Unmarshal(yb, &n) == nil, "the YAML form is readable")
	p2 := new(pipeline.Pipeline)
	vpAssert(ordered.Unmarshal(&n, p2) == nil, "the signed pipeline re-parses from YAML without warning")
	vpAssert(len(p2.Steps) == 3, "the step list keeps its length")
	if len(p2.Steps) != 3 {
		return
	}
	c2, isCmd := p2.Steps[0].(*pipeline.CommandStep)
	vpAssert(isCmd && c2.Signature != nil, "the signed step is still a command step with its signature (YAML)")
	if !isCmd || c2.Signature == nil {
		return
	}
	vpAssert(c2.Signature.Value == w.step.Signature.Value, "the signature value survives the YAML round trip")
	verr := Verify(ctx, c2.Signature, w.keySet, &CommandStepWithInvariants{CommandStep: *c2, RepositoryURL: w.repo}, WithEnv(w.venv))
	vpAssert(verr == nil, "the re-parsed step still verifies (YAML leg, whole-pipeline path)")
	g2, isGrp := p2.Steps[2].(*pipeline.GroupStep)
	if isGrp && len(g2.Steps) == 1 {
		ic, ok := g2.Steps[0].(*pipeline.CommandStep)
		vpAssert(ok && ic.Signature != nil, "steps inside groups keep their signatures (YAML)")
		if ok && ic.Signature != nil {
			vpAssert(Verify(ctx, ic.Signature, w.keySet, &CommandStepWithInvariants{CommandStep: *ic, RepositoryURL: w.repo}, WithEnv(w.venv)) == nil, "steps inside groups still verify (YAML)")
		}
	}
}

func init() { vpRegister("c02_scalars", vpH_c02_scalars) }

// Strings that, written plainly, read as another kind of scalar to some YAML
// reader (booleans, null, numbers in several bases, base-60 numbers, dates) are
// strings in a signed step: as an env value, a command, a plugin config value
// and a matrix value they come back as the same strings on both legs, and the
// step still verifies.
func vpH_c02_scalars() {
	ctx := context.Background()
	like := []string{"true", "~", "1.5", "0x1F", "1e3", "010", "1:30", "80:80", "8080:80", "2001-01-01", "yes", "-", "=", "<<"}[vpInt(0, 13)]
	step := &pipeline.CommandStep{Command: "c"}
	where := vpInt(0, 3)
	switch where {
	case 0:
		step.Env = map[string]string{"B": like}
	case 1:
		step.Command = like
	case 2:
		step.Plugins = pipeline.Plugins{{Source: "p#v1", Config: map[string]any{"k": like, "l": []any{like}}}}
	default:
		step.Matrix = &pipeline.Matrix{Setup: pipeline.MatrixSetup{"": {like, "m"}}}
	}
	s := vpSigSigner(1)
	steps := pipeline.Steps{step}
	err := SignSteps(ctx, steps, s, "r")
	vpAssert(err == nil && step.Signature != nil, "signing succeeds")
	if err != nil || step.Signature == nil {
		return
	}
	p := &pipeline.Pipeline{Steps: steps}
	for leg := 0; leg < 2; leg++ {
		var n yaml.Node
		if leg == 0 {
			b, merr := json.Marshal(p)
			vpAssert(merr == nil && yaml.Unmarshal(b, &n) == nil, "the signed pipeline marshals to readable JSON")
		} else {
			b, merr := yaml.Marshal(p)
			vpAssert(merr == nil && yaml.Unmarshal(b, &n) == nil, "the signed pipeline marshals to readable YAML")
		}
		p2 := new(pipeline.Pipeline)
		if ordered.Unmarshal(&n, p2) != nil || len(p2.Steps) != 1 {
			vpAssert(false, "the marshalled pipeline re-parses to one step without warning")
			continue
		}
		c2, isCmd := p2.Steps[0].(*pipeline.CommandStep)
		vpAssert(isCmd && c2.Signature != nil, "the step is still a signed command step after the round trip")
		if isCmd && c2.Signature != nil {
			vpAssert(Verify(ctx, c2.Signature, s, &CommandStepWithInvariants{CommandStep: *c2, RepositoryURL: "r"}) == nil, "a signed step whose strings look like other scalars still verifies after marshal and re-parse")
		}
	}
}
