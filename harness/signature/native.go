//go:build verif

package signature

import (
	"crypto"
	"crypto/ecdsa"
	"crypto/elliptic"
	"crypto/rand"
	"fmt"
	"io"

	"github.com/buildkite/go-pipeline/jwkutil"
	"github.com/lestrrat-go/jwx/v2/jwa"
	"github.com/lestrrat-go/jwx/v2/jwk"
)

// Abstract key material. Under the engine these functions are intercepted and
// return engine-native objects of the ideal signature scheme (DESIGN.md §3.2);
// natively they are realised with real generated keys, so a replay exercises
// real EdDSA / ES512 / PS512 / ES256.

type vpKeyPair struct{ priv, pub jwk.Key }

var vpKeyCache = map[string]vpKeyPair{}

func vpPair(alg string, id int) vpKeyPair {
	ck := fmt.Sprintf("%s/%d", alg, id)
	if kp, ok := vpKeyCache[ck]; ok {
		return kp
	}
	var a jwa.SignatureAlgorithm
	switch alg {
	case "EdDSA":
		a = jwa.EdDSA
	case "ES512":
		a = jwa.ES512
	case "PS512":
		a = jwa.PS512
	default:
		vpOutside("algorithm cannot be realised natively: " + alg)
	}
	privSet, pubSet, err := jwkutil.NewKeyPair(fmt.Sprintf("k%d", id), a)
	if err != nil {
		vpOutside("key generation failed: " + err.Error())
	}
	priv, ok1 := privSet.Key(0)
	pub, ok2 := pubSet.Key(0)
	if !ok1 || !ok2 {
		vpOutside("generated key set is empty")
	}
	kp := vpKeyPair{priv, pub}
	vpKeyCache[ck] = kp
	return kp
}

// vpSigKey: the private JWK with this algorithm and identity (same id = same key pair).
func vpSigKey(alg string, id int) jwk.Key { return vpPair(alg, id).priv }

// vpSigKeyKid: the private JWK with this algorithm and identity, carrying the
// given key id (two different keys may carry the same id, e.g. after a rotation).
func vpSigKeyKid(alg string, id int, kid string) jwk.Key {
	k, err := vpPair(alg, id).priv.Clone()
	if err != nil {
		vpOutside("cannot clone key: " + err.Error())
	}
	if err := k.Set(jwk.KeyIDKey, kid); err != nil {
		vpOutside("cannot set kid: " + err.Error())
	}
	return k
}

type vpSigner struct {
	key *ecdsa.PrivateKey
}

func (s vpSigner) Public() crypto.PublicKey { return &s.key.PublicKey }
func (s vpSigner) Sign(r io.Reader, digest []byte, opts crypto.SignerOpts) ([]byte, error) {
	return s.key.Sign(r, digest, opts)
}
func (s vpSigner) Algorithm() jwa.KeyAlgorithm { return jwa.ES256 }

var vpSignerCache = map[int]vpSignerKey{}

// vpSignerKey is what Sign accepts besides a jwk.Key: a crypto.Signer with Algorithm().
type vpSignerKey interface {
	crypto.Signer
	Algorithm() jwa.KeyAlgorithm
}

// vpSigSigner: a crypto.Signer (ECDSA P-256) that also reports ES256.
func vpSigSigner(id int) vpSignerKey {
	if s, ok := vpSignerCache[id]; ok {
		return s
	}
	k, err := ecdsa.GenerateKey(elliptic.P256(), rand.Reader)
	if err != nil {
		vpOutside("key generation failed")
	}
	s := vpSigner{k}
	vpSignerCache[id] = s
	return s
}

// vpKeySetOf: the verification key set holding the public halves.
func vpKeySetOf(keys ...jwk.Key) jwk.Set {
	set := jwk.NewSet()
	for _, k := range keys {
		pub, err := k.PublicKey()
		if err != nil {
			vpOutside("no public key")
		}
		if err := set.AddKey(pub); err != nil {
			vpOutside("cannot add key: " + err.Error())
		}
	}
	return set
}

// vpForgedSignature: a value no Sign call produced.
func vpForgedSignature() string { return "e30..AAAA" }
