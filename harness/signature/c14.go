//go:build verif

package signature

import (
	"bytes"
	"context"

	"github.com/buildkite/go-pipeline"
)

// C14 - the canonical signing payload is deterministic, order-insensitive and
// injective (on the JSON data model; bytes are the libraries').
// Observation point: the payload handed to the Logger under WithDebugSigning(true).

func init() {
	vpRegister("c14_payload", vpH_c14_payload)
}

type vpLogger struct{ payloads [][]byte }

func (l *vpLogger) Debug(f string, v ...any) {
	if len(f) >= 11 && f[:11] == "Signed Step" && len(v) > 0 {
		if b, ok := v[0].([]byte); ok {
			l.payloads = append(l.payloads, b)
		}
	}
}

type vpWorld struct {
	step *pipeline.CommandStep
	penv map[string]string
	repo string
	alg  string
}

func vpPayloadOf(w vpWorld) []byte {
	p, _ := vpSignPayload(w)
	return p
}

// vpVerifyPayload: the payload Verify builds (and logs) when the signature
// record sig is checked against world w; nil when Verify gives up before
// building one.
func vpVerifyPayload(sig *pipeline.Signature, w vpWorld) ([]byte, error) {
	lg := &vpLogger{}
	k := vpSigKey("EdDSA", 1)
	err := Verify(context.Background(), sig, vpKeySetOf(k), &CommandStepWithInvariants{CommandStep: *w.step, RepositoryURL: w.repo},
		WithEnv(w.penv), WithLogger(lg), WithDebugSigning(true))
	if len(lg.payloads) == 0 {
		return nil, err
	}
	return lg.payloads[len(lg.payloads)-1], err
}

func vpSignPayload(w vpWorld) ([]byte, *pipeline.Signature) {
	lg := &vpLogger{}
	key := vpSigKey(w.alg, 1)
	sig, err := Sign(context.Background(), key, &CommandStepWithInvariants{CommandStep: *w.step, RepositoryURL: w.repo},
		WithEnv(w.penv), WithLogger(lg), WithDebugSigning(true))
	vpAssert(err == nil, "signing succeeds")
	vpAssert(len(lg.payloads) == 1, "the payload is logged once under debug signing")
	if len(lg.payloads) != 1 {
		return nil, nil
	}
	return lg.payloads[0], sig
}

func vpH_c14_payload() {
	c := vpStr(1, "a-c")
	ev, cv, pv := vpStr(1, "x-z"), vpStr(1, "x-z"), vpStr(1, "x-z")
	r := "r" + vpStr(1, "a-c")
	x := vpStr(1, "a-c")

	// the pipeline variable's name may start with a word the package itself mentions (reserved-looking prefixes)
	pn := vpStrConstLike("*", "^[A-Z][A-Z_]*_$", "") + "P"
	mk := func() vpWorld {
		return vpWorld{
			step: &pipeline.CommandStep{
				Command: c,
				Env:     map[string]string{"A": ev, "B": "b"},
				Plugins: pipeline.Plugins{{Source: "p#v1", Config: map[string]any{"k": cv, "l": []any{1, "s"}}}},
			},
			penv: map[string]string{pn: pv, "Q": "q"},
			repo: r,
			alg:  "EdDSA",
		}
	}
	w1, w2 := mk(), mk()
	top := 21
	if vpParam("verifyside") != 0 {
		top = 27 // the config pairs, case variants, matrix extras and nil/empty inside a matrix do not depend on map orders: fixed-order configuration only
	}
	kind := vpInt(0, top)
	collide := kind <= 3 || kind == 26
	switch kind {
	case 27: // repository URLs that a URL library would print alike are different repositories
		// (concrete spellings: code that hands them to a URL library can be followed)
		switch vpInt(0, 5) {
		case 3: // another port is another server
			w1.repo, w2.repo = "ssh://git@h.example:2222/o/r.git", "ssh://git@h.example:2223/o/r.git"
		case 4:
			w1.repo, w2.repo = "https://h.example/o/r.git", "https://h.example/o/r"
		case 5:
			w1.repo, w2.repo = "https://h.example:8443/o/r", "https://h.example/o/r"
		case 0:
			w1.repo, w2.repo = "rx", "rx#"
		case 1:
			w1.repo, w2.repo = "o/r.git", "o/r.git#"
		default:
			w1.repo, w2.repo = "rx#a", "rx#"
		}
	case 26: // nil versus empty containers inside a matrix
		w1.step.Matrix = &pipeline.Matrix{Setup: pipeline.MatrixSetup{"os": {"m"}}}
		w2.step.Matrix = &pipeline.Matrix{Setup: pipeline.MatrixSetup{"os": {"m"}}, Adjustments: pipeline.MatrixAdjustments{}, RemainingFields: map[string]any{}}
	case 24: // an unknown matrix-level key next to the anonymous dimension is signed content
		w1.step.Matrix = &pipeline.Matrix{Setup: pipeline.MatrixSetup{"": {"m"}}, RemainingFields: map[string]any{"limit": x}}
		w2.step.Matrix = &pipeline.Matrix{Setup: pipeline.MatrixSetup{"": {"m"}}}
	case 25: // ... and so is its value
		vpAssume(x != c)
		w1.step.Matrix = &pipeline.Matrix{Setup: pipeline.MatrixSetup{"": {"m"}}, RemainingFields: map[string]any{"limit": x}}
		w2.step.Matrix = &pipeline.Matrix{Setup: pipeline.MatrixSetup{"": {"m"}}, RemainingFields: map[string]any{"limit": c}}
	case 23: // a pipeline variable whose name differs from a step variable only in letter case is its own variable
		vpAssume(x != pv)
		w1.penv = map[string]string{"a": pv}
		w2.penv = map[string]string{"a": x}
	case 22: // plugin config: nil and the empty containers are one value; every scalar (also a falsy one) is its own
		configs := []any{nil, map[string]any{}, []any{}, false, 0, "", true, "x", 1.5, []any{false}, map[string]any{"k": nil}}
		i, j := vpInt(0, len(configs)-1), vpInt(0, len(configs)-1)
		vpAssume(i < j)
		w1.step.Plugins[0].Config, w2.step.Plugins[0].Config = configs[i], configs[j]
		collide = j <= 2
	case 0: // same content, other insertion orders
		w2.step.Env = map[string]string{"B": "b", "A": ev}
		w2.step.Plugins[0].Config = map[string]any{"l": []any{1, "s"}, "k": cv}
		w2.penv = map[string]string{"Q": "q", pn: pv}
	case 1: // nil versus empty containers
		w1.step.Env, w2.step.Env = nil, map[string]string{}
		w1.step.Plugins, w2.step.Plugins = nil, pipeline.Plugins{}
		w1.step.Matrix, w2.step.Matrix = nil, &pipeline.Matrix{}
	case 2: // short versus canonical plugin source
		w2.step.Plugins[0].Source = "github.com/buildkite-plugins/p-buildkite-plugin#v1"
	case 3: // nil versus empty pipeline env; nil vs empty plugin config
		w1.penv, w2.penv = nil, map[string]string{}
		w1.step.Plugins[0].Config, w2.step.Plugins[0].Config = nil, map[string]any{}
	case 4: // command differs
		vpAssume(x != c)
		w2.step.Command = x
	case 5: // step env value differs
		vpAssume(x != ev)
		w2.step.Env["A"] = x
	case 6: // step env key differs
		delete(w2.step.Env, "A")
		w2.step.Env["C"] = ev
	case 7: // plugin config differs
		vpAssume(x != cv)
		w2.step.Plugins[0].Config = map[string]any{"k": x, "l": []any{1, "s"}}
	case 8: // plugin source differs
		w2.step.Plugins[0].Source = "p#v2"
	case 9: // repository differs
		w2.repo = r + "x"
	case 10: // algorithm differs
		w2.alg = "ES512"
	case 11: // pipeline env value differs
		vpAssume(x != pv)
		w2.penv[pn] = x
	case 12: // boundary shift between adjacent fields: command | repository
		w1.step.Command, w1.repo = c+x, r
		w2.step.Command, w2.repo = c, x+r
	case 13: // boundary shift between an env key and its value
		w1.step.Env = map[string]string{"A" + x: ev}
		w2.step.Env = map[string]string{"A": x + ev}
	case 14: // a step env entry versus the same pipeline env entry
		w1.step.Env, w1.penv = map[string]string{"X": ev}, nil
		w2.step.Env, w2.penv = nil, map[string]string{"X": ev}
	case 15: // matrix differs
		w1.step.Matrix = &pipeline.Matrix{Setup: pipeline.MatrixSetup{"": {"m", x}}}
		w2.step.Matrix = &pipeline.Matrix{Setup: pipeline.MatrixSetup{"": {"m" + x}}}
	case 16: // plugin order differs
		w1.step.Plugins = pipeline.Plugins{{Source: "p"}, {Source: "q"}}
		w2.step.Plugins = pipeline.Plugins{{Source: "q"}, {Source: "p"}}
	case 18: // a named dimension differs next to the anonymous dimension
		vpAssume(x != c)
		w1.step.Matrix = &pipeline.Matrix{Setup: pipeline.MatrixSetup{"": {"m"}, "os": {x}}}
		w2.step.Matrix = &pipeline.Matrix{Setup: pipeline.MatrixSetup{"": {"m"}, "os": {c}}}
	case 19: // anonymous-only versus anonymous plus a named dimension
		w1.step.Matrix = &pipeline.Matrix{Setup: pipeline.MatrixSetup{"": {"m"}}}
		w2.step.Matrix = &pipeline.Matrix{Setup: pipeline.MatrixSetup{"": {"m"}, x: {"v"}}}
	case 20: // adjustment tuple: value moved between two dimensions
		w1.step.Matrix = &pipeline.Matrix{Setup: pipeline.MatrixSetup{"a": {"1"}, "b": {"2"}}, Adjustments: pipeline.MatrixAdjustments{{With: pipeline.MatrixAdjustmentWith{"a": x, "b": "q"}}}}
		w2.step.Matrix = &pipeline.Matrix{Setup: pipeline.MatrixSetup{"a": {"1"}, "b": {"2"}}, Adjustments: pipeline.MatrixAdjustments{{With: pipeline.MatrixAdjustmentWith{"a": "q", "b": x}}}}
		vpAssume(x != "q")
	case 21: // a pipeline variable with an empty value versus no such variable
		w1.penv = map[string]string{pn: pv, "E": ""}
		w2.penv = map[string]string{pn: pv}
	case 17: // boundary shift between two pipeline env entries
		w1.penv = map[string]string{pn: pv + x, "Q": "q"}
		w2.penv = map[string]string{pn: pv, "Q": x + "q"}
	}
	p1, sig1 := vpSignPayload(w1)
	p2 := vpPayloadOf(w2)
	if p1 == nil || p2 == nil {
		return
	}
	if collide {
		vpAssert(bytes.Equal(p1, p2), "re-orderings, nil/empty containers and equivalent source spellings give the identical payload")
	} else {
		vpAssert(!bytes.Equal(p1, p2), "any difference in the content of a signed field gives a different payload (also boundary shifts)")
	}
	// the verify side: the payload Verify rebuilds from a presented world
	if vpParam("verifyside") != 0 && sig1 != nil && kind != 10 {
		vp, verr := vpVerifyPayload(sig1, w2)
		if collide {
			vpAssert(vp != nil && bytes.Equal(vp, p1) && verr == nil, "Verify rebuilds the identical payload from an equivalent world and accepts it")
		} else if vp != nil {
			vpAssert(!bytes.Equal(vp, p1), "Verify never rebuilds the signed payload from a world whose signed content differs")
		}
	}
	// determinism: signing the same world again gives the same payload
	vpAssert(bytes.Equal(p1, vpPayloadOf(w1)), "the payload is the same on every run")
}
