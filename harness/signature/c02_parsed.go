//go:build verif

package signature

import (
	"context"
	"encoding/json"

	"github.com/buildkite/go-pipeline"
	"github.com/buildkite/go-pipeline/ordered"
	"gopkg.in/yaml.v3"
)

// C02 on steps that come out of the parser (the upload path: parse the
// pipeline document, sign, serialise, re-parse, verify). The programmatic
// world of c02_roundtrip cannot contain what only the parser produces - nil
// versus empty slices, stringified scalars, the plugin spellings - so here the
// step is a document in the decoder's input form.

func init() {
	vpRegister("c02_parsed", vpH_c02_parsed)
	vpRegister("c02_resigned", vpH_c02_resigned)
}

func vpDocMap(kv ...any) *ordered.MapSA {
	m := ordered.NewMap[string, any](len(kv) / 2)
	for i := 0; i+1 < len(kv); i += 2 {
		m.Set(kv[i].(string), kv[i+1])
	}
	return m
}

func vpH_c02_parsed() {
	ctx := context.Background()
	v1 := vpStr(1, "x-z")
	doc := vpDocMap("command", vpStrUpTo(1, "a-c"))
	switch vpInt(0, 10) { // matrix spellings
	case 10: // explicitly empty adjustments and an empty extra next to named dimensions
		doc.Set("matrix", vpDocMap("setup", vpDocMap("os", []any{v1}), "adjustments", []any{}, "notes", []any{}, "opts", vpDocMap()))
	case 1:
		doc.Set("matrix", []any{}) // `matrix: []`
	case 2:
		doc.Set("matrix", []any{v1, 2, true, 1.5})
	case 3:
		doc.Set("matrix", vpDocMap("setup", []any{}))
	case 4:
		doc.Set("matrix", vpDocMap("setup", []any{}, "adjustments", []any{vpDocMap("with", v1)}))
	case 5:
		doc.Set("matrix", vpDocMap("setup", []any{v1, 7}, "adjustments", []any{vpDocMap("with", "q", "skip", true)}))
	case 6:
		doc.Set("matrix", vpDocMap("setup", vpDocMap("os", []any{v1, 3}, "arch", []any{}), "adjustments", []any{vpDocMap("with", vpDocMap("os", "w", "arch", 5), "soft_fail", true)}))
	case 7:
		doc.Set("matrix", vpDocMap("setup", vpDocMap()))
	case 8:
		doc.Set("matrix", vpDocMap("setup", nil, "adjustments", []any{vpDocMap("with", vpDocMap("os", v1))}))
	case 9:
		doc.Set("matrix", vpDocMap())
	}
	switch vpInt(0, 3) { // env spellings
	case 1:
		doc.Set("env", vpDocMap())
	case 2:
		doc.Set("env", vpDocMap("A", v1, "N", 12, "B", true, "Z", nil))
	case 3:
		doc.Set("env", nil)
	}
	switch vpInt(0, 5) { // plugin spellings
	case 5: // explicitly empty configs
		doc.Set("plugins", []any{vpDocMap("ecr#v2", vpDocMap()), vpDocMap("s3#v1", []any{}), vpDocMap("q#v1", vpDocMap("nested", vpDocMap(), "l", []any{}))})
	case 1:
		doc.Set("plugins", []any{})
	case 2:
		doc.Set("plugins", []any{"docker#v1", vpDocMap("q", nil), vpDocMap("ecr#v2", vpDocMap("login", true, "n", 3))})
	case 3:
		doc.Set("plugins", vpDocMap("docker#v1", vpDocMap("image", v1), "q", nil))
	case 4:
		doc.Set("plugins", nil)
	}
	if vpBool() {
		doc.Set("label", v1)
		doc.Set("zzz_extra", []any{1, "two", nil})
	}
	step := new(pipeline.CommandStep)
	if err := ordered.Unmarshal(doc, step); err != nil {
		vpCover("the document is rejected by the parser")
		return
	}
	penv := map[string]string{}
	if vpBool() {
		penv["P"] = v1
		penv["A"] = "shadowed-or-not"
	}
	repo := "r"
	s := vpSigSigner(1)
	steps := pipeline.Steps{step}
	err := SignSteps(ctx, steps, s, repo, WithEnv(penv))
	vpAssert(err == nil && step.Signature != nil, "signing the parsed step succeeds")
	if err != nil || step.Signature == nil {
		return
	}
	p := &pipeline.Pipeline{Steps: steps}

	// JSON leg
	pb, perr := json.Marshal(p)
	vpAssert(perr == nil, "the signed parsed pipeline marshals to JSON")
	if perr == nil {
		var n yaml.Node
		vpAssert(yaml.Unmarshal(pb, &n) == nil, "the JSON form is readable")
		p2 := new(pipeline.Pipeline)
		vpAssert(ordered.Unmarshal(&n, p2) == nil, "the JSON form re-parses without warning")
		if len(p2.Steps) == 1 {
			c2, isCmd := p2.Steps[0].(*pipeline.CommandStep)
			vpAssert(isCmd && c2.Signature != nil, "the signed parsed step is still a signed command step (JSON)")
			if isCmd && c2.Signature != nil {
				vpAssert(Verify(ctx, c2.Signature, s, &CommandStepWithInvariants{CommandStep: *c2, RepositoryURL: repo}, WithEnv(penv)) == nil, "a parsed, signed step still verifies after the JSON round trip")
			}
		} else {
			vpAssert(false, "the step list keeps its length (JSON)")
		}
		// the way an agent receives one step
		sb, serr := json.Marshal(step)
		if serr == nil {
			got := new(pipeline.CommandStep)
			if got.UnmarshalJSON(sb) == nil && got.Signature != nil {
				vpAssert(Verify(ctx, got.Signature, s, &CommandStepWithInvariants{CommandStep: *got, RepositoryURL: repo}, WithEnv(penv)) == nil, "a parsed, signed step still verifies after the single-step JSON round trip")
			} else {
				vpAssert(false, "the JSON form of the signed parsed step is accepted by CommandStep.UnmarshalJSON")
			}
		}
	}

	// YAML leg
	yb, yerr := yaml.Marshal(p)
	vpAssert(yerr == nil, "the signed parsed pipeline marshals to YAML")
	if yerr == nil {
		var n yaml.Node
		vpAssert(yaml.Unmarshal(yb, &n) == nil, "the YAML form is readable")
		p2 := new(pipeline.Pipeline)
		vpAssert(ordered.Unmarshal(&n, p2) == nil, "the YAML form re-parses without warning")
		if len(p2.Steps) == 1 {
			c2, isCmd := p2.Steps[0].(*pipeline.CommandStep)
			vpAssert(isCmd && c2.Signature != nil, "the signed parsed step is still a signed command step (YAML)")
			if isCmd && c2.Signature != nil {
				vpAssert(Verify(ctx, c2.Signature, s, &CommandStepWithInvariants{CommandStep: *c2, RepositoryURL: repo}, WithEnv(penv)) == nil, "a parsed, signed step still verifies after the YAML round trip")
			}
		} else {
			vpAssert(false, "the step list keeps its length (YAML)")
		}
	}
}

// Documents that were signed before (they carry `signature:` blocks that are
// stale for the present key) and plugin sources in unusual but legal spellings
// (trailing or doubled slashes, dot segments): after signing now, what is
// marshalled and re-parsed verifies.
func vpH_c02_resigned() {
	ctx := context.Background()
	doc := vpDocMap("command", "c")
	stale := vpBool()
	if stale {
		doc.Set("signature", vpDocMap("algorithm", "EdDSA", "signed_fields", []any{"command", "env", "matrix", "plugins", "repository_url"}, "value", "stale"))
	}
	srcs := []string{"thing", "o/t/", "o//t#v1", "o/t/#v1", "./x//y", "a/b/c/", "o/./t", "github.com/o/t-buildkite-plugin/#v2", "Thing", "My-Org/T#V1", "github.com/buildkite-plugins/thing-buildkite-plugin"}
	if vpBool() {
		doc.Set("plugins", []any{srcs[vpInt(0, len(srcs)-1)], vpDocMap(srcs[vpInt(0, len(srcs)-1)], vpDocMap("k", "v"))})
	}
	step := new(pipeline.CommandStep)
	if err := ordered.Unmarshal(doc, step); err != nil {
		return
	}
	s := vpSigSigner(1)
	steps := pipeline.Steps{step}
	err := SignSteps(ctx, steps, s, "r")
	vpAssert(err == nil && step.Signature != nil, "signing a parsed (possibly already signed) step succeeds")
	if err != nil || step.Signature == nil {
		return
	}
	vpAssert(Verify(ctx, step.Signature, s, &CommandStepWithInvariants{CommandStep: *step, RepositoryURL: "r"}) == nil, "the step verifies in memory under the key that signed it now")
	p := &pipeline.Pipeline{Steps: steps}
	for leg := 0; leg < 2; leg++ {
		var n yaml.Node
		if leg == 0 {
			b, merr := json.Marshal(p)
			vpAssert(merr == nil && yaml.Unmarshal(b, &n) == nil, "the signed pipeline marshals to readable JSON")
		} else {
			b, merr := yaml.Marshal(p)
			vpAssert(merr == nil && yaml.Unmarshal(b, &n) == nil, "the signed pipeline marshals to readable YAML")
		}
		p2 := new(pipeline.Pipeline)
		if ordered.Unmarshal(&n, p2) != nil || len(p2.Steps) != 1 {
			vpAssert(false, "the marshalled pipeline re-parses to one step without warning")
			continue
		}
		c2, isCmd := p2.Steps[0].(*pipeline.CommandStep)
		vpAssert(isCmd && c2.Signature != nil, "the step is still a signed command step after the round trip")
		if isCmd && c2.Signature != nil {
			vpAssert(Verify(ctx, c2.Signature, s, &CommandStepWithInvariants{CommandStep: *c2, RepositoryURL: "r"}) == nil, "a step signed now (stale earlier signature replaced, unusual source spellings) still verifies after marshal and re-parse")
		}
	}
}
