//go:build verif

package ordered

// C16 - the reflective unmarshaler assigns every input key to exactly one destination.

func init() {
	vpRegister("c16_scalars", vpH_c16_scalars)
	vpRegister("c16_containers", vpH_c16_containers)
	vpRegister("c16_inline_struct", vpH_c16_inline_struct)
	vpRegister("c16_tags", vpH_c16_tags)
	vpRegister("c16_reuse", vpH_c16_reuse)
	vpRegister("c16_twice", vpH_c16_twice)
	vpRegister("c16_wide", vpH_c16_wide)
}

type vpT1 struct {
	A        string `yaml:"a"`
	B        string `yaml:"b" aliases:"bb,bbb"`
	C        string `yaml:"c,omitempty"`
	Skip     string `yaml:"-"`
	Untagged string
	hidden   string
	Rest     map[string]any `yaml:",inline"`
}

type vpInner struct {
	X string `yaml:"x"`
	Y string `yaml:"y" aliases:"yy"`
}

type vpT2 struct {
	L    []string          `yaml:"l"`
	M    map[string]string `yaml:"m"`
	N    vpInner           `yaml:"n"`
	P    *vpInner          `yaml:"p" aliases:"pp"`
	Rest *MapSA            `yaml:",inline"`
}

type vpT3 struct {
	Own string `yaml:"own" aliases:"o"`
	Rem *vpT1  `yaml:",inline"`
}

// vpSrcBuilder builds the input mapping and remembers it as ordered lists for the oracle.
type vpSrcBuilder struct {
	m    *MapSA
	keys []string
	vals []any
}

func (b *vpSrcBuilder) set(k string, v any) {
	for i, o := range b.keys {
		if o == k {
			b.vals[i] = v
			b.m.Set(k, v)
			return
		}
	}
	b.keys = append(b.keys, k)
	b.vals = append(b.vals, v)
	b.m.Set(k, v)
}

func (b *vpSrcBuilder) get(k string) (any, bool) {
	for i, o := range b.keys {
		if o == k {
			return b.vals[i], true
		}
	}
	return nil, false
}

// optStr adds key k with a symbolic one-byte string value, or null, or not at all.
func (b *vpSrcBuilder) optStr(k string) {
	switch vpInt(0, 2) {
	case 1:
		b.set(k, vpStr(1, "x-z"))
	case 2:
		b.set(k, nil)
	}
}

func vpStrOr(v any, present bool, sentinel string) string {
	if !present {
		return sentinel
	}
	if v == nil {
		return "" // null zeroes the field
	}
	s, _ := v.(string)
	return s
}

// ---- scalar fields, alias list, `-`, untagged, unexported, inline map ----

func vpH_c16_scalars() {
	b := &vpSrcBuilder{m: NewMap[string, any](0)}
	// the source may carry a deleted entry that was not compacted away
	tomb := vpBool()
	if tomb {
		b.m.Set("a", "stale") // deleted below: must leave no trace, whatever the field names say
		b.m.Set("tombstone", "stale")
	}
	nfree := vpParam("free")
	// free keys first or last, so that their position relative to named keys varies
	freeFirst := vpBool()
	addFree := func() {
		for i := 0; i < nfree; i++ {
			if vpBool() {
				b.set(vpStrUpTo(2, "a-c"), vpStr(1, "x-z"))
			}
		}
	}
	if freeFirst {
		addFree()
	}
	for _, k := range []string{"a", "b", "bb", "bbb", "c", "skip", "untagged", "hidden"} {
		b.optStr(k)
	}
	if !freeFirst {
		addFree()
	}
	if tomb {
		b.m.Delete("tombstone")
		if _, has := b.get("a"); !has {
			b.m.Delete("a")
		}
	}

	dst := vpT1{A: "SA", B: "SB", C: "SC", Skip: "SS", Untagged: "SU", hidden: "SH"}
	err := Unmarshal(b.m, &dst)
	vpAssert(err == nil, "well-typed input unmarshals without error")

	consumed := map[string]bool{}
	av, ah := b.get("a")
	if ah {
		consumed["a"] = true
	}
	vpAssert(dst.A == vpStrOr(av, ah, "SA"), "field with a plain tag takes its key; absent leaves it untouched; null zeroes it")
	wantB := "SB"
	for _, k := range []string{"b", "bb", "bbb"} {
		if v, has := b.get(k); has {
			wantB = vpStrOr(v, true, "")
			consumed[k] = true
			break
		}
	}
	vpAssert(dst.B == wantB, "field takes its primary key, else its first present alias")
	cv, ch := b.get("c")
	if ch {
		consumed["c"] = true
	}
	vpAssert(dst.C == vpStrOr(cv, ch, "SC"), "omitempty does not change which key a field takes")
	uv, uh := b.get("untagged")
	if uh {
		consumed["untagged"] = true
	}
	vpAssert(dst.Untagged == vpStrOr(uv, uh, "SU"), "an untagged field takes its lower-cased name")
	vpAssert(dst.Skip == "SS" && dst.hidden == "SH", "`-` and unexported fields are never written")

	// everything not consumed by a field lands in the inline map, exactly once
	nrest := 0
	for i, k := range b.keys {
		if consumed[k] {
			_, dup := dst.Rest[k]
			vpAssert(!dup, "a key consumed by a field is not duplicated into the inline map")
			continue
		}
		nrest++
		got, ok := dst.Rest[k]
		vpAssert(ok, "a key no field names is kept in the inline map")
		vpAssert(ok && got == b.vals[i], "the inline map keeps the value unchanged")
	}
	vpAssert(len(dst.Rest) == nrest, "the inline map holds nothing else")
}

// ---- slices, maps, nested structs, pointers, inline *MapSA (ordered) ----

func vpH_c16_containers() {
	b := &vpSrcBuilder{m: NewMap[string, any](0)}
	if vpBool() {
		b.set(vpStrUpTo(1, "a-c"), vpStr(1, "x-z"))
	}
	lKind := vpInt(0, 3) // absent, list, scalar (appended), null
	l1, l2 := vpStr(1, "x-z"), vpStr(1, "x-z")
	switch lKind {
	case 1:
		b.set("l", []any{l1, l2})
	case 2:
		b.set("l", l1)
	case 3:
		b.set("l", nil)
	}
	mKind := vpInt(0, 2)
	mk, mv := vpStrUpTo(1, "a-b"), vpStr(1, "x-z")
	if mKind == 1 {
		mm := NewMap[string, any](0)
		mm.Set(mk, mv)
		b.set("m", mm)
	} else if mKind == 2 {
		b.set("m", nil)
	}
	nx, ny := vpStr(1, "x-z"), vpStr(1, "x-z")
	nKind := vpInt(0, 2) // absent, {x, yy}, {y, yy, extra}
	switch nKind {
	case 1:
		nm := NewMap[string, any](0)
		nm.Set("x", nx)
		nm.Set("yy", ny)
		b.set("n", nm)
	case 2:
		nm := NewMap[string, any](0)
		nm.Set("yy", nx)
		nm.Set("y", ny)
		b.set("n", nm)
	}
	pKind := vpInt(0, 3) // absent, p, pp (alias), null
	px := vpStr(1, "x-z")
	pm := NewMap[string, any](0)
	pm.Set("x", px)
	switch pKind {
	case 1:
		b.set("p", pm)
	case 2:
		b.set("pp", pm)
	case 3:
		b.set("p", nil)
	}
	if vpBool() {
		b.set(vpStrUpTo(2, "a-c"), vpStr(1, "x-z"))
	}

	old := &vpInner{X: "OX", Y: "OY"}
	dst := vpT2{L: []string{"L0"}, N: vpInner{X: "NX", Y: "NY"}, P: old}
	err := Unmarshal(b.m, &dst)
	vpAssert(err == nil, "well-typed input unmarshals without error")

	consumed := map[string]bool{}
	switch lKind {
	case 0:
		vpAssert(len(dst.L) == 1 && dst.L[0] == "L0", "absent list key leaves the slice untouched")
	case 1:
		consumed["l"] = true
		vpAssert(len(dst.L) == 3 && dst.L[0] == "L0" && dst.L[1] == l1 && dst.L[2] == l2, "a list is appended elementwise to the slice field")
	case 2:
		consumed["l"] = true
		vpAssert(len(dst.L) == 2 && dst.L[1] == l1, "a scalar is appended to a slice field")
	case 3:
		consumed["l"] = true
		vpAssert(dst.L == nil, "null zeroes a slice field")
	}
	switch mKind {
	case 0:
		vpAssert(dst.M == nil, "absent map key leaves the map field untouched")
	case 1:
		consumed["m"] = true
		vpAssert(len(dst.M) == 1 && dst.M[mk] == mv, "a mapping fills a map field")
	case 2:
		consumed["m"] = true
		vpAssert(dst.M == nil, "null zeroes a map field")
	}
	switch nKind {
	case 0:
		vpAssert(dst.N.X == "NX" && dst.N.Y == "NY", "absent key leaves a nested struct untouched")
	case 1:
		consumed["n"] = true
		vpAssert(dst.N.X == nx && dst.N.Y == ny, "nested struct: primary key and alias")
	case 2:
		consumed["n"] = true
		vpAssert(dst.N.X == "NX" && dst.N.Y == ny, "nested struct: primary key wins over its alias; absent key untouched")
	}
	switch pKind {
	case 0:
		vpAssert(dst.P == old && old.X == "OX", "absent key leaves a pointer field untouched")
	case 1:
		consumed["p"] = true
		vpAssert(dst.P == old && dst.P.X == px && dst.P.Y == "OY", "a mapping is decoded into the existing pointee")
	case 2:
		consumed["pp"] = true
		vpAssert(dst.P != nil && dst.P.X == px, "a pointer field takes its alias")
	case 3:
		consumed["p"] = true
		vpAssert(dst.P == nil, "null zeroes a pointer field")
	}
	// leftovers, in document order, in the ordered inline map
	var restK []string
	var restV []any
	for i, k := range b.keys {
		if !consumed[k] {
			restK, restV = append(restK, k), append(restV, b.vals[i])
		}
	}
	if len(restK) == 0 {
		vpAssert(dst.Rest == nil, "no leftover keys: the inline field is left alone")
		return
	}
	vpAssert(dst.Rest != nil && dst.Rest.Len() == len(restK), "every leftover key is in the inline map, nothing else")
	i := 0
	dst.Rest.Range(func(k string, v any) error {
		vpAssert(i < len(restK) && k == restK[i] && v == restV[i], "the ordered inline map keeps leftovers in document order with their values")
		i++
		return nil
	})
}

// ---- inline pointer-to-struct (the CommandStep pattern) ----

func vpH_c16_inline_struct() {
	b := &vpSrcBuilder{m: NewMap[string, any](0)}
	for _, k := range []string{"own", "o", "a", "bb", "c"} {
		b.optStr(k)
	}
	if vpBool() {
		b.set(vpStrUpTo(1, "a-c"), vpStr(1, "x-z"))
	}
	inner := &vpT1{A: "SA", B: "SB", C: "SC"}
	dst := vpT3{Own: "SO", Rem: inner}
	err := Unmarshal(b.m, &dst)
	vpAssert(err == nil, "well-typed input unmarshals without error")
	vpAssert(dst.Rem == inner, "the inline pointee is filled in place")
	consumed := map[string]bool{}
	wantOwn := "SO"
	for _, k := range []string{"own", "o"} {
		if v, has := b.get(k); has {
			wantOwn = vpStrOr(v, true, "")
			consumed[k] = true
			break
		}
	}
	vpAssert(dst.Own == wantOwn, "outer field takes its key, else its alias")
	// the rest goes through the inline struct's own partition
	av, ah := b.get("a")
	if ah {
		consumed["a"] = true
	}
	vpAssert(inner.A == vpStrOr(av, ah, "SA"), "inline struct field takes its key from the leftovers")
	wantB := "SB"
	for _, k := range []string{"b", "bb", "bbb"} {
		if v, has := b.get(k); has {
			wantB = vpStrOr(v, true, "")
			consumed[k] = true
			break
		}
	}
	vpAssert(inner.B == wantB, "inline struct field takes its key, else its first present alias, from the leftovers")
	cv, ch := b.get("c")
	if ch {
		consumed["c"] = true
	}
	vpAssert(inner.C == vpStrOr(cv, ch, "SC"), "inline struct field takes its key from the leftovers (2)")
	nrest := 0
	for i, k := range b.keys {
		if consumed[k] {
			continue
		}
		nrest++
		got, ok := inner.Rest[k]
		vpAssert(ok && got == b.vals[i], "what neither level names ends up in the innermost inline map")
	}
	vpAssert(len(inner.Rest) == nrest, "the innermost inline map holds nothing else")
}

func init() { vpRegister("c16_scalar_kinds", vpH_c16_scalar_kinds) }

type vpT4 struct {
	S    string         `yaml:"s"`
	I    int            `yaml:"i"`
	F    float64        `yaml:"f"`
	B    bool           `yaml:"b"`
	A    any            `yaml:"a"`
	LA   []any          `yaml:"la"`
	LS   []string       `yaml:"ls"`
	LI   []int          `yaml:"li"`
	Rest map[string]any `yaml:",inline"`
}

// every scalar kind into every scalar-accepting destination: copied directly
// into its own type and into `any`, appended to slices of its type / of any,
// formatted into strings and string slices, and an ErrIncompatibleTypes error
// otherwise (documented contract of Unmarshal)
func vpH_c16_scalar_kinds() {
	var src any
	var asString string
	kind := vpInt(0, 3)
	switch kind {
	case 0:
		s := vpStrUpTo(1, "x-z")
		src, asString = s, s
	case 1:
		src, asString = 47, "47"
	case 2:
		src, asString = 1.5, "1.5"
	case 3:
		if vpBool() {
			src, asString = true, "true"
		} else {
			src, asString = false, "false"
		}
	}
	field := vpInt(0, 7)
	keys := []string{"s", "i", "f", "b", "a", "la", "ls", "li"}
	m := NewMap[string, any](0)
	m.Set(keys[field], src)
	m.Set("other", src)
	dst := vpT4{S: "S0", I: 7, F: 2.5, B: false, LA: []any{"x"}, LS: []string{"y"}, LI: []int{1}}
	err := Unmarshal(m, &dst)
	compatible := false
	switch field {
	case 0: // *string: formatted
		compatible = true
		if err == nil {
			vpAssert(dst.S == asString, "a scalar is formatted into a string field")
		}
	case 1:
		compatible = kind == 1
		if err == nil {
			vpAssert(dst.I == 47, "an int is copied into an int field")
		}
	case 2:
		compatible = kind == 2
		if err == nil {
			vpAssert(dst.F == 1.5, "a float is copied into a float field")
		}
	case 3:
		compatible = kind == 3
		if err == nil {
			vpAssert(dst.B == (asString == "true"), "a bool is copied into a bool field")
		}
	case 4:
		compatible = true
		if err == nil {
			vpAssert(dst.A == src, "any field takes the value as is")
		}
	case 5:
		compatible = true
		if err == nil {
			vpAssert(len(dst.LA) == 2 && dst.LA[0] == any("x") && dst.LA[1] == src, "a scalar is appended to a []any field")
		}
	case 6:
		compatible = true
		if err == nil {
			vpAssert(len(dst.LS) == 2 && dst.LS[0] == "y" && dst.LS[1] == asString, "a scalar is formatted and appended to a []string field")
		}
	case 7:
		compatible = kind == 1
		if err == nil {
			vpAssert(len(dst.LI) == 2 && dst.LI[1] == 47, "an int is appended to an []int field")
		}
	}
	if compatible {
		vpAssert(err == nil, "a compatible scalar unmarshals without error")
		vpAssert(len(dst.Rest) == 1 && dst.Rest["other"] == src, "the unnamed key goes to the inline map unchanged")
	} else {
		vpAssert(err != nil, "an incompatible scalar is reported as an error (never silently converted or dropped)")
	}
}

// ---- tag spellings: a tag that only carries flags names no key, so the field
// takes its lower-cased name, exactly like an untagged field ----

type vpT5 struct {
	Flagged string         `yaml:",omitempty"`
	Flow    []string       `yaml:",flow"`
	Named   string         `yaml:"named,omitempty,flow"`
	Rest    map[string]any `yaml:",inline"`
}

func vpH_c16_tags() {
	b := &vpSrcBuilder{m: NewMap[string, any](0)}
	emptyKey := vpBool()
	if emptyKey {
		b.set("", "e")
	}
	b.optStr("flagged")
	b.optStr("named")
	fl := vpStr(1, "x-z")
	flowKind := vpInt(0, 2)
	switch flowKind {
	case 1:
		b.set("flow", []any{fl})
	case 2:
		b.set("flow", nil)
	}
	free := vpStr(1, "a-c") + vpStrUpTo(1, "a-c")
	b.set(free, "f")
	// an input key spelled like the lower-cased name of the inline field is an
	// ordinary unknown key
	restKind := vpInt(0, 3)
	switch restKind {
	case 1:
		b.set("rest", "r")
	case 2:
		b.set("rest", nil)
	case 3:
		inner := NewMap[string, any](1)
		inner.Set("in", "v")
		b.set("rest", inner)
	}

	// keys that differ from a field's key only in case are nobody's key
	caseKind := vpInt(0, 3)
	caseKey := ""
	switch caseKind {
	case 1:
		caseKey = "Flagged"
	case 2:
		caseKey = "FLOW"
	case 3:
		caseKey = "Named"
	}
	if caseKind != 0 {
		b.set(caseKey, "cv")
	}

	dst := vpT5{Flagged: "SF", Named: "SN", Flow: []string{"S"}}
	err := Unmarshal(b.m, &dst)
	vpAssert(err == nil, "well-typed input unmarshals without error")
	fv, fh := b.get("flagged")
	vpAssert(dst.Flagged == vpStrOr(fv, fh, "SF"), "a field whose tag has only flags takes its lower-cased name")
	nv, nh := b.get("named")
	vpAssert(dst.Named == vpStrOr(nv, nh, "SN"), "flags after a key do not change which key a field takes")
	switch flowKind {
	case 0:
		vpAssert(len(dst.Flow) == 1 && dst.Flow[0] == "S", "an absent key leaves a flags-only slice field untouched")
	case 1:
		vpAssert(len(dst.Flow) >= 1 && dst.Flow[len(dst.Flow)-1] == fl, "a flags-only slice field takes its lower-cased name")
	case 2:
		vpAssert(len(dst.Flow) == 0, "null zeroes a flags-only slice field")
	}
	want := 1
	if emptyKey {
		want = 2
		v, ok := dst.Rest[""]
		vpAssert(ok && v == any("e"), "the empty input key is nobody's key: it goes to the inline map")
	}
	if restKind != 0 {
		want++
		rv, rok := dst.Rest["rest"]
		vpAssert(rok, "a key spelled like the inline field's own name is kept in the inline map under that key")
		switch restKind {
		case 1:
			vpAssert(rv == any("r"), "... with its value")
		case 2:
			vpAssert(rv == nil, "... also when its value is null")
		case 3:
			im, isMap := rv.(*Map[string, any])
			vpAssert(isMap && im.Len() == 1, "... also when its value is a mapping (not flattened into the inline map)")
		}
	}
	if caseKind != 0 {
		want++
		cv, cok := dst.Rest[caseKey]
		vpAssert(cok && cv == any("cv"), "a key that differs from a field's key only in case goes to the inline map")
	}
	v, ok := dst.Rest[free]
	vpAssert(ok && v == any("f") && len(dst.Rest) == want, "keys no field names go to the inline map, and nothing else does")
}

// ---- a sequence of mappings decoded into a list the caller reuses ----

type vpItem struct {
	Name string         `yaml:"name"`
	Tags []string       `yaml:"tags"`
	Next *vpInner       `yaml:"next"`
	Rest map[string]any `yaml:",inline"`
}

func vpItemDoc(withAll bool) (*MapSA, bool, bool, bool, bool, string) {
	m := NewMap[string, any](0)
	hasName, hasTags, hasNext, hasShape := withAll || vpBool(), withAll || vpBool(), withAll || vpBool(), withAll || vpBool()
	v := vpStr(1, "x-z")
	if hasName {
		m.Set("name", v)
	}
	if hasTags {
		m.Set("tags", []any{v})
	}
	if hasNext {
		in := NewMap[string, any](1)
		in.Set("x", v)
		m.Set("next", in)
	}
	if hasShape {
		m.Set("shape", v)
	}
	return m, hasName, hasTags, hasNext, hasShape, v
}

// Every item of a sequence is decoded on its own: what an item does not
// mention stays at its zero value, whatever the destination list held before -
// a nil list, a list with spare capacity left from an earlier document
// (truncated to reuse it), or a list whose first elements are kept.
func vpH_c16_reuse() {
	var items []vpItem
	history := vpInt(0, 3)
	keep := 0
	if history != 0 {
		a, _, _, _, _, _ := vpItemDoc(true)
		c, _, _, _, _, _ := vpItemDoc(true)
		a.Set("colour", "red")
		first := []any{a, c}
		if history == 3 {
			first = append(first, c)
		}
		err := Unmarshal(first, &items)
		vpAssert(err == nil && len(items) == len(first), "the earlier document decodes")
		if history == 2 {
			keep = 1
		}
		items = items[:keep]
	}
	d, hasName, hasTags, hasNext, hasShape, v := vpItemDoc(false)
	doc := []any{d}
	two := vpBool()
	if two {
		doc = append(doc, NewMap[string, any](0))
	}
	err := Unmarshal(doc, &items)
	vpAssert(err == nil, "the document decodes")
	vpAssert(len(items) == keep+len(doc), "one item per element of the sequence, after the items kept")
	if keep == 1 {
		vpAssert(items[0].Name != "" && len(items[0].Tags) == 1 && items[0].Rest["colour"] == any("red"), "items the caller kept are as they were")
	}
	it := items[keep]
	vpAssert(it.Name == vpStrOr(v, hasName, ""), "name: the item's own value, or the zero value when the item does not mention it")
	if hasTags {
		vpAssert(len(it.Tags) == 1 && it.Tags[0] == v, "tags: exactly the item's own")
	} else {
		vpAssert(len(it.Tags) == 0, "tags: none when the item does not mention them")
	}
	if hasNext {
		vpAssert(it.Next != nil && it.Next.X == v && it.Next.Y == "", "nested struct: the item's own")
	} else {
		vpAssert(it.Next == nil, "nested struct: absent when the item does not mention it")
	}
	if hasShape {
		vpAssert(len(it.Rest) == 1 && it.Rest["shape"] == any(v), "inline map: exactly the item's own unknown keys")
	} else {
		vpAssert(len(it.Rest) == 0, "inline map: empty when the item has no unknown keys")
	}
	if two {
		e := items[keep+1]
		vpAssert(e.Name == "" && len(e.Tags) == 0 && e.Next == nil && len(e.Rest) == 0, "an empty item decodes to the zero value")
	}
}

// ---- one destination, two documents ----

type vpHolder struct {
	M     map[string]string `yaml:"m"`
	Name  string         `yaml:"name"`
	Extra any            `yaml:"extra"`
	Ptr   *vpInner       `yaml:"ptr"`
	Rest  map[string]any `yaml:",inline"`
}

// A destination that already holds the result of an earlier document takes a
// second one key by key: a present key replaces what the field held (a field
// of type any takes the new value as it is - it is not merged into whatever
// the field pointed to), an absent key leaves it, null zeroes it; the first
// document itself is never written to.
func vpH_c16_twice() {
	m1 := NewMap[string, any](1)
	m1.Set("p", "1")
	doc1 := NewMap[string, any](3)
	doc1.Set("name", "n1")
	doc1.Set("extra", m1)
	in1 := NewMap[string, any](1)
	in1.Set("x", "X1")
	doc1.Set("ptr", in1)
	mm1 := NewMap[string, any](1)
	mm1.Set("team", "infra")
	doc1.Set("m", mm1)
	var h vpHolder
	vpAssert(Unmarshal(doc1, &h) == nil, "the first document decodes")
	before := vpSnapshot(doc1)

	doc2 := NewMap[string, any](2)
	w := vpStr(1, "x-z")
	kind := vpInt(0, 5)
	m2 := NewMap[string, any](1)
	m2.Set("q", w)
	switch kind {
	case 1:
		doc2.Set("extra", nil)
	case 2:
		doc2.Set("extra", w)
	case 3:
		doc2.Set("extra", m2)
	case 4:
		doc2.Set("extra", []any{w})
	case 5:
		doc2.Set("extra", NewMap[string, any](0))
	}
	ptrKind := vpInt(0, 2)
	switch ptrKind {
	case 1:
		doc2.Set("ptr", nil)
	case 2:
		in2 := NewMap[string, any](1)
		in2.Set("y", w)
		doc2.Set("ptr", in2)
	}
	mKind := vpInt(0, 3)
	switch mKind {
	case 1:
		doc2.Set("m", nil)
	case 2:
		doc2.Set("m", NewMap[string, any](0))
	case 3:
		mm2 := NewMap[string, any](1)
		mm2.Set("k", w)
		doc2.Set("m", mm2)
	}
	vpAssert(Unmarshal(doc2, &h) == nil, "the second document decodes")
	vpAssert(h.Name == "n1", "an absent key leaves the field as it was")
	switch mKind {
	case 0, 2:
		vpAssert(len(h.M) == 1 && h.M["team"] == "infra", "an absent key, and a mapping without entries, leave the entries a map field holds")
	case 1:
		vpAssert(h.M == nil, "null zeroes a map field")
	case 3:
		vpAssert(len(h.M) == 2 && h.M["team"] == "infra" && h.M["k"] == w, "a mapping adds its entries to the map a field holds")
	}
	if mKind == 2 {
		var fresh vpHolder
		vpAssert(Unmarshal(doc2, &fresh) == nil && fresh.M != nil && len(fresh.M) == 0, "a mapping without entries gives a fresh map field an empty map, not a nil one")
	}
	switch kind {
	case 0:
		got, ok := h.Extra.(*Map[string, any])
		vpAssert(ok && got == m1, "an absent key leaves a field of type any as it was")
	case 1:
		vpAssert(h.Extra == nil, "null zeroes a field of type any")
	case 2:
		vpAssert(h.Extra == any(w), "a scalar replaces what a field of type any held")
	case 3:
		got, ok := h.Extra.(*Map[string, any])
		okm := ok && got.Len() == 1
		if okm {
			q, has := got.Get("q")
			okm = has && q == any(w)
		}
		vpAssert(okm, "a mapping replaces what a field of type any held: exactly the new keys")
	case 4:
		l, ok := h.Extra.([]any)
		vpAssert(ok && len(l) == 1 && l[0] == any(w), "a list replaces what a field of type any held")
	case 5:
		got, ok := h.Extra.(*Map[string, any])
		vpAssert(ok && got.Len() == 0, "an empty mapping replaces what a field of type any held")
	}
	switch ptrKind {
	case 0:
		vpAssert(h.Ptr != nil && h.Ptr.X == "X1", "an absent key leaves a pointer field as it was")
	case 1:
		vpAssert(h.Ptr == nil, "null zeroes a pointer field")
	case 2:
		vpAssert(h.Ptr != nil && h.Ptr.Y == w, "a present key fills the struct the pointer field holds")
	}
	vpAssert(vpUnchanged(doc1, before) && m1.Len() == 1, "the earlier document is not written to")
}

// ---- a wide struct: how many keys a document matches is a size like any other ----

type vpWide struct {
	F01  string         `yaml:"f01"`
	F02  string         `yaml:"f02"`
	F03  string         `yaml:"f03"`
	F04  string         `yaml:"f04"`
	F05  string         `yaml:"f05"`
	F06  string         `yaml:"f06"`
	F07  string         `yaml:"f07"`
	F08  string         `yaml:"f08"`
	F09  string         `yaml:"f09"`
	F10  string         `yaml:"f10"`
	F11  string         `yaml:"f11"`
	F12  string         `yaml:"f12"`
	F13  string         `yaml:"f13"`
	F14  string         `yaml:"f14"`
	F15  string         `yaml:"f15"`
	F16  string         `yaml:"f16"`
	F17  string         `yaml:"f17"`
	F18  string         `yaml:"f18"`
	Rest map[string]any `yaml:",inline"`
}

// A document that matches n of the eighteen named fields (n next to the
// integer constants of the unmarshalling code, and the bound) plus two keys no
// field names: every named key goes to its field and nowhere else, the other
// two go to the inline map and nothing else does.
func vpH_c16_wide() {
	n := vpBoundarySize("*unmarshal.go", 18)
	if n > 18 {
		n = 18
	}
	names := []string{"f01", "f02", "f03", "f04", "f05", "f06", "f07", "f08", "f09", "f10", "f11", "f12", "f13", "f14", "f15", "f16", "f17", "f18"}
	doc := NewMap[string, any](n + 2)
	doc.Set("extra", "e")
	for i := 0; i < n; i++ {
		doc.Set(names[i], "v"+names[i])
	}
	doc.Set("zz", "z")
	var w vpWide
	vpAssert(Unmarshal(doc, &w) == nil, "a wide document decodes")
	got := []string{w.F01, w.F02, w.F03, w.F04, w.F05, w.F06, w.F07, w.F08, w.F09, w.F10, w.F11, w.F12, w.F13, w.F14, w.F15, w.F16, w.F17, w.F18}
	for i := range names {
		want := ""
		if i < n {
			want = "v" + names[i]
		}
		vpAssert(got[i] == want, "every named key goes to its field; fields whose key is absent stay as they were")
	}
	vpAssert(len(w.Rest) == 2 && w.Rest["extra"] == any("e") && w.Rest["zz"] == any("z"), "exactly the keys no field names go to the inline map, however many named keys the document has")
}
