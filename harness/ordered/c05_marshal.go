//go:build verif

package ordered

import "gopkg.in/yaml.v3"

type vpPairS struct{ k, v string }

// vpMkMapSS: arbitrary RI state of a Map[string,string] with 0/1-byte keys
// (so the empty key and coinciding keys arise).
func vpMkMapSS(maxSlots int) *Map[string, string] {
	n := vpInt(0, maxSlots)
	m := &Map[string, string]{index: map[string]int{}}
	m.items = make([]Tuple[string, string], n)
	live := 0
	for i := 0; i < n; i++ {
		k := vpStrUpTo(1, "a-c")
		v := vpStrUpTo(1, "x-y")
		d := vpBool()
		m.items[i] = Tuple[string, string]{Key: k, Value: v, deleted: d}
		if !d {
			_, dup := m.index[k]
			vpAssume(!dup)
			m.index[k] = i
			live++
		}
	}
	vpAssume(live > 0 || n == 0)
	return m
}

func vpAbsSS(m *Map[string, string]) []vpPairS {
	var out []vpPairS
	for _, it := range m.items {
		if !it.deleted {
			out = append(out, vpPairS{it.Key, it.Value})
		}
	}
	return out
}

// JSON and YAML encodings list exactly the live entries, in order.
func vpH_c05_marshal() {
	n := vpParam("slots")
	m := vpMkMapSS(n)
	want := vpAbsSS(m)

	b, err := m.MarshalJSON()
	vpAssert(err == nil, "MarshalJSON succeeds")
	vpAssert(vpJKind(b) == 5, "MarshalJSON yields an object")
	vpAssert(vpJLen(b) == len(want), "MarshalJSON has one member per live entry")
	for i, p := range want {
		vpAssert(vpJKey(b, i) == p.k, "MarshalJSON member order/keys agree with model")
		vpAssert(vpJStr(vpJElem(b, i)) == p.v, "MarshalJSON member values agree with model")
	}

	y, err := m.MarshalYAML()
	vpAssert(err == nil, "MarshalYAML succeeds")
	node, ok := y.(*yaml.Node)
	vpAssert(ok && node != nil, "MarshalYAML yields a *yaml.Node")
	vpAssert(node.Kind == yaml.MappingNode, "MarshalYAML yields a mapping node")
	vpAssert(len(node.Content) == 2*len(want), "MarshalYAML has one pair per live entry")
	for i, p := range want {
		var k, v any
		vpAssert(node.Content[2*i].Decode(&k) == nil && node.Content[2*i+1].Decode(&v) == nil, "MarshalYAML nodes decode")
		vpAssert(k == any(p.k), "MarshalYAML key order agrees with model")
		vpAssert(v == any(p.v), "MarshalYAML values agree with model")
	}

	// ToMapRecursive on the any-valued variant, one nesting level
	sa := NewMap[string, any](0)
	inner := NewMap[string, any](0)
	for _, p := range want {
		inner.Set(p.k, p.v)
	}
	for _, p := range want {
		sa.Set(p.k, p.v)
	}
	sa.Set("nested", inner)
	r, isMap := ToMapRecursive(sa).(map[string]any)
	vpAssert(isMap, "ToMapRecursive yields a plain map")
	im, isInner := r["nested"].(map[string]any)
	vpAssert(isInner && len(im) == len(want), "ToMapRecursive converts nested ordered maps")
	for _, p := range want {
		if p.k != "nested" {
			vpAssert(r[p.k] == any(p.v), "ToMapRecursive keeps values")
		}
		vpAssert(im[p.k] == any(p.v), "ToMapRecursive keeps nested values")
	}
}

func init() { vpRegister("c19_marshal_frame", vpH_c19_marshal_frame) }

// encoders do not write to the map they encode
func vpH_c19_marshal_frame() {
	m := vpMkMapSS(vpParam("slots"))
	var items []Tuple[string, string]
	items = append(items, m.items...)
	var idx []vpPairS
	for i, it := range m.items {
		if j, ok := m.index[it.Key]; ok && j == i {
			idx = append(idx, vpPairS{it.Key, ""})
		}
	}
	nIndex := len(m.index)
	_, _ = m.MarshalJSON()
	_, _ = m.MarshalYAML()
	_ = m.ToMap()
	vpAssert(len(m.items) == len(items) && len(m.index) == nIndex, "encoders keep the number of slots and index entries (no lazy compaction)")
	for i := range items {
		if i < len(m.items) {
			vpAssert(m.items[i] == items[i], "encoders do not rewrite slots")
		}
	}
	for _, p := range idx {
		_, ok := m.index[p.k]
		vpAssert(ok, "encoders do not drop index entries")
	}
}
