//go:build verif

package ordered

import "gopkg.in/yaml.v3"

type vpPairS struct{ k, v string }

// vpMkMapSS: arbitrary RI state of a Map[string,string] with 0/1-byte keys
// (so the empty key and coinciding keys arise).
func vpMkMapSS(maxSlots int) *Map[string, string] {
	n := vpInt(0, maxSlots)
	m := &Map[string, string]{index: map[string]int{}}
	m.items = make([]Tuple[string, string], n)
	live := 0
	for i := 0; i < n; i++ {
		k := vpStrUpTo(1, "a-c")
		v := vpStrUpTo(1, "x-y")
		d := vpBool()
		m.items[i] = Tuple[string, string]{Key: k, Value: v, deleted: d}
		if !d {
			_, dup := m.index[k]
			vpAssume(!dup)
			m.index[k] = i
			live++
		}
	}
	vpAssume(live > 0 || n == 0)
	return m
}

func vpAbsSS(m *Map[string, string]) []vpPairS {
	var out []vpPairS
	for _, it := range m.items {
		if !it.deleted {
			out = append(out, vpPairS{it.Key, it.Value})
		}
	}
	return out
}

// JSON and YAML encodings list exactly the live entries, in order.
func vpH_c05_marshal() {
	n := vpParam("slots")
	m := vpMkMapSS(n)
	want := vpAbsSS(m)

	b, err := m.MarshalJSON()
	vpAssert(err == nil, "MarshalJSON succeeds")
	vpAssert(vpJKind(b) == 5, "MarshalJSON yields an object")
	vpAssert(vpJLen(b) == len(want), "MarshalJSON has one member per live entry")
	for i, p := range want {
		vpAssert(vpJKey(b, i) == p.k, "MarshalJSON member order/keys agree with model")
		vpAssert(vpJStr(vpJElem(b, i)) == p.v, "MarshalJSON member values agree with model")
	}

	y, err := m.MarshalYAML()
	vpAssert(err == nil, "MarshalYAML succeeds")
	node, ok := y.(*yaml.Node)
	vpAssert(ok && node != nil, "MarshalYAML yields a *yaml.Node")
	vpAssert(node.Kind == yaml.MappingNode, "MarshalYAML yields a mapping node")
	vpAssert(len(node.Content) == 2*len(want), "MarshalYAML has one pair per live entry")
	for i, p := range want {
		var k, v any
		vpAssert(node.Content[2*i].Decode(&k) == nil && node.Content[2*i+1].Decode(&v) == nil, "MarshalYAML nodes decode")
		vpAssert(k == any(p.k), "MarshalYAML key order agrees with model")
		vpAssert(v == any(p.v), "MarshalYAML values agree with model")
	}

	// ToMapRecursive on the any-valued variant, one nesting level
	sa := NewMap[string, any](0)
	inner := NewMap[string, any](0)
	for _, p := range want {
		inner.Set(p.k, p.v)
	}
	for _, p := range want {
		sa.Set(p.k, p.v)
	}
	sa.Set("nested", inner)
	r, isMap := ToMapRecursive(sa).(map[string]any)
	vpAssert(isMap, "ToMapRecursive yields a plain map")
	im, isInner := r["nested"].(map[string]any)
	vpAssert(isInner && len(im) == len(want), "ToMapRecursive converts nested ordered maps")
	for _, p := range want {
		if p.k != "nested" {
			vpAssert(r[p.k] == any(p.v), "ToMapRecursive keeps values")
		}
		vpAssert(im[p.k] == any(p.v), "ToMapRecursive keeps nested values")
	}
}

func init() { vpRegister("c19_marshal_frame", vpH_c19_marshal_frame) }

// encoders do not write to the map they encode
func vpH_c19_marshal_frame() {
	m := vpMkMapSS(vpParam("slots"))
	var items []Tuple[string, string]
	items = append(items, m.items...)
	var idx []vpPairS
	for i, it := range m.items {
		if j, ok := m.index[it.Key]; ok && j == i {
			idx = append(idx, vpPairS{it.Key, ""})
		}
	}
	nIndex := len(m.index)
	whole := vpSnapshot(m)
	_, _ = m.MarshalJSON()
	_, _ = m.MarshalYAML()
	_ = m.ToMap()
	vpAssert(vpUnchanged(m, whole), "encoders write nothing at all into the map (no cached encoding, no lazily built state)")
	vpAssert(len(m.items) == len(items) && len(m.index) == nIndex, "encoders keep the number of slots and index entries (no lazy compaction)")
	for i := range items {
		if i < len(m.items) {
			vpAssert(m.items[i] == items[i], "encoders do not rewrite slots")
		}
	}
	for _, p := range idx {
		_, ok := m.index[p.k]
		vpAssert(ok, "encoders do not drop index entries")
	}
}

func init() {
	vpRegister("c05_step_str", vpH_c05_step_str)
}

// the string-keyed, any-valued instantiation used by the parser: one mutator
// from an arbitrary RI state (keys of 0/1 symbolic bytes incl. the empty key)
func vpH_c05_step_str() {
	n := vpParam("slots")
	src := vpMkMapSS(n)
	// same state as a Map[string, any]
	m := &Map[string, any]{index: map[string]int{}}
	for i, it := range src.items {
		m.items = append(m.items, Tuple[string, any]{Key: it.Key, Value: it.Value, deleted: it.deleted})
		if !it.deleted {
			m.index[it.Key] = i
		}
	}
	pre := vpAbsSS(src)
	k, k2, v := vpStrUpTo(1, "a-c"), vpStrUpTo(1, "a-c"), vpStrUpTo(1, "x-y")
	var want []vpPairS
	find := func(l []vpPairS, key string) int {
		for i, p := range l {
			if p.k == key {
				return i
			}
		}
		return -1
	}
	switch vpInt(0, 2) {
	case 0:
		m.Set(k, v)
		want = append(want, pre...)
		if i := find(want, k); i >= 0 {
			want[i].v = v
		} else {
			want = append(want, vpPairS{k, v})
		}
	case 1:
		m.Replace(k, k2, v)
		i := find(pre, k)
		for j, p := range pre {
			switch {
			case j == i:
				want = append(want, vpPairS{k2, v})
			case p.k == k2 && k != k2:
				// a colliding entry is dropped
			case p.k == k2 && i < 0:
				// old absent: an entry keyed new is dropped, the new one is appended
			default:
				want = append(want, p)
			}
		}
		if i < 0 {
			want = append(want, vpPairS{k2, v})
		}
	default:
		m.Delete(k)
		for _, p := range pre {
			if p.k != k {
				want = append(want, p)
			}
		}
	}
	// observers of the string-keyed instantiation against the model
	vpAssert(m.Len() == len(want), "string keys: Len agrees with model")
	i := 0
	m.Range(func(key string, val any) error {
		vpAssert(i < len(want) && key == want[i].k && val == any(want[i].v), "string keys: Range order and contents agree with model")
		i++
		return nil
	})
	vpAssert(i == len(want), "string keys: Range visits every live entry")
	probe := vpStrUpTo(1, "a-c")
	got, ok := m.Get(probe)
	j := find(want, probe)
	vpAssert(ok == (j >= 0) && (j < 0 || got == any(want[j].v)), "string keys: Get agrees with model")
	live := 0
	for idx, it := range m.items {
		if !it.deleted {
			live++
			p, has := m.index[it.Key]
			vpAssert(has && p == idx, "string keys: index points at every live slot")
		}
	}
	vpAssert(len(m.index) == live, "string keys: index holds nothing else")
}
