//go:build verif

package ordered

import "gopkg.in/yaml.v3"

// C07 - YAML anchors, aliases and merges resolve per the merge rules; cycles error out.
// Input: a symbolic *yaml.Node graph (what yaml.v3's parser hands to DecodeYAML).
// Oracle: an independent recursive reference of the merge rules.

func init() {
	vpRegister("c07_graph", vpH_c07_graph)
	vpRegister("c07_merge_chain", vpH_c07_merge_chain)
	vpRegister("c07_typed_merge", vpH_c07_typed_merge)
	vpRegister("c07_reexpand", vpH_c07_reexpand)
}

func vpScalar(v string) *yaml.Node {
	return &yaml.Node{Kind: yaml.ScalarNode, Tag: "!!str", Value: v}
}
func vpMergeKey() *yaml.Node {
	return &yaml.Node{Kind: yaml.ScalarNode, Tag: "!!merge", Value: "<<"}
}

// vpAlias: the parser gives an alias node the anchor's name as its Value.
func vpAlias(n *yaml.Node) *yaml.Node {
	return &yaml.Node{Kind: yaml.AliasNode, Alias: n, Value: n.Anchor}
}
func vpSeq(items ...*yaml.Node) *yaml.Node {
	return &yaml.Node{Kind: yaml.SequenceNode, Tag: "!!seq", Content: items}
}
func vpMapping() *yaml.Node { return &yaml.Node{Kind: yaml.MappingNode, Tag: "!!map"} }

// vpTree is the reference's decoded value.
type vpTree struct {
	kind  int // 0 string, 1 sequence, 2 mapping
	s     string
	items []*vpTree
	keys  []string
	node  *yaml.Node
}

type vpRefState struct {
	cycle bool // a cycle through values / sequences was met
	steps int
}

// typed (non-string) keys: spelling in the document and the canonical string
// the decoder is documented to use for them
type vpTypedKey struct{ tag, spell, canon string }

var vpTypedKeys = []vpTypedKey{
	{"!!int", "0x1F", "31"},
	{"!!bool", "True", "true"},
	{"!!float", "1.5", "1.500000e+00"},
	{"!!int", "31", "31"},
	{"!!int", "010", "8"}, // a leading zero is octal in YAML 1.1 style integers
	{"!!int", "8", "8"},
	{"!!int", "18446744073709551615", "18446744073709551615"}, // beyond int64: the YAML library hands it over as an unsigned integer
	{"!!int", "-0x10", "-16"},
}

func vpKeyString(k *yaml.Node) string {
	if k.Kind == yaml.AliasNode {
		k = k.Alias
	}
	if k.Tag == "!!int" || k.Tag == "!!bool" || k.Tag == "!!float" {
		for _, t := range vpTypedKeys {
			if t.tag == k.Tag && t.spell == k.Value {
				return t.canon
			}
		}
	}
	return k.Value
}

// vpChainKey draws a key node for the merge-chain documents and its canonical string.
func vpChainKey() (*yaml.Node, string) {
	if vpParam("typedkeys") != 0 && vpBool() {
		t := vpTypedKeys[vpInt(0, len(vpTypedKeys)-1)]
		return &yaml.Node{Kind: yaml.ScalarNode, Tag: t.tag, Value: t.spell}, t.canon
	}
	k := vpStrUpTo(1, "a-b")
	return vpScalar(k), k
}

type vpEntry2 struct {
	k string
	v *yaml.Node
}

// vpFlatten lists the (key, value node) pairs of mapping n in result order:
// explicit keys beat merged keys, earlier merge sources beat later ones,
// merged keys stand where the merge key stood. `merged` stops merge cycles.
func vpFlatten(n *yaml.Node, merged map[*yaml.Node]bool, taken map[string]bool, out []vpEntry2) []vpEntry2 {
	if n == nil || merged[n] {
		return out
	}
	merged[n] = true
	switch n.Kind {
	case yaml.AliasNode:
		return vpFlatten(n.Alias, merged, taken, out)
	case yaml.SequenceNode:
		for _, c := range n.Content {
			out = vpFlatten(c, merged, taken, out)
		}
		return out
	}
	// mapping: own explicit keys first shadow everything merged below this level
	own := map[string]bool{}
	for i := 0; i+1 < len(n.Content); i += 2 {
		if n.Content[i].Tag != "!!merge" {
			own[vpKeyString(n.Content[i])] = true
		}
	}
	for i := 0; i+1 < len(n.Content); i += 2 {
		k, v := n.Content[i], n.Content[i+1]
		if k.Tag == "!!merge" {
			// entries coming from the merge source, minus keys this level has or has already merged
			var sub []vpEntry2
			sub = vpFlatten(v, merged, map[string]bool{}, sub)
			for _, e := range sub {
				if own[e.k] {
					continue
				}
				own[e.k] = true
				if taken[e.k] {
					continue
				}
				taken[e.k] = true
				out = append(out, e)
			}
			continue
		}
		ks := vpKeyString(k)
		if taken[ks] {
			continue
		}
		taken[ks] = true
		out = append(out, vpEntry2{ks, v})
	}
	return out
}

// vpRefDecode is the reference decoder; it reports value cycles instead of looping.
func vpRefDecode(n *yaml.Node, stack []*yaml.Node, st *vpRefState) *vpTree {
	st.steps++
	if st.steps > 400 {
		st.cycle = true
		return nil
	}
	for _, s := range stack {
		if s == n {
			st.cycle = true
			return nil
		}
	}
	stack = append(stack, n)
	switch n.Kind {
	case yaml.ScalarNode:
		return &vpTree{kind: 0, s: n.Value, node: n}
	case yaml.AliasNode:
		return vpRefDecode(n.Alias, stack, st)
	case yaml.SequenceNode:
		t := &vpTree{kind: 1, node: n}
		for _, c := range n.Content {
			t.items = append(t.items, vpRefDecode(c, stack, st))
			if st.cycle {
				return nil
			}
		}
		return t
	case yaml.MappingNode:
		t := &vpTree{kind: 2, node: n}
		var ents []vpEntry2
		ents = vpFlatten(n, map[*yaml.Node]bool{}, map[string]bool{}, ents)
		for _, e := range ents {
			t.keys = append(t.keys, e.k)
			t.items = append(t.items, vpRefDecode(e.v, stack, st))
			if st.cycle {
				return nil
			}
		}
		return t
	}
	return nil
}

// vpTreeEq compares a decoded value with the reference tree (content and order).
func vpTreeEq(got any, want *vpTree) bool {
	switch want.kind {
	case 0:
		s, ok := got.(string)
		return ok && s == want.s
	case 1:
		l, ok := got.([]any)
		if !ok || l == nil || len(l) != len(want.items) {
			return false // an empty sequence is an empty list, not a nil one (JSON would write null)
		}
		for i := range l {
			if !vpTreeEq(l[i], want.items[i]) {
				return false
			}
		}
		return true
	default:
		m, ok := got.(*Map[string, any])
		if !ok || m == nil || m.Len() != len(want.keys) {
			return false
		}
		i, same := 0, true
		m.Range(func(k string, v any) error {
			if i >= len(want.keys) || k != want.keys[i] || !vpTreeEq(v, want.items[i]) {
				same = false
			}
			i++
			return nil
		})
		return same && i == len(want.keys)
	}
}

// vpMapsDisjoint: no *Map object occurs twice in the decoded value (aliases
// expand to independent copies).
func vpCollectMaps(v any, acc []*Map[string, any]) []*Map[string, any] {
	switch t := v.(type) {
	case *Map[string, any]:
		acc = append(acc, t)
		t.Range(func(k string, x any) error { acc = vpCollectMaps(x, acc); return nil })
	case []any:
		for _, x := range t {
			acc = vpCollectMaps(x, acc)
		}
	}
	return acc
}

// vpFillMapping appends n entries of symbolic kinds to mapping m.
func vpFillMapping(m *yaml.Node, pool []*yaml.Node, n int, allowNested bool) {
	var keys []string
	for i := 0; i < n; i++ {
		kind := vpInt(0, 6)
		newKey := func() *yaml.Node {
			k := vpStrUpTo(1, "a-b")
			for _, o := range keys {
				vpAssume(o != k) // duplicate explicit keys in one mapping are rejected upstream
			}
			keys = append(keys, k)
			return vpScalar(k)
		}
		switch kind {
		case 0: // key: scalar
			m.Content = append(m.Content, newKey(), vpScalar(vpStr(1, "x-y")))
		case 1: // key: *anchor (value alias; may close a cycle)
			vpAssume(len(pool) > 0)
			m.Content = append(m.Content, newKey(), vpAlias(pool[vpInt(0, len(pool)-1)]))
		case 2: // key: [scalar|*anchor, ...]
			vpAssume(len(pool) > 0)
			a := vpScalar(vpStr(1, "x-y"))
			b := vpAlias(pool[vpInt(0, len(pool)-1)])
			if vpBool() {
				m.Content = append(m.Content, newKey(), vpSeq(a, b))
			} else {
				m.Content = append(m.Content, newKey(), vpSeq(b))
			}
		case 3: // <<: *anchor
			vpAssume(len(pool) > 0)
			m.Content = append(m.Content, vpMergeKey(), vpAlias(pool[vpInt(0, len(pool)-1)]))
		case 4: // <<: [*a, *b]
			vpAssume(len(pool) > 1)
			x, y := pool[0], pool[1]
			if vpBool() {
				x, y = y, x
			}
			m.Content = append(m.Content, vpMergeKey(), vpSeq(vpAlias(x), vpAlias(y)))
		case 5: // *scalarAnchor: scalar  (alias used as a mapping key)
			k := vpStrUpTo(1, "a-b")
			for _, o := range keys {
				vpAssume(o != k)
			}
			keys = append(keys, k)
			anchored := vpScalar(k)
			anchored.Anchor = vpStr(1, "a-b") // anchor names live in their own namespace but may coincide with keys
			m.Content = append(m.Content, vpAlias(anchored), vpScalar(vpStr(1, "x-y")))
		case 6: // key: {nested mapping}  /  <<: {inline mapping}
			vpAssume(allowNested)
			inner := vpMapping()
			vpFillMapping(inner, pool, 1, false)
			if vpBool() {
				m.Content = append(m.Content, newKey(), inner)
			} else {
				m.Content = append(m.Content, vpMergeKey(), inner)
			}
		}
	}
}

func vpCheckDecode(root *yaml.Node) {
	vpBoundedRecursion()
	st := &vpRefState{}
	want := vpRefDecode(root, nil, st)
	before := vpSnapshot(root)
	got, err := DecodeYAML(root)
	vpAssert(vpUnchanged(root, before), "decoding leaves the node tree it was given untouched")
	if st.cycle {
		vpAssert(err != nil, "a value cycle through aliases is rejected with an error")
		return
	}
	vpAssert(err == nil, "an acyclic (or merge-cyclic only) document decodes without error")
	vpAssert(vpTreeEq(got, want), "decoded content and key order follow the merge rules (explicit beats merged, earlier source beats later, merged keys at the merge position)")
	maps := vpCollectMaps(got, nil)
	for i := range maps {
		for j := i + 1; j < len(maps); j++ {
			vpAssert(maps[i] != maps[j], "each alias expands to an independent copy")
		}
	}
}

// arbitrary small graphs: root + pool of anchored mappings, any entry kind anywhere
func vpH_c07_graph() {
	np := vpInt(0, vpParam("pool"))
	pool := make([]*yaml.Node, np)
	for i := range pool {
		pool[i] = vpMapping()
		pool[i].Anchor = "p" + string(rune('0'+i))
	}
	for i := range pool {
		vpFillMapping(pool[i], pool, vpInt(1, vpParam("poolentries")), vpParam("poolnested") > 0)
	}
	root := vpMapping()
	vpFillMapping(root, pool, vpInt(1, vpParam("rootentries")), true)
	vpCheckDecode(root)
}

// merge chains: root merges a and/or c (alias, sequence of aliases), a merges
// c, merge at any position, 1-2 scalar entries per mapping (precedence and order)
func vpFillChain(m *yaml.Node, other []*yaml.Node) {
	n := vpInt(1, 2)
	mergeAt := -1
	if len(other) > 0 {
		mergeAt = vpInt(-1, n)
	}
	var keys []string
	for i := 0; i <= n; i++ {
		if i == mergeAt {
			switch {
			case len(other) == 2 && vpBool():
				a, b := other[0], other[1]
				if vpBool() {
					a, b = b, a
				}
				m.Content = append(m.Content, vpMergeKey(), vpSeq(vpAlias(a), vpAlias(b)))
			default:
				o := other[0]
				if len(other) == 2 && vpBool() {
					o = other[1]
				}
				m.Content = append(m.Content, vpMergeKey(), vpAlias(o))
			}
		}
		if i < n {
			kn, k := vpChainKey()
			for _, o := range keys {
				vpAssume(o != k)
			}
			keys = append(keys, k)
			m.Content = append(m.Content, kn, vpScalar(vpStr(1, "x-y")))
		}
	}
}

// typed keys under a merge: explicit-beats-merged and the merge position are
// decided on the canonical key, whatever the spelling (0x1F and 31 are one key)
func vpH_c07_typed_merge() {
	pick := func(taken []string) (*yaml.Node, string) {
		t := vpTypedKeys[vpInt(0, len(vpTypedKeys)-1)]
		for _, o := range taken {
			vpAssume(o != t.canon)
		}
		return &yaml.Node{Kind: yaml.ScalarNode, Tag: t.tag, Value: t.spell}, t.canon
	}
	a := vpMapping()
	a.Anchor = "a"
	var ka []string
	for i, n := 0, vpInt(1, 2); i < n; i++ {
		kn, k := pick(ka)
		ka = append(ka, k)
		a.Content = append(a.Content, kn, vpScalar("x"))
	}
	root := vpMapping()
	nr := vpInt(0, 2)
	mergeAt := vpInt(0, nr)
	var kr []string
	for i := 0; i <= nr; i++ {
		if i == mergeAt {
			root.Content = append(root.Content, vpMergeKey(), vpAlias(a))
		}
		if i < nr {
			kn, k := pick(kr)
			kr = append(kr, k)
			root.Content = append(root.Content, kn, vpScalar("y"))
		}
	}
	vpCheckDecode(root)
}

// An anchored subtree that itself contains aliases, expanded several times
// (as a value, inside a sequence, through a merge): every expansion is a full
// independent copy with ordered mappings all the way down, and an acyclic
// document is never mistaken for a cyclic one.
func vpH_c07_reexpand() {
	// m: &m {b: x, a: y}   (two keys, not in sorted order)
	m := vpMapping()
	m.Anchor = "m"
	m.Content = append(m.Content, vpScalar("b"), vpScalar("x"), vpScalar("a"), vpScalar("y"), vpScalar("e"), vpSeq(), vpScalar("f"), vpMapping())
	// inner: an anchored node that refers to m
	var inner *yaml.Node
	switch vpInt(0, 3) {
	case 0: // mapping with an alias value
		inner = vpMapping()
		inner.Content = append(inner.Content, vpScalar("k"), vpAlias(m))
	case 1: // sequence of aliases
		inner = vpSeq(vpAlias(m), vpAlias(m))
	case 2: // sequence holding a sequence holding an alias
		inner = vpSeq(vpScalar("s"), vpSeq(vpAlias(m)))
	default: // mapping that merges m and adds a key
		inner = vpMapping()
		inner.Content = append(inner.Content, vpMergeKey(), vpAlias(m), vpScalar("c"), vpScalar("z"))
	}
	inner.Anchor = "i"
	root := vpMapping()
	root.Content = append(root.Content, vpScalar("m"), m, vpScalar("i"), inner)
	// expansions of inner, in any mix
	for n := vpInt(1, 2); n > 0; n-- {
		key := vpScalar("r" + string(rune('0'+n)))
		switch vpInt(0, 2) {
		case 0:
			root.Content = append(root.Content, key, vpAlias(inner))
		case 1:
			root.Content = append(root.Content, key, vpSeq(vpAlias(inner), vpScalar("t")))
		default:
			if inner.Kind == yaml.MappingNode {
				holder := vpMapping()
				holder.Content = append(holder.Content, vpMergeKey(), vpAlias(inner))
				root.Content = append(root.Content, key, holder)
			} else {
				root.Content = append(root.Content, key, vpAlias(inner))
			}
		}
	}
	vpCheckDecode(root)
}

func vpH_c07_merge_chain() {
	c := vpMapping()
	vpFillChain(c, nil)
	a := vpMapping()
	vpFillChain(a, []*yaml.Node{c})
	root := vpMapping()
	vpFillChain(root, []*yaml.Node{a, c})
	vpCheckDecode(root)
}

func init() { vpRegister("c07_merge_seq", vpH_c07_merge_seq) }

// Merge sequences of two or three sources in any order and with repeats, where
// one source itself merges another: every source contributes the keys nobody
// before it gave, whether or not it (or what it merges) was already seen.
func vpH_c07_merge_seq() {
	leaf := func(anchor string) *yaml.Node {
		m := vpMapping()
		m.Anchor = anchor
		m.Content = append(m.Content, vpScalar(vpStr(1, "a-d")), vpScalar(vpStr(1, "x-y")))
		return m
	}
	c, d := leaf("c"), leaf("d")
	a := vpMapping()
	a.Anchor = "a"
	a.Content = append(a.Content, vpMergeKey(), vpAlias(c), vpScalar(vpStr(1, "a-d")), vpScalar("z"))
	src := []*yaml.Node{a, c, d}
	n := vpInt(2, 3)
	seq := vpSeq()
	for i := 0; i < n; i++ {
		seq.Content = append(seq.Content, vpAlias(src[vpInt(0, 2)]))
	}
	if vpBool() { // the sequence of sources is itself anchored and lists itself: a merge cycle without a mapping in it
		seq.Anchor = "q"
		seq.Content = append(seq.Content, vpAlias(seq))
	}
	root := vpMapping()
	if vpBool() { // the sources were already merged once by an earlier merge key
		root.Content = append(root.Content, vpMergeKey(), vpAlias(src[vpInt(0, 2)]))
	}
	if vpBool() {
		root.Content = append(root.Content, vpScalar(vpStr(1, "a-d")), vpScalar("o"))
	}
	root.Content = append(root.Content, vpMergeKey(), seq)
	holder := vpMapping()
	holder.Content = append(holder.Content, vpScalar("c"), c, vpScalar("d"), d, vpScalar("a"), a, vpScalar("r"), root)
	vpCheckDecode(holder)
}
