//go:build verif

package ordered

import (
	"bytes"
	"errors"
	"fmt"
	"maps"
	"slices"
	"sort"
	"strconv"
	"strings"
	"sync"
	"unicode"
)

// Translator validation of the library models: each case runs a standard
// library function the engine models (or executes from the library's own SSA)
// on symbolic short strings next to a plain loop that the engine interprets
// instruction by instruction; the two must agree on every path, and sampled
// paths are replayed against the real library.

func init() {
	vpRegister("tv_stdlib", vpH_tv_stdlib)
}

func vpCountByte(s string, c byte) int {
	n := 0
	for i := 0; i < len(s); i++ {
		if s[i] == c {
			n++
		}
	}
	return n
}

func vpLastIdx(s string, c byte) int {
	for i := len(s) - 1; i >= 0; i-- {
		if s[i] == c {
			return i
		}
	}
	return -1
}

func vpFirstIdx(s string, c byte) int {
	for i := 0; i < len(s); i++ {
		if s[i] == c {
			return i
		}
	}
	return -1
}

var vpProbeOnce sync.Once
var vpProbeMu sync.Mutex

func vpH_tv_stdlib() {
	s := vpStrUpTo(3, "a/# ")
	switch vpInt(0, 61) {
	case 0:
		vpAssert(strings.Count(s, "/") == vpCountByte(s, '/'), "strings.Count")
	case 1:
		vpAssert(strings.LastIndex(s, "/") == vpLastIdx(s, '/'), "strings.LastIndex")
	case 2:
		vpAssert(strings.LastIndexByte(s, '#') == vpLastIdx(s, '#'), "strings.LastIndexByte")
	case 3:
		vpAssert(strings.IndexByte(s, '#') == vpFirstIdx(s, '#'), "strings.IndexByte")
	case 4:
		vpAssert(strings.ContainsRune(s, '/') == (vpFirstIdx(s, '/') >= 0), "strings.ContainsRune")
	case 5:
		vpAssert(strings.ContainsAny(s, "/#") == (vpFirstIdx(s, '/') >= 0 || vpFirstIdx(s, '#') >= 0), "strings.ContainsAny")
	case 6:
		t := strings.TrimSpace(s)
		vpAssert(len(t) <= len(s) && (t == "" || (t[0] != ' ' && t[len(t)-1] != ' ')), "strings.TrimSpace")
	case 7:
		t := strings.TrimLeft(s, "/")
		vpAssert(t == "" || t[0] != '/', "strings.TrimLeft")
	case 8:
		t := strings.TrimRight(s, "/")
		vpAssert(t == "" || t[len(t)-1] != '/', "strings.TrimRight")
	case 9:
		t := strings.Trim(s, " ")
		vpAssert(t == strings.TrimSpace(s), "strings.Trim")
	case 10:
		parts := strings.SplitN(s, "/", 2)
		vpAssert(len(parts) >= 1 && len(parts) <= 2 && strings.Join(parts, "/") == s, "strings.SplitN")
	case 11:
		f := strings.Fields(s)
		n := 0
		for _, x := range f {
			n += len(x)
		}
		vpAssert(n == len(s)-vpCountByte(s, ' '), "strings.Fields")
	case 12:
		vpAssert(strings.ReplaceAll(s, "/", "") == strings.Join(strings.Split(s, "/"), ""), "strings.ReplaceAll")
	case 13:
		vpAssert(strings.EqualFold(s, strings.ToUpper(s)), "strings.EqualFold")
	case 14:
		i := strings.IndexAny(s, "#/")
		vpAssert((i < 0) == !strings.ContainsAny(s, "#/"), "strings.IndexAny")
	case 15:
		a, b, ok := strings.Cut(s, "#")
		vpAssert((ok && a+"#"+b == s) || (!ok && a == s && b == ""), "strings.Cut")
	case 16:
		n := vpInt(0, 99)
		m, err := strconv.Atoi(strconv.Itoa(n))
		vpAssert(err == nil && m == n, "strconv.Itoa/Atoi")
	case 17:
		xs := []string{s, "b", "a/"}
		sort.Strings(xs)
		vpAssert(xs[0] <= xs[1] && xs[1] <= xs[2], "sort.Strings")
	case 18:
		xs := []string{s, "b", "a/"}
		slices.Sort(xs)
		vpAssert(xs[0] <= xs[1] && xs[1] <= xs[2], "slices.Sort")
	case 19:
		var sb strings.Builder
		sb.WriteString(s)
		sb.WriteByte('!')
		vpAssert(sb.String() == s+"!" && sb.Len() == len(s)+1, "strings.Builder")
	case 20:
		var bb bytes.Buffer
		bb.WriteString(s)
		bb.WriteByte('!')
		vpAssert(bb.String() == s+"!", "bytes.Buffer as a string builder")
	case 21:
		vpAssert(fmt.Sprintf("%s-%d", s, 7) == s+"-7", "fmt.Sprintf %s %d")
	case 22:
		e1 := errors.New("x")
		e2 := fmt.Errorf("wrap: %w", e1)
		vpAssert(errors.Is(e2, e1) && errors.Unwrap(e2) == e1, "errors.Is/Unwrap")
	case 23:
		n := 0
		vpProbeOnce.Do(func() { n++ })
		vpProbeMu.Lock()
		vpProbeMu.Unlock()
		vpAssert(n <= 1, "sync.Once / sync.Mutex")
	case 24:
		vpAssert(strings.HasPrefix(s, "a") == (len(s) > 0 && s[0] == 'a'), "strings.HasPrefix")
	case 25:
		vpAssert(slices.Contains([]string{"a", "/"}, s) == (s == "a" || s == "/"), "slices.Contains")
	case 26:
		vpAssert(strings.IndexFunc(s, unicode.IsSpace) == vpFirstIdx(s, ' '), "strings.IndexFunc")
	case 27:
		vpAssert(strings.Title(s) != "" || s == "", "strings.Title") //nolint
	case 28:
		q := strconv.Quote(s)
		u, err := strconv.Unquote(q)
		vpAssert(err == nil && u == s, "strconv.Quote/Unquote")
	case 29:
		vpAssert(strings.Compare(s, "a") == cmpStr(s, "a"), "strings.Compare")
	case 30:
		vpAssert(bytes.Equal([]byte(s), []byte(s)), "bytes.Equal on plain bytes")
	case 31:
		vpAssert(strings.TrimFunc(s, unicode.IsSpace) == strings.TrimSpace(s), "strings.TrimFunc")
	case 32:
		b, err := strconv.ParseBool(s)
		vpAssert(err != nil || b || !b, "strconv.ParseBool")
	case 34:
		f := strings.FieldsFunc(s, func(r rune) bool { return r == '/' })
		n := 0
		for _, x := range f {
			n += len(x)
			vpAssert(x != "" && vpFirstIdx(x, '/') < 0, "strings.FieldsFunc pieces")
		}
		vpAssert(n == len(s)-vpCountByte(s, '/'), "strings.FieldsFunc")
	case 35:
		vpAssert(strings.TrimLeft(s, "a/") == strings.TrimLeftFunc(s, func(r rune) bool { return r == 'a' || r == '/' }), "strings.TrimLeft cutset")
	case 36:
		vpAssert(strconv.FormatBool(len(s) > 1) == fmt.Sprint(len(s) > 1), "strconv.FormatBool")
	case 37:
		vpAssert(strings.Replace(s, "/", "", 1) == strings.Join(strings.SplitN(s, "/", 2), ""), "strings.Replace n=1")
	case 38:
		xs := strings.SplitAfter(s, "/")
		vpAssert(strings.Join(xs, "") == s, "strings.SplitAfter")
	case 39:
		xs := []string{"b", s, "a"}
		vpAssert((slices.Index(xs, s) == 1) == (s != "b"), "slices.Index")
	case 40:
		xs := []string{"x", s, "y"}
		slices.Reverse(xs)
		vpAssert(xs[0] == "y" && xs[1] == s && xs[2] == "x", "slices.Reverse")
	case 41:
		xs := slices.Compact([]string{s, s, "q", "q", s})
		vpAssert((s == "q" && len(xs) == 1) || (s != "q" && len(xs) == 3), "slices.Compact")
	case 42:
		xs := slices.Insert([]string{"a", "b"}, 1, s)
		vpAssert(len(xs) == 3 && xs[1] == s && xs[2] == "b", "slices.Insert")
	case 43:
		xs := slices.Delete([]string{"a", s, "b"}, 1, 2)
		vpAssert(len(xs) == 2 && xs[0] == "a" && xs[1] == "b", "slices.Delete")
	case 44:
		xs := []string{"a", "c", "e"}
		i := sort.SearchStrings(xs, s)
		vpAssert(i >= 0 && i <= 3 && (i == 3 || xs[i] >= s) && (i == 0 || xs[i-1] < s), "sort.SearchStrings")
	case 45:
		_, found := slices.BinarySearch([]string{"a", "c", "e"}, s)
		vpAssert(found == (s == "a" || s == "c" || s == "e"), "slices.BinarySearch")
	case 46:
		e1 := errors.New("a")
		j := errors.Join(e1, nil, errors.New("b"))
		vpAssert(j != nil && errors.Is(j, e1), "errors.Join")
	case 47:
		vpAssert(fmt.Sprint([]string{"a", s}) == "[a "+s+"]", "fmt.Sprint of a slice")
	case 48:
		ok := len(s) > 0 && s[0] >= 'a' && s[0] <= 'z'
		vpAssert(len(s) == 0 || unicode.IsLower(rune(s[0])) == ok, "unicode.IsLower (ASCII)")
	case 49:
		vpAssert(len(s) == 0 || unicode.IsDigit(rune(s[0])) == (s[0] >= '0' && s[0] <= '9'), "unicode.IsDigit (ASCII)")
	case 50:
		vpAssert(len(s) == 0 || unicode.IsLetter(rune(s[0])) == (s[0] == 'a'), "unicode.IsLetter (ASCII)")
	case 51:
		vpAssert(strings.ContainsFunc(s, func(r rune) bool { return r == '#' }) == (vpFirstIdx(s, '#') >= 0), "strings.ContainsFunc")
	case 52:
		r := strings.NewReplacer("/", "-", "#", "+")
		t := r.Replace(s)
		vpAssert(len(t) == len(s) && vpCountByte(t, '-') == vpCountByte(s, '/') && vpCountByte(t, '/') == 0, "strings.NewReplacer (byte replacer)")
	case 53:
		m := map[string]int{"a": 1, s: 2}
		ks := slices.Sorted(maps.Keys(m))
		vpAssert(len(ks) == len(m) && slices.IsSorted(ks), "maps.Keys / slices.Sorted")
	case 54:
		xs := slices.Clone([]string{s, "b"})
		ys := append(xs[:1:1], "c")
		vpAssert(xs[1] == "b" && ys[1] == "c" && slices.Equal(xs, []string{s, "b"}), "slices.Clone / full slice expressions")
	case 55:
		var target *vpProbeErr
		err := fmt.Errorf("w: %w", &vpProbeErr{s})
		vpAssert(errors.As(err, &target) && target.s == s, "errors.As")
	case 56:
		i, err := strconv.ParseInt("010", 10, 64)
		j, err2 := strconv.ParseInt("-7", 10, 64)
		k, err3 := strconv.ParseInt("0x1F", 0, 64)
		_, err4 := strconv.ParseInt("12a", 10, 64)
		vpAssert(err == nil && i == 10 && err2 == nil && j == -7 && err3 == nil && k == 31 && err4 != nil, "strconv.ParseInt")
	case 57:
		u, err := strconv.ParseUint("255", 10, 8)
		_, err2 := strconv.ParseUint("256", 10, 8)
		vpAssert(err == nil && u == 255 && err2 != nil, "strconv.ParseUint with a bit size")
	case 59:
		t := vpStrUpTo(2, "a-z")
		r := []rune("a\u00e9\u65e5" + t)
		vpAssert(len(r) == 3+len(t) && r[1] == 0xe9 && r[2] == 0x65e5 && string(r[1:3]) == "\u00e9\u65e5" && len(string(r)) == 6+len(t), "[]rune(string) and string([]rune) count characters, not bytes")
	case 60:
		r := []rune("\u00e9\u00e9\u00e9") // 3 characters: 12 bytes of storage, rounded up to a size class of 16 bytes
		vpAssert(len(r) == 3 && cap(r) >= 3 && cap(r) <= 8 && len(r[:cap(r)]) == cap(r), "[]rune(string): slicing up to the capacity is legal")
	case 61:
		i := strings.IndexAny(s, "/#")
		vpAssert(strings.ContainsAny(s, "/#") == (vpCountByte(s, '/')+vpCountByte(s, '#') > 0) && (i >= 0) == strings.ContainsAny(s, "/#") && (i < 0 || (s[i] == '/' || s[i] == '#') && !strings.ContainsAny(s[:i], "/#")), "strings.ContainsAny / IndexAny")
	case 58:
		vpAssert(strconv.FormatInt(-42, 10) == "-42" && strconv.FormatInt(255, 16) == "ff" && strconv.Itoa(1000) == "1000", "strconv.FormatInt")
	case 33:
		m := map[string]int{s: 1, "zz": 2}
		var ks []string
		for k := range m {
			ks = append(ks, k)
		}
		sort.Strings(ks)
		vpAssert(len(ks) == 2 && ks[0] <= ks[1], "sorted map keys")
	}
}

type vpProbeErr struct{ s string }

func (e *vpProbeErr) Error() string { return e.s }

func cmpStr(a, b string) int {
	if a < b {
		return -1
	}
	if a > b {
		return 1
	}
	return 0
}
