//go:build verif

package ordered

import (
	"encoding/json"

	"gopkg.in/yaml.v3"
)

// C08 - order-significant mappings keep document order through decode and encode.

func init() {
	vpRegister("c08_decode_order", vpH_c08_decode_order)
	vpRegister("c08_roundtrip", vpH_c08_roundtrip)
	vpRegister("c08_exotic_keys", vpH_c08_exotic_keys)
}

// document order through DecodeYAML, UnmarshalOrdered into Map[string,string],
// and the two ordered emitters
func vpH_c08_decode_order() {
	n := vpInt(0, vpParam("entries"))
	root := vpMapping()
	var keys, vals []string
	for i := 0; i < n; i++ {
		k := vpStrUpTo(2, "a-b")
		for _, o := range keys {
			vpAssume(o != k)
		}
		v := vpStrUpTo(1, "x-y")
		keys, vals = append(keys, k), append(vals, v)
		root.Content = append(root.Content, vpScalar(k), vpScalar(v))
	}
	got, err := DecodeYAML(root)
	vpAssert(err == nil, "a flat mapping decodes")
	sa, ok := got.(*Map[string, any])
	vpAssert(ok && sa.Len() == n, "a mapping decodes to an ordered map of the same size")
	i := 0
	sa.Range(func(k string, v any) error {
		vpAssert(i < n && k == keys[i] && v == any(vals[i]), "decoded keys come in document order")
		i++
		return nil
	})

	// env-block style target: *Map[string,string]
	ss := NewMap[string, string](0)
	vpAssert(ss.UnmarshalOrdered(sa) == nil, "UnmarshalOrdered into Map[string,string] succeeds")
	i = 0
	ss.Range(func(k, v string) error {
		vpAssert(i < n && k == keys[i] && v == vals[i], "UnmarshalOrdered keeps document order")
		i++
		return nil
	})
	vpAssert(i == n, "UnmarshalOrdered keeps every entry")

	// emitters
	b, err := ss.MarshalJSON()
	vpAssert(err == nil && vpJKind(b) == 5 && vpJLen(b) == n, "MarshalJSON emits one member per entry")
	for j := 0; j < n; j++ {
		vpAssert(vpJKey(b, j) == keys[j], "MarshalJSON emits keys in document order")
	}
	y, err := sa.MarshalYAML()
	node, isNode := y.(*yaml.Node)
	vpAssert(err == nil && isNode && len(node.Content) == 2*n, "MarshalYAML emits one pair per entry")
	for j := 0; j < n; j++ {
		var k any
		vpAssert(node.Content[2*j].Decode(&k) == nil && k == any(keys[j]), "MarshalYAML emits keys in document order")
	}
}

// a programmatically built map survives encode -> decode at node level
func vpH_c08_roundtrip() {
	n := vpInt(0, vpParam("entries"))
	m := NewMap[string, any](0)
	for i := 0; i < n; i++ {
		k := vpStrUpTo(2, "a-b")
		vpAssume(!m.Contains(k))
		if vpBool() {
			m.Set(k, vpStrUpTo(1, "x-y"))
		} else {
			inner := NewMap[string, any](0)
			inner.Set(vpStrUpTo(1, "a-b"), vpStrUpTo(1, "x-y"))
			m.Set(k, inner)
		}
	}
	// programmatic maps have histories: deletions and renames leave tombstoned
	// slots behind (front, middle or end) that the emitters must step over
	for o := vpInt(0, vpParam("ops")); o > 0; o-- {
		var keys []string
		m.Range(func(k string, _ any) error { keys = append(keys, k); return nil })
		if len(keys) == 0 {
			break
		}
		k := keys[vpInt(0, len(keys)-1)]
		if vpBool() {
			m.Delete(k)
		} else {
			m.Replace(k, keys[vpInt(0, len(keys)-1)], "r")
		}
	}
	// JSON: bytes -> yaml.Unmarshal (JSON is YAML) -> DecodeYAML
	jb, jerr := json.Marshal(m)
	vpAssert(jerr == nil, "json.Marshal of a programmatically built map succeeds")
	if jerr == nil {
		var jn yaml.Node
		vpAssert(yaml.Unmarshal(jb, &jn) == nil, "the emitted JSON is readable")
		jback, err := DecodeYAML(&jn)
		vpAssert(err == nil, "the emitted JSON decodes")
		jm, ok := jback.(*Map[string, any])
		vpAssert(ok && Equal(m, jm), "JSON encode then decode gives an Equal map (keys, values, order)")
	}
	// YAML: node tree -> DecodeYAML
	y, err := m.MarshalYAML()
	node, isNode := y.(*yaml.Node)
	vpAssert(err == nil && isNode, "MarshalYAML succeeds")
	back, err := DecodeYAML(node)
	vpAssert(err == nil, "the emitted node tree decodes")
	bm, ok := back.(*Map[string, any])
	vpAssert(ok && Equal(m, bm), "YAML encode then decode gives an Equal map (keys, values, order)")
}

// Keys are arbitrary strings: quotes, backslashes, control characters, DEL.
// Whatever the key, the map marshals to JSON (encoding/json validates what a
// MarshalJSON method returns) and decodes back to an Equal map; the same on
// the YAML node leg.
func vpH_c08_exotic_keys() {
	class := "\\x01-\\x7f"
	k1 := vpStr(1, class) + vpStrUpTo(1, class)
	k2 := vpStr(1, class)
	vpAssume(k1 != k2)
	m := NewMap[string, any](0)
	m.Set(k1, "v")
	if vpBool() {
		inner := NewMap[string, any](0)
		inner.Set(k2, "w")
		m.Set(k2, inner)
	} else {
		m.Set(k2, k1)
	}
	jb, jerr := json.Marshal(m)
	vpAssert(jerr == nil, "a map with arbitrary string keys marshals to JSON")
	if jerr == nil {
		vpAssert(vpJKind(jb) == 5 && vpJLen(jb) == 2 && vpJKey(jb, 0) == k1 && vpJKey(jb, 1) == k2, "the JSON object has exactly these keys, in order")
	}
	y, err := m.MarshalYAML()
	node, isNode := y.(*yaml.Node)
	vpAssert(err == nil && isNode, "MarshalYAML succeeds for arbitrary string keys")
	if err == nil && isNode {
		back, derr := DecodeYAML(node)
		bm, ok := back.(*Map[string, any])
		vpAssert(derr == nil && ok && Equal(m, bm), "YAML encode then decode gives an Equal map for arbitrary string keys")
	}
}
