//go:build verif

package ordered

import (
	"encoding/json"

	"gopkg.in/yaml.v3"
)

// C08 - order-significant mappings keep document order through decode and encode.

func init() {
	vpRegister("c08_decode_order", vpH_c08_decode_order)
	vpRegister("c08_roundtrip", vpH_c08_roundtrip)
	vpRegister("c08_exotic_keys", vpH_c08_exotic_keys)
	vpRegister("c08_copy", vpH_c08_copy)
	vpRegister("c08_dupkeys", vpH_c08_dupkeys)
}

// document order through DecodeYAML, UnmarshalOrdered into Map[string,string],
// and the two ordered emitters
func vpH_c08_decode_order() {
	n := vpInt(0, vpParam("entries"))
	root := vpMapping()
	var keys, vals []string
	for i := 0; i < n; i++ {
		k := vpStrUpTo(2, "a-b")
		for _, o := range keys {
			vpAssume(o != k)
		}
		v := vpStrUpTo(1, "x-y")
		keys, vals = append(keys, k), append(vals, v)
		root.Content = append(root.Content, vpScalar(k), vpScalar(v))
	}
	got, err := DecodeYAML(root)
	vpAssert(err == nil, "a flat mapping decodes")
	sa, ok := got.(*Map[string, any])
	vpAssert(ok && sa.Len() == n, "a mapping decodes to an ordered map of the same size")
	i := 0
	sa.Range(func(k string, v any) error {
		vpAssert(i < n && k == keys[i] && v == any(vals[i]), "decoded keys come in document order")
		i++
		return nil
	})

	// env-block style target: *Map[string,string]
	ss := NewMap[string, string](0)
	vpAssert(ss.UnmarshalOrdered(sa) == nil, "UnmarshalOrdered into Map[string,string] succeeds")
	i = 0
	ss.Range(func(k, v string) error {
		vpAssert(i < n && k == keys[i] && v == vals[i], "UnmarshalOrdered keeps document order")
		i++
		return nil
	})
	vpAssert(i == n, "UnmarshalOrdered keeps every entry")

	// emitters
	b, err := ss.MarshalJSON()
	vpAssert(err == nil && vpJKind(b) == 5 && vpJLen(b) == n, "MarshalJSON emits one member per entry")
	for j := 0; j < n; j++ {
		vpAssert(vpJKey(b, j) == keys[j], "MarshalJSON emits keys in document order")
	}
	y, err := sa.MarshalYAML()
	node, isNode := y.(*yaml.Node)
	vpAssert(err == nil && isNode && len(node.Content) == 2*n, "MarshalYAML emits one pair per entry")
	for j := 0; j < n; j++ {
		var k any
		vpAssert(node.Content[2*j].Decode(&k) == nil && k == any(keys[j]), "MarshalYAML emits keys in document order")
	}
}

// a programmatically built map survives encode -> decode at node level
func vpH_c08_roundtrip() {
	m := NewMap[string, any](0)
	if vpParam("ops") == 0 {
		// variety of content: symbolic keys (the empty key, coinciding prefixes), nested maps
		n := vpInt(0, vpParam("entries"))
		for i := 0; i < n; i++ {
			k := vpStrUpTo(2, "a-b")
			vpAssume(!m.Contains(k))
			if vpBool() {
				m.Set(k, vpStrUpTo(1, "x-y"))
			} else {
				inner := NewMap[string, any](0)
				inner.Set(vpStrUpTo(1, "a-b"), vpStrUpTo(1, "x-y"))
				m.Set(k, inner)
			}
		}
	} else {
		// variety of history: fixed content, then `ops` further operations
		for i, k := range []string{"a", "b", "c", "d"}[:vpParam("entries")] {
			m.Set(k, "v"+string(rune('0'+i)))
		}
	}
	// programmatic maps have histories: deletions and renames leave tombstoned
	// slots behind (front, middle or end) that the emitters must step over, and
	// later insertions must still land where they belong. A list-of-pairs
	// model records what was built.
	var mk []string
	var mv []any
	m.Range(func(k string, v any) error { mk, mv = append(mk, k), append(mv, v); return nil })
	find := func(k string) int {
		for i, o := range mk {
			if o == k {
				return i
			}
		}
		return -1
	}
	remove := func(i int) {
		mk = append(append([]string{}, mk[:i]...), mk[i+1:]...)
		mv = append(append([]any{}, mv[:i]...), mv[i+1:]...)
	}
	for o := vpInt(0, vpParam("ops")); o > 0; o-- {
		if len(mk) == 0 {
			break
		}
		k := mk[vpInt(0, len(mk)-1)]
		switch vpInt(0, 3) {
		case 0:
			m.Delete(k)
			remove(find(k))
		case 1: // rename onto another existing key or itself
			k2 := mk[vpInt(0, len(mk)-1)]
			m.Replace(k, k2, "r")
			i := find(k)
			mk[i], mv[i] = k2, "r"
			if k2 != k {
				for j := range mk {
					if j != i && mk[j] == k2 {
						remove(j)
						break
					}
				}
			}
		case 2: // insert a fresh key, or overwrite an existing one, after the deletions
			k2 := "n" + vpStrUpTo(1, "a-b")
			m.Set(k2, "s")
			if i := find(k2); i >= 0 {
				mv[i] = "s"
			} else {
				mk, mv = append(mk, k2), append(mv, "s")
			}
		default: // Replace with an absent old key: the item goes to the end, an existing new key goes away
			m.Replace("absent", k, "q")
			remove(find(k))
			mk, mv = append(mk, k), append(mv, "q")
		}
	}
	vpAssert(m.Len() == len(mk), "the built map has the entries of the list-of-pairs model")
	for i, k := range mk {
		got, has := m.Get(k)
		_, nested := mv[i].(*Map[string, any])
		vpAssert(has && (nested || got == mv[i]), "every key that was built is found, with its value")
	}
	bi := 0
	m.Range(func(k string, v any) error {
		if bi < len(mk) {
			_, nested := mv[bi].(*Map[string, any])
			vpAssert(k == mk[bi] && (nested || v == mv[bi]), "the built map has the keys, values and order of the model")
		}
		bi++
		return nil
	})
	// JSON: bytes -> yaml.Unmarshal (JSON is YAML) -> DecodeYAML
	jb, jerr := json.Marshal(m)
	vpAssert(jerr == nil, "json.Marshal of a programmatically built map succeeds")
	if jerr == nil {
		var jn yaml.Node
		vpAssert(yaml.Unmarshal(jb, &jn) == nil, "the emitted JSON is readable")
		jback, err := DecodeYAML(&jn)
		vpAssert(err == nil, "the emitted JSON decodes")
		jm, ok := jback.(*Map[string, any])
		vpAssert(ok && Equal(m, jm), "JSON encode then decode gives an Equal map (keys, values, order)")
		if ok {
			vpAssert(vpJKind(jb) == 5 && vpJLen(jb) == len(mk), "the JSON object has one member per entry that was built")
			for i := range mk {
				if i < vpJLen(jb) {
					vpAssert(vpJKey(jb, i) == mk[i], "the JSON members are the keys that were built, in order")
				}
			}
		}
	}
	// YAML: node tree -> DecodeYAML
	y, err := m.MarshalYAML()
	node, isNode := y.(*yaml.Node)
	vpAssert(err == nil && isNode, "MarshalYAML succeeds")
	back, err := DecodeYAML(node)
	vpAssert(err == nil, "the emitted node tree decodes")
	bm, ok := back.(*Map[string, any])
	vpAssert(ok && Equal(m, bm), "YAML encode then decode gives an Equal map (keys, values, order)")
}

// Keys are arbitrary strings: quotes, backslashes, control characters, DEL.
// Whatever the key, the map marshals to JSON (encoding/json validates what a
// MarshalJSON method returns) and decodes back to an Equal map; the same on
// the YAML node leg.
func vpH_c08_exotic_keys() {
	class := "\\x01-\\x7f"
	k1 := vpStr(1, class) + vpStrUpTo(1, class)
	k2 := vpStr(1, class)
	vpAssume(k1 != k2)
	m := NewMap[string, any](0)
	m.Set(k1, "v")
	if vpBool() {
		inner := NewMap[string, any](0)
		inner.Set(k2, "w")
		m.Set(k2, inner)
	} else {
		m.Set(k2, k1)
	}
	jb, jerr := json.Marshal(m)
	vpAssert(jerr == nil, "a map with arbitrary string keys marshals to JSON")
	if jerr == nil {
		vpAssert(vpJKind(jb) == 5 && vpJLen(jb) == 2 && vpJKey(jb, 0) == k1 && vpJKey(jb, 1) == k2, "the JSON object has exactly these keys, in order")
	}
	y, err := m.MarshalYAML()
	node, isNode := y.(*yaml.Node)
	vpAssert(err == nil && isNode, "MarshalYAML succeeds for arbitrary string keys")
	if err == nil && isNode {
		back, derr := DecodeYAML(node)
		bm, ok := back.(*Map[string, any])
		vpAssert(derr == nil && ok && Equal(m, bm), "YAML encode then decode gives an Equal map for arbitrary string keys")
	}
}

// Unmarshalling one ordered map into another makes an independent map: the
// copy has the same keys, values and order, and editing either afterwards
// (overwriting, renaming or deleting entries that exist) leaves the other one
// exactly as it was.
func vpH_c08_copy() {
	src := NewMap[string, any](0)
	n := vpInt(1, 3)
	for i := 0; i < n; i++ {
		src.Set("k"+string(rune('a'+i)), vpStr(1, "x-y"))
	}
	if vpBool() && n > 1 {
		src.Delete("ka") // a tombstone in the source
	}
	var dst *Map[string, any]
	if vpBool() {
		dst = NewMap[string, any](0)
	} else {
		dst = new(Map[string, any])
	}
	vpAssert(Unmarshal(src, dst) == nil, "map into map unmarshals")
	vpAssert(Equal(src, dst), "the copy has the same keys, values and order")
	var keys []string
	dst.Range(func(k string, _ any) error { keys = append(keys, k); return nil })
	if len(keys) == 0 {
		return
	}
	k := keys[vpInt(0, len(keys)-1)]
	editDst := vpBool()
	a, b := src, dst
	if editDst {
		a, b = dst, src
	}
	// a is edited, b is watched
	watched := vpSnapshot(b)
	switch vpInt(0, 2) {
	case 0:
		a.Set(k, "edited")
	case 1:
		a.Replace(k, "renamed", "edited")
	default:
		a.Delete(k)
	}
	vpAssert(vpUnchanged(b, watched), "editing one of the two maps leaves the other exactly as it was")
}

// A mapping node that spells the same key twice (literally, or as two
// spellings of one canonical key) decodes to one entry: at the place of the
// first occurrence, with the last value; the emitters then write each key once.
func vpH_c08_dupkeys() {
	k1, k2 := vpStr(1, "a-b"), vpStr(1, "a-b")
	v1, v2, v3 := "1", "2", "3"
	root := vpMapping()
	second := vpScalar(k1)
	if vpBool() { // another spelling of an integer key
		k1 = "31"
		root.Content = append(root.Content, &yaml.Node{Kind: yaml.ScalarNode, Tag: "!!int", Value: "31"}, vpScalar(v1))
		second = &yaml.Node{Kind: yaml.ScalarNode, Tag: "!!int", Value: "0x1F"}
	} else {
		root.Content = append(root.Content, vpScalar(k1), vpScalar(v1))
	}
	vpAssume(k2 != k1)
	root.Content = append(root.Content, vpScalar(k2), vpScalar(v2), second, vpScalar(v3))
	got, err := DecodeYAML(root)
	m, ok := got.(*Map[string, any])
	vpAssert(err == nil && ok, "a mapping with a repeated key decodes")
	if err != nil || !ok {
		return
	}
	vpAssert(m.Len() == 2, "a repeated key is one entry")
	i := 0
	m.Range(func(k string, v any) error {
		switch i {
		case 0:
			vpAssert(k == k1 && v == any(v3), "the repeated key stands where it first occurred and has its last value")
		case 1:
			vpAssert(k == k2 && v == any(v2), "the other key follows")
		default:
			vpAssert(false, "iteration yields each key once")
		}
		i++
		return nil
	})
	b, jerr := json.Marshal(m)
	vpAssert(jerr == nil && vpJKind(b) == 5 && vpJLen(b) == 2, "the JSON object has each key once")
}

func init() { vpRegister("c08_merge_wide", vpH_c08_merge_wide) }

// A mapping with many entries: a merge that brings in four keys, placed first,
// in the middle or last among n keys of the mapping's own (n next to the
// integer constants of the resolver, and 14 - sizes at which library routines
// change algorithm): the merged keys stand where the merge key stood, in the
// order of their source, and the own keys in document order around them.
func vpH_c08_merge_wide() {
	n := vpBoundarySize("*yaml.go", 14)
	if n > 20 {
		n = 20
	}
	src := vpMapping()
	src.Anchor = "s"
	merged := []string{"zulu", "yankee", "xray", "whiskey"}
	for _, k := range merged {
		src.Content = append(src.Content, vpScalar(k), vpScalar("m"))
	}
	at := 0
	switch vpInt(0, 2) {
	case 1:
		at = n / 2
	case 2:
		at = n
	}
	m := vpMapping()
	var want []string
	for i := 0; i <= n; i++ {
		if i == at {
			m.Content = append(m.Content, vpMergeKey(), vpAlias(src))
			want = append(want, merged...)
		}
		if i < n {
			k := "own" + string(rune('a'+i))
			m.Content = append(m.Content, vpScalar(k), vpScalar("o"))
			want = append(want, k)
		}
	}
	holder := vpMapping()
	holder.Content = append(holder.Content, vpScalar("s"), src, vpScalar("m"), m)
	got, err := DecodeYAML(holder)
	vpAssert(err == nil, "the document decodes")
	hm, ok := got.(*MapSA)
	if !ok {
		vpAssert(ok, "the document is a mapping")
		return
	}
	mv, _ := hm.Get("m")
	mm, ok := mv.(*MapSA)
	vpAssert(ok && mm.Len() == len(want), "one entry per key")
	if !ok || mm.Len() != len(want) {
		return
	}
	i := 0
	mm.Range(func(k string, v any) error {
		vpAssert(k == want[i], "merged keys stand where the merge key stood, in the order of their source; own keys in document order")
		i++
		return nil
	})
}
