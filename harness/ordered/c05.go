//go:build verif

package ordered

// C05 - the ordered map is a correct ordered dictionary.
// Oracle: a list-of-pairs model written from the doc comments of Set, Replace
// and Delete and from the property statement. Abstraction: live slots in order.

func init() {
	vpRegister("c05_step", vpH_c05_step)
	vpRegister("c05_obs", vpH_c05_obs)
	vpRegister("c05_equal", vpH_c05_equal)
	vpRegister("c05_range_rename", vpH_c05_range_rename)
	vpRegister("c05_history", vpH_c05_history)
	vpRegister("c05_nil", vpH_c05_nil)
	vpRegister("c05_marshal", vpH_c05_marshal)
}

type vpPair struct{ k, v int }

// vpMkMap builds an arbitrary map state satisfying the representation
// invariant RI (= exactly the states reachable through the public API, see
// DESIGN.md C05): index maps exactly the live slots, live keys pairwise
// distinct, at least one live slot unless there are no slots at all.
// Tombstones carry arbitrary stale keys and values.
func vpMkMap(maxSlots int) *Map[int, int] {
	n := vpInt(0, maxSlots)
	if n == 0 && vpBool() {
		return new(Map[int, int]) // zero value: nil items, nil index
	}
	m := &Map[int, int]{index: map[int]int{}}
	m.items = make([]Tuple[int, int], n)
	live := 0
	for i := 0; i < n; i++ {
		k := vpInt(0, maxSlots+1)
		v := vpInt(0, 3)
		d := vpBool()
		m.items[i] = Tuple[int, int]{Key: k, Value: v, deleted: d}
		if !d {
			_, dup := m.index[k]
			vpAssume(!dup)
			m.index[k] = i
			live++
		}
	}
	vpAssume(live > 0 || n == 0)
	return m
}

func vpAbs(m *Map[int, int]) []vpPair {
	var out []vpPair
	for _, it := range m.items {
		if !it.deleted {
			out = append(out, vpPair{it.Key, it.Value})
		}
	}
	return out
}

// vpRI checks the representation invariant on a (post-)state.
func vpRI(m *Map[int, int]) bool {
	live := 0
	for i, it := range m.items {
		if it.deleted {
			continue
		}
		live++
		j, ok := m.index[it.Key]
		if !ok || j != i {
			return false
		}
	}
	if len(m.index) != live {
		return false
	}
	if live == 0 && len(m.items) != 0 {
		return false
	}
	if len(m.items) > 0 && m.index == nil {
		return false
	}
	return true
}

func vpFind(l []vpPair, k int) int {
	for i, p := range l {
		if p.k == k {
			return i
		}
	}
	return -1
}

func vpRemove(l []vpPair, i int) []vpPair {
	out := make([]vpPair, 0, len(l))
	for j, p := range l {
		if j != i {
			out = append(out, p)
		}
	}
	return out
}

func vpModelSet(l []vpPair, k, v int) []vpPair {
	out := append([]vpPair{}, l...)
	if i := vpFind(out, k); i >= 0 {
		out[i].v = v
		return out
	}
	return append(out, vpPair{k, v})
}

func vpModelDelete(l []vpPair, k int) []vpPair {
	if i := vpFind(l, k); i >= 0 {
		return vpRemove(l, i)
	}
	return append([]vpPair{}, l...)
}

// vpModelReplace: put (new,v) where old is, dropping any other entry keyed
// new; if old is absent, drop any entry keyed new and append (new,v).
func vpModelReplace(l []vpPair, old, new, v int) []vpPair {
	out := append([]vpPair{}, l...)
	i := vpFind(out, old)
	if i < 0 {
		if j := vpFind(out, new); j >= 0 {
			out = vpRemove(out, j)
		}
		return append(out, vpPair{new, v})
	}
	out[i] = vpPair{new, v}
	if old != new {
		for j := range out {
			if j != i && out[j].k == new {
				return vpRemove(out, j)
			}
		}
	}
	return out
}

func vpEqPairs(a, b []vpPair) bool {
	if len(a) != len(b) {
		return false
	}
	for i := range a {
		if a[i] != b[i] {
			return false
		}
	}
	return true
}

// vpSnap / vpSameRep: representation-level snapshot, to show that observers
// do not write to the map they observe.
type vpRep struct {
	items    []Tuple[int, int]
	itemsNil bool
	index    []vpPair
	indexNil bool
}

func vpSnap(m *Map[int, int]) vpRep {
	r := vpRep{itemsNil: m.items == nil, indexNil: m.index == nil}
	r.items = append(r.items, m.items...)
	for i, it := range m.items {
		if j, ok := m.index[it.Key]; ok && j == i {
			r.index = append(r.index, vpPair{it.Key, j})
		}
	}
	return r
}

func vpSameRep(m *Map[int, int], r vpRep) bool {
	if (m.items == nil) != r.itemsNil || (m.index == nil) != r.indexNil {
		return false
	}
	if len(m.items) != len(r.items) {
		return false
	}
	for i := range m.items {
		if m.items[i] != r.items[i] {
			return false
		}
	}
	n := 0
	for i, it := range m.items {
		if j, ok := m.index[it.Key]; ok && j == i {
			n++
		}
	}
	if n != len(r.index) || len(m.index) != len(r.index) {
		return false
	}
	for _, p := range r.index {
		j, ok := m.index[p.k]
		if !ok || j != p.v {
			return false
		}
	}
	return true
}

// vpCheckObservers compares every observer with the model list.
func vpCheckObservers(m *Map[int, int], want []vpPair, probe int) {
	vpAssert(m.Len() == len(want), "observer Len agrees with model")
	vpAssert(m.IsZero() == (len(want) == 0), "observer IsZero agrees with model")
	got, ok := m.Get(probe)
	i := vpFind(want, probe)
	vpAssert(ok == (i >= 0), "observer Get presence agrees with model")
	if i >= 0 {
		vpAssert(got == want[i].v, "observer Get value agrees with model")
	} else {
		vpAssert(got == 0, "observer Get of absent key returns zero value")
	}
	vpAssert(m.Contains(probe) == (i >= 0), "observer Contains agrees with model")
	var seen []vpPair
	err := m.Range(func(k, v int) error { seen = append(seen, vpPair{k, v}); return nil })
	vpAssert(err == nil, "Range returns nil when callback does")
	vpAssert(vpEqPairs(seen, want), "observer Range order and contents agree with model")
	tm := m.ToMap()
	vpAssert(tm != nil, "ToMap of non-nil map is non-nil")
	vpAssert(len(tm) == len(want), "observer ToMap size agrees with model")
	for _, p := range want {
		x, has := tm[p.k]
		vpAssert(has && x == p.v, "observer ToMap contents agree with model")
	}
}

// Inductive step: one mutator with arbitrary arguments from an arbitrary RI state.
func vpH_c05_step() {
	n := vpParam("slots")
	m := vpMkMap(n)
	pre := vpAbs(m)
	op := vpInt(0, 2)
	k := vpInt(0, n+1)
	k2 := vpInt(0, n+1)
	v := vpInt(0, 3)
	var want []vpPair
	switch op {
	case 0:
		m.Set(k, v)
		want = vpModelSet(pre, k, v)
		vpAssert(vpRI(m), "step Set: representation invariant holds afterwards")
		vpAssert(vpEqPairs(vpAbs(m), want), "step Set: abstract state equals model")
	case 1:
		m.Replace(k, k2, v)
		want = vpModelReplace(pre, k, k2, v)
		vpAssert(vpRI(m), "step Replace: representation invariant holds afterwards")
		vpAssert(vpEqPairs(vpAbs(m), want), "step Replace: abstract state equals model")
	default:
		m.Delete(k)
		want = vpModelDelete(pre, k)
		vpAssert(vpRI(m), "step Delete: representation invariant holds afterwards")
		vpAssert(vpEqPairs(vpAbs(m), want), "step Delete: abstract state equals model")
	}
	vpCheckObservers(m, want, vpInt(0, n+1))
}

// Observers on arbitrary RI states, with a frame check.
func vpH_c05_obs() {
	n := vpParam("slots")
	a := vpMkMap(n)
	la := vpAbs(a)
	snap := vpSnap(a)
	whole := vpSnapshot(a)
	vpCheckObservers(a, la, vpInt(0, n+1))
	// Range stops at the first error and returns it
	stopAt := vpInt(0, n)
	calls := 0
	sentinel := ErrIntoNil
	err := a.Range(func(k, v int) error {
		calls++
		if calls-1 == stopAt {
			return sentinel
		}
		return nil
	})
	if stopAt < len(la) {
		vpAssert(err == sentinel && calls == stopAt+1, "Range stops at the first callback error and returns it")
	} else {
		vpAssert(err == nil && calls == len(la), "Range visits every live entry once")
	}
	vpAssert(vpSameRep(a, snap), "observers do not modify the map")
	vpAssert(vpUnchanged(a, whole), "observers write nothing at all into the map (no cached or lazily built state)")
}

func vpH_c05_equal() {
	n := vpParam("slots")
	a := vpMkMap(n)
	b := vpMkMap(n)
	sa, sb := vpSnap(a), vpSnap(b)
	wa, wb := vpSnapshot(a), vpSnapshot(b)
	want := vpEqPairs(vpAbs(a), vpAbs(b))
	vpAssert(Equal(a, b) == want, "Equal(a,b) iff keys, values and order all match")
	vpAssert(Equal(b, a) == want, "Equal is symmetric")
	vpAssert(Equal(a, a), "Equal is reflexive")
	vpAssert(vpSameRep(a, sa) && vpSameRep(b, sb), "Equal does not modify its arguments")
	vpAssert(vpUnchanged(a, wa) && vpUnchanged(b, wb), "Equal writes nothing at all into its arguments")
}

// Renames from inside a Range callback (the interpolateOrderedMap pattern).
func vpH_c05_range_rename() {
	n := vpParam("slots")
	m := vpMkMap(n)
	model := vpAbs(m)
	start := len(model)
	seen := make([]bool, len(model)) // per model entry: was it passed to the callback?
	visits := 0
	m.Range(func(k, v int) error {
		visits++
		i := vpFind(model, k)
		vpAssert(i >= 0 && model[i].v == v, "Range callback sees a currently live entry")
		if i >= 0 {
			vpAssert(!seen[i], "Range passes no entry to the callback twice")
			seen[i] = true
		}
		if vpBool() {
			k2 := vpInt(0, n+1)
			v2 := vpInt(0, 3)
			m.Replace(k, k2, v2)
			// the model and the seen flags follow the rename
			next := vpModelReplace(model, k, k2, v2)
			nseen := make([]bool, 0, len(next))
			for j, p := range model {
				if j == i {
					nseen = append(nseen, true)
				} else if p.k != k2 {
					nseen = append(nseen, seen[j])
				}
			}
			model, seen = next, nseen
		}
		return nil
	})
	vpAssert(visits <= start, "Range never visits more entries than were live at the start")
	for j := range model {
		vpAssert(j < len(seen) && seen[j], "Range passes every surviving entry to the callback (renames in the callback do not cut the iteration short)")
	}
	vpAssert(vpRI(m), "rename-in-Range: representation invariant holds afterwards")
	vpAssert(vpEqPairs(vpAbs(m), model), "rename-in-Range: abstract state equals model")
	vpCheckObservers(m, model, vpInt(0, n+1))
}

// Bounded history through the public API only, observers after every step.
func vpH_c05_history() {
	h := vpParam("ops")
	var m *Map[int, int]
	if vpBool() {
		m = NewMap[int, int](vpInt(0, 2))
	} else {
		m = new(Map[int, int])
	}
	var model []vpPair
	for step := 0; step < h; step++ {
		op := vpInt(0, 2)
		k := vpInt(0, 2)
		v := vpInt(0, 1)
		switch op {
		case 0:
			m.Set(k, v)
			model = vpModelSet(model, k, v)
		case 1:
			k2 := vpInt(0, 2)
			m.Replace(k, k2, v)
			model = vpModelReplace(model, k, k2, v)
		default:
			m.Delete(k)
			model = vpModelDelete(model, k)
		}
		vpAssert(vpRI(m), "history: representation invariant (reachable states satisfy RI)")
		vpAssert(vpEqPairs(vpAbs(m), model), "history: abstract state equals model")
	}
	vpCheckObservers(m, model, vpInt(0, 2))
	// an independently built map with the same contents is Equal
	other := NewMap[int, int](0)
	for _, p := range model {
		other.Set(p.k, p.v)
	}
	vpAssert(Equal(m, other), "history: Equal against an independently built map")
	vpAssert(Equal(other, m), "history: Equal against an independently built map (swapped)")
}

// nil receivers and the zero value.
func vpH_c05_nil() {
	var nm *Map[int, int]
	vpAssert(nm.Len() == 0, "nil map: Len is 0")
	vpAssert(nm.IsZero(), "nil map: IsZero")
	_, ok := nm.Get(vpInt(0, 3))
	vpAssert(!ok, "nil map: Get misses")
	vpAssert(!nm.Contains(vpInt(0, 3)), "nil map: Contains is false")
	nm.Delete(vpInt(0, 3))
	calls := 0
	vpAssert(nm.Range(func(k, v int) error { calls++; return nil }) == nil && calls == 0, "nil map: Range visits nothing")
	vpAssert(nm.ToMap() == nil, "nil map: ToMap is nil")
	vpAssert(Equal(nm, nm), "nil map: Equal(nil,nil)")
	z := new(Map[int, int])
	vpAssert(!Equal(nm, z) && !Equal(z, nm), "nil map is not Equal to an empty map")
	vpAssert(z.Len() == 0 && z.IsZero(), "zero map: empty")
	_, ok = z.Get(1)
	vpAssert(!ok && !z.Contains(1), "zero map: lookups miss")
	z.Delete(1)
	vpAssert(Equal(z, NewMap[int, int](0)), "zero map Equal to NewMap")
	if vpBool() {
		z.Set(1, 2)
	} else {
		z.Replace(vpInt(0, 1), 1, 2)
	}
	vpCheckObservers(z, []vpPair{{1, 2}}, vpInt(0, 2))
	vpAssert(vpRI(z), "zero map: invariant after first insertion")
}
