//go:build verif

package ordered

// C05 through the public API only: this file touches no unexported field or
// function of the package, so it keeps compiling (and deciding) when the
// representation of Map is refactored.

func init() {
	vpRegister("c05_api_history", vpH_c05_api_history)
	vpRegister("c05_equal_nested", vpH_c05_equal_nested)
}

type vpKV2 struct{ k, v int }

func vpApiFind(l []vpKV2, k int) int {
	for i, p := range l {
		if p.k == k {
			return i
		}
	}
	return -1
}

func vpApiObservers(m *Map[int, int], want []vpKV2, probe int) {
	vpAssert(m.Len() == len(want), "api: Len agrees with model")
	vpAssert(m.IsZero() == (len(want) == 0), "api: IsZero agrees with model")
	got, ok := m.Get(probe)
	i := vpApiFind(want, probe)
	vpAssert(ok == (i >= 0) && (i < 0 || got == want[i].v), "api: Get agrees with model")
	vpAssert(m.Contains(probe) == (i >= 0), "api: Contains agrees with model")
	n := 0
	m.Range(func(k, v int) error {
		vpAssert(n < len(want) && want[n].k == k && want[n].v == v, "api: Range order and contents agree with model")
		n++
		return nil
	})
	vpAssert(n == len(want), "api: Range visits every entry once")
	tm := m.ToMap()
	vpAssert(len(tm) == len(want), "api: ToMap size agrees with model")
	for _, p := range want {
		x, has := tm[p.k]
		vpAssert(has && x == p.v, "api: ToMap contents agree with model")
	}
	other := NewMap[int, int](0)
	for _, p := range want {
		other.Set(p.k, p.v)
	}
	vpAssert(Equal(m, other) && Equal(other, m), "api: Equal against an independently built map")
	if len(want) > 0 {
		other.Set(want[0].k, want[0].v+1)
		vpAssert(!Equal(m, other), "api: Equal notices a differing value")
	}
}

func vpH_c05_api_history() {
	h := vpParam("ops")
	var m *Map[int, int]
	if vpBool() {
		m = NewMap[int, int](0)
	} else {
		m = new(Map[int, int])
	}
	var model []vpKV2
	for step := 0; step < h; step++ {
		op := vpInt(0, 2)
		k := vpInt(0, 2)
		v := vpInt(0, 1)
		switch op {
		case 0:
			m.Set(k, v)
			if i := vpApiFind(model, k); i >= 0 {
				model[i].v = v
			} else {
				model = append(model, vpKV2{k, v})
			}
		case 1:
			k2 := vpInt(0, 2)
			m.Replace(k, k2, v)
			i := vpApiFind(model, k)
			var next []vpKV2
			for j, p := range model {
				switch {
				case j == i:
					next = append(next, vpKV2{k2, v})
				case p.k == k2:
					// a colliding entry is dropped
				default:
					next = append(next, p)
				}
			}
			if i < 0 {
				next = append(next, vpKV2{k2, v})
			}
			model = next
		default:
			m.Delete(k)
			var next []vpKV2
			for _, p := range model {
				if p.k != k {
					next = append(next, p)
				}
			}
			model = next
		}
	}
	vpApiObservers(m, model, vpInt(0, 2))
}

type vpKVS struct{ k, v string }

// Equal on any-valued maps with nested ordered maps (go-cmp with the two registered comparers)
func vpH_c05_equal_nested() {
	mk := func() (*Map[string, any], []vpKVS, []vpKVS) {
		outer := NewMap[string, any](0)
		inner := NewMap[string, any](0)
		var ol, il []vpKVS
		for i := 0; i < vpInt(0, 2); i++ {
			k, v := vpStrUpTo(1, "a-b"), vpStrUpTo(1, "x-y")
			if inner.Contains(k) {
				continue
			}
			inner.Set(k, v)
			il = append(il, vpKVS{k, v})
		}
		for i := 0; i < vpInt(0, 1); i++ {
			k, v := vpStrUpTo(1, "a-b"), vpStrUpTo(1, "x-y")
			outer.Set(k, v)
			ol = append(ol, vpKVS{k, v})
		}
		if !outer.Contains("n") {
			outer.Set("n", inner)
		}
		return outer, ol, il
	}
	eq := func(a, b []vpKVS) bool {
		if len(a) != len(b) {
			return false
		}
		for i := range a {
			if a[i] != b[i] {
				return false
			}
		}
		return true
	}
	a, ao, ai := mk()
	b, bo, bi := mk()
	want := eq(ao, bo) && eq(ai, bi)
	vpAssert(Equal(a, b) == want, "Equal on nested any-valued maps is deep equality of keys, values and order")
	vpAssert(Equal(b, a) == want, "Equal on nested maps is symmetric")
}
