//go:build verif

package jwkutil

import (
	"errors"

	"github.com/lestrrat-go/jwx/v2/jwk"
)

// C18 - only approved asymmetric key/algorithm pairs pass key validation.

func init() {
	vpRegister("c18_validate", vpH_c18_validate)
	vpRegister("c18_loadkey", vpH_c18_loadkey)
}

// the property's table
func vpApproved(kty, alg string) bool {
	return (kty == "RSA" && alg == "PS512") || (kty == "EC" && alg == "ES512") || (kty == "OKP" && alg == "EdDSA")
}

func vpH_c18_validate() {
	valid, hasAlg := vpBool(), vpBool()
	algKind := vpInt(0, 2)
	algName := vpStrUpTo(vpParam("alglen"), "A-Za-z0-9")
	kty := vpStrUpTo(3, "A-Za-z")
	key := vpAbstractKey(valid, hasAlg, algKind, algName, kty, "")
	err := Validate(key)
	want := valid && hasAlg && algKind == 0 && vpApproved(kty, algName)
	if want {
		vpAssert(err == nil, "a structurally valid key with an approved (key type, algorithm) pair is accepted")
	} else {
		vpAssert(err != nil, "anything else (invalid key, missing or non-signature algorithm, other pair) is rejected")
	}
	if valid && !hasAlg {
		vpAssert(errors.Is(err, ErrKeyMissingAlg), "a missing algorithm is reported as such")
	}
	vpCleanup()
}

type vpKeySpec struct {
	kid   string
	good  bool
	index int
}

func vpH_c18_loadkey() {
	n := vpInt(0, vpParam("keys"))
	var specs []vpKeySpec
	var keys []jwk.Key
	for i := 0; i < n; i++ {
		kid := vpStrUpTo(1, "a-b")
		good := vpBool()
		alg := "EdDSA"
		if !good {
			alg = "ES512" // wrong pair for an OKP key
		}
		keys = append(keys, vpAbstractKey(true, true, 0, alg, "OKP", kid))
		specs = append(specs, vpKeySpec{kid: kid, good: good, index: i})
	}
	want := vpStrUpTo(1, "a-b")
	path := vpKeySetFile(vpAbstractSet(keys...))
	got, err := LoadKey(path, want)
	vpCleanup()

	// the rule of the property
	pick := -1
	if want == "" {
		if n == 1 {
			pick = 0
		}
	} else {
		for i, s := range specs {
			if s.kid == want {
				pick = i
				break
			}
		}
	}
	if pick < 0 || !specs[pick].good {
		vpAssert(err != nil && got == nil, "ambiguous, absent or invalid keys make loading fail")
		return
	}
	vpAssert(err == nil && got != nil, "the requested (or only) key is returned when it is valid")
	vpAssert(got.KeyID() == specs[pick].kid, "the returned key is the one with the requested id")
	if pick >= 0 && err == nil {
		a, _ := got.Get(jwk.AlgorithmKey)
		vpAssert(a != nil, "the returned key carries its algorithm")
	}
}
