//go:build verif

package jwkutil

import (
	"encoding/base64"
	"crypto"
	"errors"

	"github.com/lestrrat-go/jwx/v2/jwa"
	"github.com/lestrrat-go/jwx/v2/jwk"
)

// C18 - only approved asymmetric key/algorithm pairs pass key validation.

func init() {
	vpRegister("c18_validate", vpH_c18_validate)
	vpRegister("c18_loadkey", vpH_c18_loadkey)
	vpRegister("c18_generate", vpH_c18_generate)
	vpRegister("c18_brokenfile", vpH_c18_brokenfile)
	vpRegister("c18_reload", vpH_c18_reload)
}

// the property's table
func vpApproved(kty, alg string) bool {
	return (kty == "RSA" && alg == "PS512") || (kty == "EC" && alg == "ES512") || (kty == "OKP" && alg == "EdDSA")
}

func vpH_c18_validate() {
	valid, hasAlg := vpBool(), vpBool()
	algKind := vpInt(0, 2)
	algName := vpStrUpTo(vpParam("alglen"), "A-Za-z0-9")
	kty := vpStrUpTo(3, "A-Za-z")
	// the kind of an algorithm value follows from its name: the JOSE library
	// gives the registered signature names kind 0, the registered key-encryption
	// names kind 1, and every other name (also one that differs from a
	// registered name only in letter case) the invalid kind 2
	isSig, isKE := false, false
	for _, n := range []string{"ES256", "ES256K", "ES384", "ES512", "EdDSA", "HS256", "HS384", "HS512", "PS256", "PS384", "PS512", "RS256", "RS384", "RS512", "none"} {
		if algName == n {
			isSig = true
		}
	}
	for _, n := range []string{"A128KW", "A192KW", "A256KW", "ECDH-ES", "RSA-OAEP", "RSA1_5", "dir"} {
		if algName == n {
			isKE = true
		}
	}
	switch algKind {
	case 0:
		vpAssume(isSig)
	case 1:
		vpAssume(isKE)
	default:
		vpAssume(!isSig && !isKE)
	}
	key := vpAbstractKey(valid, hasAlg, algKind, algName, kty, "")
	err := Validate(key)
	want := valid && hasAlg && algKind == 0 && vpApproved(kty, algName)
	if want {
		vpAssert(err == nil, "a structurally valid key with an approved (key type, algorithm) pair is accepted")
	} else {
		vpAssert(err != nil, "anything else (invalid key, missing or non-signature algorithm, other pair) is rejected")
	}
	if valid && !hasAlg {
		vpAssert(errors.Is(err, ErrKeyMissingAlg), "a missing algorithm is reported as such")
	}
	vpCleanup()
}

type vpKeySpec struct {
	kid   string
	good  bool
	index int
}

func vpH_c18_loadkey() {
	n := vpInt(0, vpParam("keys"))
	var specs []vpKeySpec
	var keys []jwk.Key
	for i := 0; i < n; i++ {
		kid := vpStrUpTo(1, "a-b ")
		good := vpBool()
		alg := "EdDSA"
		if !good {
			alg = "ES512" // wrong pair for an OKP key
		}
		keys = append(keys, vpAbstractKey(true, true, 0, alg, "OKP", kid))
		specs = append(specs, vpKeySpec{kid: kid, good: good, index: i})
	}
	want := vpStrUpTo(2, "a-b ") // ids are compared exactly: a blank or padded id is another id
	if n > 0 && vpBool() {
		// an id derived from a key in the file - its RFC 7638 thumbprint, as most
		// tooling prints it - is not that key's id unless the file says so
		if tp, terr := keys[0].Thumbprint(crypto.SHA256); terr == nil {
			want = base64.RawURLEncoding.EncodeToString(tp)
		}
	}
	path := vpKeySetFile(vpAbstractSet(keys...))
	got, err := LoadKey(path, want)
	vpCleanup()

	// the rule of the property
	pick := -1
	if want == "" {
		if n == 1 {
			pick = 0
		}
	} else {
		for i, s := range specs {
			if s.kid == want {
				pick = i
				break
			}
		}
	}
	if pick < 0 || !specs[pick].good {
		vpAssert(err != nil && got == nil, "ambiguous, absent or invalid keys make loading fail")
		return
	}
	vpAssert(err == nil && got != nil, "the requested (or only) key is returned when it is valid")
	vpAssert(got.KeyID() == specs[pick].kid, "the returned key is the one with the requested id")
	if pick >= 0 && err == nil {
		a, _ := got.Get(jwk.AlgorithmKey)
		vpAssert(a != nil, "the returned key carries its algorithm")
	}
}

// the rule holds for every load in a history of loads in one process: what an
// earlier load accepted (or rejected) does not change the verdict on a later
// file, even one that holds the same key material under another declaration
func vpH_c18_reload() {
	kty := "OKP"
	okAlg := "EdDSA"
	switch vpInt(0, 2) {
	case 1:
		kty, okAlg = "EC", "ES512"
	case 2:
		kty, okAlg = "RSA", "PS512"
	}
	base := vpAbstractKey(true, true, 0, okAlg, kty, "k")
	loads := vpParam("loads")
	for i := 0; i < loads; i++ {
		hasAlg := true
		alg := okAlg
		switch vpInt(0, 5) {
		case 1:
			alg = "ES256"
		case 2:
			alg = "HS512"
		case 3:
			alg = "RS256"
		case 4:
			alg = "EdDSA"
		case 5:
			hasAlg = false
		}
		kid, want := "k", ""
		if vpBool() {
			kid, want = "j", "j"
		}
		if vpBool() {
			// a request for a key pair the library does not generate, in between: whatever it answers, it must not change what loads
			bad := "RS256"
			if i > 0 {
				bad = ""
			}
			_, _, _ = NewKeyPair("g", jwa.SignatureAlgorithm(bad))
		}
		var key jwk.Key
		if vpBool() {
			key = vpAbstractKeyLike(base, hasAlg, 0, alg, kid) // same material as before
		} else {
			key = vpAbstractKey(true, hasAlg, 0, alg, kty, kid) // fresh material
		}
		path := vpKeySetFile(vpAbstractSet(key))
		got, err := LoadKey(path, want)
		vpCleanup()
		if hasAlg && alg == okAlg {
			vpAssert(err == nil && got != nil, "an approved key loads, whatever was loaded before")
		} else {
			vpAssert(err != nil && got == nil, "a key with a missing or unapproved algorithm is rejected, whatever was loaded before")
		}
	}
}

// A key-set file may hold an entry the JOSE library cannot parse at all (a
// required member is missing). Such an entry is still an entry of the file:
// with it the file is not a singleton, and asking for its id is asking for an
// invalid key. Loading may refuse the whole file; when it does succeed, it
// returns exactly the key the rule names.
func vpH_c18_brokenfile() {
	n := vpInt(0, vpParam("keys"))
	var kids []string
	var keys []jwk.Key
	for i := 0; i < n; i++ {
		kid := vpStrUpTo(1, "a-b")
		keys = append(keys, vpAbstractKey(true, true, 0, "EdDSA", "OKP", kid))
		kids = append(kids, kid)
	}
	at := vpInt(0, n)
	bkid := vpStrUpTo(1, "a-b")
	want := vpStrUpTo(1, "a-b")
	path := vpKeySetFileBroken(vpAbstractSet(keys...), at, bkid)
	got, err := LoadKey(path, want)
	vpCleanup()

	// the entries of the file in order; -1 marks the unparseable one
	var fileKids []string
	var fileIdx []int
	for i := 0; i <= n; i++ {
		if i == at {
			fileKids = append(fileKids, bkid)
			fileIdx = append(fileIdx, -1)
		}
		if i < n {
			fileKids = append(fileKids, kids[i])
			fileIdx = append(fileIdx, i)
		}
	}
	pick := -2 // nothing picked
	if want == "" {
		if len(fileKids) == 1 {
			pick = fileIdx[0]
		}
	} else {
		for j, k := range fileKids {
			if k == want {
				pick = fileIdx[j]
				break
			}
		}
	}
	if pick < 0 {
		vpAssert(err != nil && got == nil, "a file with an unparseable entry: ambiguous, absent and invalid keys make loading fail")
		return
	}
	if err == nil {
		vpAssert(got != nil && got.KeyID() == kids[pick], "when loading succeeds, the key is the first entry of the file with the requested id")
	}
}

// Keys the library generates for the three approved algorithms validate, and
// carry the requested id (an empty id included) and the algorithm, on both
// halves of the pair - whatever order the attributes are set in. Key material
// generation itself is the cryptographic library's and is not looked into.
func vpH_c18_generate() {
	alg := []jwa.SignatureAlgorithm{jwa.PS512, jwa.ES512, jwa.EdDSA}[vpInt(0, 2)]
	id := vpStrUpTo(1, "a-b")
	priv, pub, err := NewKeyPair(id, alg)
	vpAssert(err == nil && priv != nil && pub != nil, "a key pair is generated for every approved algorithm")
	if err != nil || priv == nil || pub == nil {
		return
	}
	for _, set := range []jwk.Set{priv, pub} {
		vpAssert(set.Len() == 1, "each half is a set of one key")
		key, ok := set.Key(0)
		if !ok {
			vpAssert(ok, "the set holds a key")
			return
		}
		vpAssert(Validate(key) == nil, "a generated key validates")
		vpAssert(key.KeyID() == id, "a generated key carries the requested id")
		vpAssert(key.Algorithm().String() == alg.String(), "a generated key carries its algorithm")
	}
}
