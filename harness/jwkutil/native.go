//go:build verif

package jwkutil

import (
	"crypto/ecdsa"
	"crypto/ed25519"
	"crypto/elliptic"
	"crypto/rand"
	"crypto/rsa"
	"encoding/json"
	"os"

	"github.com/lestrrat-go/jwx/v2/jwa"
	"github.com/lestrrat-go/jwx/v2/jwk"
)

// Abstract keys and key sets. Under the engine these three functions are
// intercepted and return engine-native objects whose methods (Validate, Get,
// Algorithm, KeyType, KeyID, Len, Key, LookupKeyID) answer with the given
// (symbolic) attributes. Natively the same attributes are realised with real
// jwx keys; attribute combinations the library cannot produce abandon the replay.

var vpRSAKey *rsa.PrivateKey

// algKind: 0 signature algorithm, 1 key-encryption algorithm, 2 invalid/unknown name
func vpAbstractKey(valid, hasAlg bool, algKind int, algName, kty, kid string) jwk.Key {
	var key jwk.Key
	var err error
	switch kty {
	case "RSA":
		if !valid {
			key, err = jwk.ParseKey([]byte(`{"kty":"RSA","e":"AQAB"}`))
			break
		}
		if vpRSAKey == nil {
			vpRSAKey, _ = rsa.GenerateKey(rand.Reader, 2048)
		}
		key, err = jwk.FromRaw(vpRSAKey)
	case "EC":
		if !valid {
			key, err = jwk.ParseKey([]byte(`{"kty":"EC","crv":"P-256"}`))
			break
		}
		k, _ := ecdsa.GenerateKey(elliptic.P256(), rand.Reader)
		key, err = jwk.FromRaw(k)
	case "OKP":
		if !valid {
			key, err = jwk.ParseKey([]byte(`{"kty":"OKP","crv":"Ed25519"}`))
			break
		}
		_, k, _ := ed25519.GenerateKey(rand.Reader)
		key, err = jwk.FromRaw(k)
	case "oct":
		if !valid {
			key, err = jwk.ParseKey([]byte(`{"kty":"oct"}`))
			break
		}
		key, err = jwk.FromRaw([]byte("0123456789abcdef0123456789abcdef"))
	default:
		vpOutside("key type cannot be realised natively")
	}
	if err != nil {
		vpOutside("native key construction failed: " + err.Error())
	}
	if !valid && key.Validate() == nil {
		vpOutside("cannot realise an invalid key of this type natively")
	}
	if hasAlg {
		var realKind int
		switch jwa.KeyAlgorithmFrom(algName).(type) {
		case jwa.SignatureAlgorithm:
			realKind = 0
		case jwa.KeyEncryptionAlgorithm:
			realKind = 1
		default:
			realKind = 2
		}
		if realKind != algKind {
			vpOutside("the library never gives this algorithm name this kind")
		}
		if err := key.Set(jwk.AlgorithmKey, algName); err != nil {
			vpOutside("cannot set alg natively: " + err.Error())
		}
	}
	if kid != "" {
		key.Set(jwk.KeyIDKey, kid)
	}
	return key
}

func vpAbstractSet(keys ...jwk.Key) jwk.Set {
	s := jwk.NewSet()
	for _, k := range keys {
		if err := s.AddKey(k); err != nil {
			vpOutside("cannot add key natively: " + err.Error())
		}
	}
	return s
}

// vpKeySetFile makes LoadKey(path, ...) see this key set: natively a real
// JWKS file; under the engine os.Open/io.ReadAll/jwk.Parse are stubbed to
// return the registered set.
func vpKeySetFile(set jwk.Set) string {
	b, err := json.Marshal(set)
	if err != nil {
		vpOutside("cannot serialise the key set natively: " + err.Error())
	}
	f, err := os.CreateTemp("", "vp-jwks-*.json")
	if err != nil {
		vpOutside("cannot create temp file")
	}
	f.Write(b)
	f.Close()
	vpTempFiles = append(vpTempFiles, f.Name())
	return f.Name()
}

// vpKeySetFileBroken: like vpKeySetFile, but the file also holds, at index
// `at` of its keys, an entry the JOSE library cannot parse (an EC key without
// its y coordinate) that carries the id `kid`. A negative index adds nothing.
func vpKeySetFileBroken(set jwk.Set, at int, kid string) string {
	if at < 0 {
		return vpKeySetFile(set)
	}
	b, err := json.Marshal(set)
	if err != nil {
		vpOutside("cannot serialise the key set natively: " + err.Error())
	}
	var doc struct {
		Keys []json.RawMessage `json:"keys"`
	}
	if err := json.Unmarshal(b, &doc); err != nil {
		vpOutside("cannot re-read the key set natively: " + err.Error())
	}
	if at > len(doc.Keys) {
		at = len(doc.Keys)
	}
	entry := map[string]any{"kty": "EC", "crv": "P-521", "alg": "ES512", "x": "AA"}
	if kid != "" {
		entry["kid"] = kid
	}
	eb, _ := json.Marshal(entry)
	doc.Keys = append(doc.Keys[:at], append([]json.RawMessage{eb}, doc.Keys[at:]...)...)
	b, _ = json.Marshal(doc)
	f, err := os.CreateTemp("", "vp-jwks-*.json")
	if err != nil {
		vpOutside("cannot create temp file")
	}
	f.Write(b)
	f.Close()
	vpTempFiles = append(vpTempFiles, f.Name())
	return f.Name()
}

var vpTempFiles []string

func vpCleanup() {
	for _, f := range vpTempFiles {
		os.Remove(f)
	}
	vpTempFiles = nil
}

// vpAbstractKeyLike: a key with the same type and key material as orig (so the
// same RFC 7638 thumbprint) but its own algorithm declaration and key id.
func vpAbstractKeyLike(orig jwk.Key, hasAlg bool, algKind int, algName, kid string) jwk.Key {
	key, err := orig.Clone()
	if err != nil {
		vpOutside("cannot clone the key natively: " + err.Error())
	}
	key.Remove(jwk.AlgorithmKey)
	key.Remove(jwk.KeyIDKey)
	if hasAlg {
		var realKind int
		switch jwa.KeyAlgorithmFrom(algName).(type) {
		case jwa.SignatureAlgorithm:
			realKind = 0
		case jwa.KeyEncryptionAlgorithm:
			realKind = 1
		default:
			realKind = 2
		}
		if realKind != algKind {
			vpOutside("the library never gives this algorithm name this kind")
		}
		if err := key.Set(jwk.AlgorithmKey, algName); err != nil {
			vpOutside("cannot set alg natively: " + err.Error())
		}
	}
	if kid != "" {
		key.Set(jwk.KeyIDKey, kid)
	}
	return key
}
