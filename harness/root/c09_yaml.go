//go:build verif

package pipeline

import (
	"encoding/json"

	"github.com/buildkite/go-pipeline/ordered"
	"gopkg.in/yaml.v3"
)

// C09 / C03 / C13 - the YAML leg on the node data model: yaml.Marshal of a
// parsed object (the encoder's documented dispatch over yaml tags, omitempty /
// IsZero, inline maps, MarshalYAML methods), re-read as a node tree and parsed
// again. What is NOT covered: how yaml.v3 spells and re-types scalars in bytes.

func init() {
	vpRegister("c09_yaml_step", vpH_c09_yaml_step)
	vpRegister("c09_yaml_pipeline", vpH_c09_yaml_pipeline)
}

// vpYAMLReparsePipeline marshals p to YAML and parses the result again.
func vpYAMLReparsePipeline(p *Pipeline) (*Pipeline, error, bool) {
	b, err := yaml.Marshal(p)
	vpAssert(err == nil, "a parsed pipeline marshals to YAML")
	if err != nil {
		return nil, nil, false
	}
	var n yaml.Node
	vpAssert(yaml.Unmarshal(b, &n) == nil, "the YAML form is readable")
	p2 := new(Pipeline)
	perr := ordered.Unmarshal(&n, p2)
	return p2, perr, true
}

// vpLatticeStep draws a command step in which one part (chosen by `focus`)
// ranges over all of its shapes while the other parts are either all absent
// or all populated - the sum, not the product, of the per-part lattices.
func vpLatticeStep() *CommandStep {
	x := &CommandStep{Command: vpStrUpTo(1, "a-c")}
	focus := vpInt(0, 5)
	rich := vpBool()
	v1 := vpStr(1, "x-z")
	pick := func(part, n int) int {
		if focus == part {
			return vpInt(0, n)
		}
		if rich {
			return n
		}
		return 0
	}
	if rich {
		x.Key, x.Label = "k", "l"
	}
	switch pick(0, 2) {
	case 1:
		x.Env = map[string]string{}
	case 2:
		x.Env = map[string]string{"A": vpStrUpTo(1, "x-z"), "B": "12"}
	}
	switch pick(1, 3) {
	case 1:
		x.Plugins = Plugins{}
	case 2:
		x.Plugins = Plugins{{Source: "github.com/o/r-buildkite-plugin#v2", Config: map[string]any{}}}
	case 3:
		x.Plugins = Plugins{{Source: "p" + vpStrUpTo(1, "a-c"), Config: map[string]any{"k": vpStrUpTo(1, "x-z"), "n": 3, "l": []any{"s", true, nil}}}, {Source: "q#v1"}}
	}
	switch pick(2, 6) {
	case 1:
		x.Matrix = &Matrix{}
	case 2:
		x.Matrix = &Matrix{Setup: MatrixSetup{"": {v1, "2"}}}
	case 3:
		x.Matrix = &Matrix{Setup: MatrixSetup{"os": {v1}, "arch": {}}}
	case 4:
		x.Matrix = &Matrix{Adjustments: MatrixAdjustments{{With: MatrixAdjustmentWith{"os": v1}}}}
	case 5:
		x.Matrix = &Matrix{Setup: MatrixSetup{"os": {v1}}, Adjustments: MatrixAdjustments{{With: MatrixAdjustmentWith{"os": "w"}}}, RemainingFields: map[string]any{"zz": 1}}
	case 6:
		x.Matrix = &Matrix{Setup: MatrixSetup{"": {v1}}, Adjustments: MatrixAdjustments{{With: MatrixAdjustmentWith{"": "w"}, Skip: true}, {With: MatrixAdjustmentWith{"": v1}, Skip: "why", RemainingFields: map[string]any{"soft_fail": true}}}}
	}
	switch pick(3, 4) {
	case 1:
		x.Cache = &Cache{Disabled: true}
	case 2:
		x.Cache = &Cache{Paths: []string{v1}}
	case 3:
		x.Cache = &Cache{}
	case 4:
		x.Cache = &Cache{Paths: []string{v1, "q"}, Name: "n", Size: "20g", RemainingFields: map[string]any{"extra": []any{1}}}
	}
	if pick(4, 1) == 1 {
		x.Signature = &Signature{Algorithm: "EdDSA", SignedFields: []string{"command", "env::A"}, Value: vpStr(1, "s-t")}
	}
	if pick(5, 1) == 1 {
		x.RemainingFields = map[string]any{"xa": vpExtraValue(), "depends_on": []any{"a"}}
	}
	return x
}

func vpH_c09_yaml_step() {
	x := vpLatticeStep()
	p := &Pipeline{Steps: Steps{x}}
	p2, perr, ok := vpYAMLReparsePipeline(p)
	if !ok {
		return
	}
	vpAssert(perr == nil, "re-parsing the YAML form of a parsed command step succeeds without warning")
	vpAssert(len(p2.Steps) == 1 && vpKindOf(p2.Steps[0]) == vpKCommand, "the step is still a command step after the YAML round trip")
	if len(p2.Steps) != 1 {
		return
	}
	// both output formats carry the same data: compare through the JSON data model
	j1, e1 := json.Marshal(p)
	j2, e2 := json.Marshal(p2)
	vpAssert(e1 == nil && e2 == nil, "both pipelines marshal to JSON")
	if e1 == nil && e2 == nil {
		vpAssert(vpJEqualLoose(j1, j2), "the YAML round trip preserves the data (same JSON data model before and after, nil and empty containers identified)")
	}
}

func vpH_c09_yaml_pipeline() {
	g := vpStr(1, "a-c")
	var third Step
	kind := vpInt(0, 5)
	switch kind {
	case 0:
		third = &WaitStep{Scalar: "wait"}
	case 1:
		third = &WaitStep{Contents: map[string]any{"wait": nil, "continue_on_failure": true}}
	case 2:
		third = &InputStep{Scalar: "block"}
	case 3:
		third = &InputStep{Contents: map[string]any{"block": g, "fields": []any{map[string]any{"text": "t"}}}}
	case 4:
		third = &TriggerStep{Contents: map[string]any{"trigger": "t", "async": true}}
	case 5:
		third = &UnknownStep{Contents: vpMapOf("type", "new", "x", []any{1})}
	}
	var gname *string
	if vpBool() {
		gname = &g
	}
	grp := &GroupStep{Group: gname, Key: vpStrUpTo(1, "a-c"), Steps: Steps{&CommandStep{Command: "inner"}, &WaitStep{Scalar: "wait"}}, RemainingFields: map[string]any{"depends_on": "x"}}
	p := &Pipeline{Steps: Steps{&CommandStep{Command: "c", Label: "l"}, grp, third}, RemainingFields: map[string]any{"notify": []any{"x"}}}
	if vpBool() {
		p.Env = ordered.NewMap[string, string](2)
		p.Env.Set("Z", vpStrUpTo(1, "x-z"))
		p.Env.Set("A", "1")
	}
	p2, perr, ok := vpYAMLReparsePipeline(p)
	if !ok {
		return
	}
	if kind == 5 {
		vpAssert(perr != nil, "an unknown step is reported again on re-parse")
	} else {
		vpAssert(perr == nil, "re-parsing the YAML form succeeds without warning")
	}
	vpAssert(len(p2.Steps) == 3, "the step list keeps its length")
	if len(p2.Steps) != 3 {
		return
	}
	vpAssert(vpKindOf(p2.Steps[0]) == vpKCommand && vpKindOf(p2.Steps[1]) == vpKGroup && vpKindOf(p2.Steps[2]) == vpKindOf(third), "step kinds are the same after the YAML round trip")
	if p.Env != nil {
		vpAssert(p2.Env != nil && ordered.Equal(p.Env, p2.Env), "the env block keeps keys, values and order through YAML")
	}
	j1, e1 := json.Marshal(p)
	j2, e2 := json.Marshal(p2)
	vpAssert(e1 == nil && e2 == nil && vpJEqualLoose(j1, j2), "the YAML round trip preserves the data (same JSON data model before and after, nil and empty containers identified)")
}
