//go:build verif

package pipeline

import (
	"encoding/json"
	"regexp"
)

// Translator validation (DESIGN.md §3.5): inputs copied from the repository's
// own table tests are pushed, fully concrete, through the engine; the engine's
// interpretation of the repository code (with the library models) must give
// the results those tests expect. Natively the same harness runs the real code.

func init() {
	vpRegister("tv_fullsource", vpH_tv_fullsource)
	vpRegister("tv_matrix_transform", vpH_tv_matrix_transform)
	vpRegister("tv_validate_permutation", vpH_tv_validate_permutation)
	vpRegister("tv_jsontext", vpH_tv_jsontext)
}

func vpH_tv_fullsource() {
	tests := []struct{ source, want string }{
		{"thing", "github.com/buildkite-plugins/thing-buildkite-plugin"},
		{"thing#main", "github.com/buildkite-plugins/thing-buildkite-plugin#main"},
		{"my-org/thing", "github.com/my-org/thing-buildkite-plugin"},
		{"./.buildkite/plugins/llamas/rock", "./.buildkite/plugins/llamas/rock"},
		{`.\.buildkite\plugins\llamas\rock`, `.\.buildkite\plugins\llamas\rock`},
		{`\\\\?\C:\user\docs`, `\\\\?\C:\user\docs`},
		{"/a-plugin", "/a-plugin"},
		{"/my-org/a-plugin", "/my-org/a-plugin"},
		{"https://my-plugin.git", "https://my-plugin.git"},
		{"file:///Users/user/Desktop/my-plugin.git", "file:///Users/user/Desktop/my-plugin.git"},
		{"git@github.com:buildkite/private-buildkite-plugin.git", "git@github.com:buildkite/private-buildkite-plugin.git"},
		{"ssh://git@github.com:buildkite/private-buildkite-plugin.git", "ssh://git@github.com:buildkite/private-buildkite-plugin.git"},
		{"my:plugin", "my:plugin"},
		{"my-org/thing#v1.2.3", "github.com/my-org/thing-buildkite-plugin#v1.2.3"},
	}
	i := vpInt(0, len(tests)-1)
	p := Plugin{Source: tests[i].source}
	vpAssert(p.FullSource() == tests[i].want, "TestPluginFullSource table through the engine")
}

func vpH_tv_matrix_transform() {
	tests := []struct {
		named       bool
		input, want string
		wantErr     bool
	}{
		{false, "no matrix here", "no matrix here", false},
		{false, "here have a {{matrix}}", "here have a llama", false},
		{false, "this isn't poison. it's extract of... {{     matrix     }}!", "this isn't poison. it's extract of... llama!", false},
		{false, "one {{matrix}}, two {{ matrix}}, three {{matrix }}, floor", "one llama, two llama, three llama, floor", false},
		{true, "here have a {{matrix.animal}}", "here have a llama", false},
		{true, "this isn't {{ matrix.weapon\t}}. it's extract of... {{     matrix.animal     }}!", "this isn't poison. it's extract of... llama!", false},
		{true, "one {{matrix.animal}}, two {{ matrix.animal}}, three {{matrix.weapon }}, floor", "one llama, two llama, three poison, floor", false},
		{true, "this isn't poison. it's extract of... {{matrix.alpaca}}!", "", true},
		{false, "this isn't {{matrix.weapon}}. it's extract of... llama!", "", true},
		{true, "this isn't {{matrix}}. it's extract of... llama!", "", true},
	}
	i := vpInt(0, len(tests)-1)
	mp := MatrixPermutation{"": "llama"}
	if tests[i].named {
		mp = MatrixPermutation{"animal": "llama", "weapon": "poison"}
	}
	got, err := newMatrixInterpolator(mp).Transform(tests[i].input)
	if tests[i].wantErr {
		vpAssert(err != nil, "TestMatrixInterpolator_Errors table through the engine")
	} else {
		vpAssert(err == nil && got == tests[i].want, "TestMatrixInterpolater tables through the engine")
	}
}

func vpH_tv_validate_permutation() {
	m := &Matrix{
		Setup: MatrixSetup{"shape": {"circle", "square"}, "color": {"green", "blue"}},
		Adjustments: MatrixAdjustments{
			{With: MatrixAdjustmentWith{"shape": "triangle", "color": "green"}},
			{With: MatrixAdjustmentWith{"shape": "circle", "color": "blue"}, Skip: true},
		},
	}
	tests := []struct {
		p  MatrixPermutation
		ok bool
	}{
		{MatrixPermutation{"shape": "circle", "color": "green"}, true},
		{MatrixPermutation{"shape": "triangle", "color": "green"}, true},
		{MatrixPermutation{"shape": "circle", "color": "blue"}, false},
		{MatrixPermutation{"shape": "triangle", "color": "blue"}, false},
		{MatrixPermutation{"shape": "circle"}, false},
		{MatrixPermutation{"shape": "circle", "colour": "green"}, false},
	}
	i := vpInt(0, len(tests)-1)
	err := m.validatePermutation(tests[i].p)
	vpAssert((err == nil) == tests[i].ok, "TestMatrix_ValidatePermutation_Multiple-style table through the engine")
}

// The text encoding/json writes, as the engine renders it when code scans
// marshalled bytes with a regular expression: escapes of control characters,
// quotes, backslashes and HTML characters, sorted map keys, numbers, nesting.
func vpH_tv_jsontext() {
	cases := []struct {
		v    any
		want string
	}{
		{map[string]any{"b": []any{1, true, nil, 1.5}, "a": "x<y"}, `^\{"a":"x\\u003cy","b":\[1,true,null,1\.5\]\}$`},
		{"tab\there", `^"tab\\there"$`},
		{"nl\nq\"b\\", `^"nl\\nq\\"b\\\\"$`},
		{&CommandStep{Command: "c {{\tmatrix\t}}", Label: "&"}, `^\{"command":"c \{\{\\tmatrix\\t\}\}","label":"\\u0026"\}$`},
		{[]string{}, `^\[\]$`},
		{map[string]string{}, `^\{\}$`},
		{"\x01\x7f", `^"\\u0001\x7f"$`},
	}
	i := vpInt(0, len(cases)-1)
	b, err := json.Marshal(cases[i].v)
	vpAssert(err == nil, "marshals")
	vpAssert(regexp.MustCompile(cases[i].want).Match(b), "the engine's rendering of marshalled JSON is the text encoding/json writes")
}
