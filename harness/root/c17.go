//go:build verif

package pipeline

// C17 - plugin source canonicalisation follows the documented rules and is idempotent.

func init() {
	vpRegister("c17_fullsource", vpH_c17_fullsource)
	vpRegister("c17_dictionary", vpH_c17_dictionary)
	vpRegister("c17_history", vpH_c17_history)
}

// sources built from symbolic pieces and the code's own string constants
// (suffixes, hosts, separators found in FullSource's current SSA)
func vpH_c17_dictionary() {
	s := vpStrUpTo(2, vpSrcClass) + vpStrConst("*plugin.go")
	if vpParam("words") > 1 && vpBool() {
		s += vpStrUpTo(1, vpSrcClass) + vpStrConst("*plugin.go")
	}
	s += vpStrUpTo(2, vpSrcClass)
	vpCheckFullSource(s)
}

const vpSrcClass = "a-bB0._/\\-#:@\\\\"

// components: '/'-separated, each non-empty, not dot-only, name characters only
const vpCompRe = `[A-Za-z0-9._\-]*[A-Za-z0-9_\-][A-Za-z0-9._\-]*`
const vpCompsRe = `^` + vpCompRe + `(/` + vpCompRe + `)*$`

// vpFullSourceSpec is the documented rule set. ok=false means the source is
// outside the documented forms (outside the property). Whole-string
// predicates are used so the oracle does not fork on every byte.
func vpFullSourceSpec(s string) (want string, ok bool) {
	if s == "" {
		return "", true
	}
	if vpReMatch(`^[/.\\]`, s) {
		return s, true // POSIX / relative / Windows path
	}
	pre, ref, hasRef := s, "", false
	for i := 0; i < len(s); i++ {
		if s[i] == '#' {
			pre, ref, hasRef = s[:i], s[i+1:], true
			break
		}
	}
	if vpReMatch(`^[^/]*:`, pre) {
		return s, true // a colon in the first segment: URL with a scheme, or scp-style
	}
	if vpReMatch(`^[^/]*/[^/]*/`, pre) {
		return s, true // three or more segments
	}
	// name[#ref] or org/name[#ref]: documented forms only
	if !vpReMatch(vpCompsRe, pre) {
		return "", false
	}
	if hasRef && !vpReMatch(vpCompsRe, ref) {
		return "", false
	}
	suffix := "-buildkite-plugin"
	if hasRef {
		suffix += "#" + ref
	}
	if vpReMatch(`/`, pre) {
		return "github.com/" + pre + suffix, true
	}
	return "github.com/buildkite-plugins/" + pre + suffix, true
}

func vpH_c17_fullsource() {
	vpCheckFullSource(vpStrUpTo(vpParam("len"), vpSrcClass))
}

func vpCheckFullSource(s string) {
	want, ok := vpFullSourceSpec(s)
	vpAssume(ok)
	p := &Plugin{Source: s}
	got := p.FullSource()
	vpAssert(got == want, "FullSource follows the documented rules (bare name, org/name, paths, schemes, scp-style, 3+ segments)")
	again := (&Plugin{Source: got}).FullSource()
	vpAssert(again == got, "canonicalising an already canonical source returns it unchanged")
	vpAssert(p.Source == s, "FullSource does not modify the plugin")
	y, err := p.MarshalYAML()
	m, isMap := y.(map[string]any)
	vpAssert(err == nil && isMap && len(m) == 1, "a plugin marshals to a one-entry map")
	_, has := m[got]
	vpAssert(has, "the marshalled key is the canonical source")
}

// Canonicalisation has no memory: the answer for a source does not depend on
// which, or how many, other sources were canonicalised before it in the same
// process (the number of earlier calls is taken at and around the integer
// constants of the plugin code, and several hundred).
func vpH_c17_history() {
	n := vpBoundarySize("*plugin.go,*plugins.go", vpParam("calls"))
	probes := []string{"early", "my-org/early#v1", "github.com/o/early-buildkite-plugin#v1.0.0", "./local/early", "https://h/early.git"}
	var first []string
	for _, s := range probes {
		first = append(first, (&Plugin{Source: s}).FullSource())
	}
	for i := 0; i < n; i++ {
		name := "p" + vpItoa(i)
		switch i % 3 {
		case 1:
			name = "org" + vpItoa(i) + "/" + name + "#v" + vpItoa(i)
		case 2:
			name = "github.com/org/" + name + "-buildkite-plugin#v" + vpItoa(i)
		}
		_ = (&Plugin{Source: name}).FullSource()
	}
	for j, s := range probes {
		again := (&Plugin{Source: s}).FullSource()
		vpAssert(again == first[j], "the canonical form of a source is the same however many other sources were canonicalised in between")
		vpAssert((&Plugin{Source: again}).FullSource() == again, "canonical forms stay fixed points after many other calls")
	}
}

func vpItoa(i int) string {
	if i == 0 {
		return "0"
	}
	s := ""
	for i > 0 {
		s = string(rune('0'+i%10)) + s
		i /= 10
	}
	return s
}
