//go:build verif

package pipeline

import (
	"strings"
	"encoding/json"

	"github.com/buildkite/go-pipeline/ordered"
	"github.com/buildkite/go-pipeline/warning"
	"gopkg.in/yaml.v3"
)

// C13 (structural half) - parsing a decoded document is total and complete.
// The byte -> node front end (yaml.v3) is not part of this check.

func init() {
	vpRegister("c13_steps", vpH_c13_steps)
	vpRegister("c13_long", vpH_c13_long)
	vpRegister("c13_wide", vpH_c13_wide)
	vpRegister("c13_nulls", vpH_c13_nulls)
	vpRegister("c13_exotic_keys", vpH_c13_exotic_keys)
}

// vpWantStep describes what one input entry must become.
type vpWantStep struct {
	kind     int // vpK* ; -1 = entry makes the whole parse hard-fail
	fallback bool
	orig     any
	children []vpWantStep
}

func vpMapOf(kv ...any) *ordered.MapSA {
	m := ordered.NewMap[string, any](len(kv) / 2)
	for i := 0; i+1 < len(kv); i += 2 {
		m.Set(kv[i].(string), kv[i+1])
	}
	return m
}

// vpGenEntry draws one entry of a step sequence.
func vpGenEntry(depth int) (any, vpWantStep) {
	max := 14
	if depth > 0 {
		max = 16
	}
	switch vpInt(0, max) {
	case 14: // well-formed fields decoded first, then a malformed one: the fallback holds the entry as it was written
		m := vpMapOf("command", "c", "plugins", []any{"docker#v1", vpMapOf("ecr#v2", nil)}, "env", []any{"A=1"})
		return m, vpWantStep{kind: vpKUnknown, fallback: true, orig: m}
	case 0:
		s := "wait"
		if vpBool() {
			s = "waiter"
		}
		return s, vpWantStep{kind: vpKWait}
	case 1:
		s := "block"
		return s, vpWantStep{kind: vpKInput}
	case 2:
		s := vpStrUpTo(3-2*vpParam("short"), "a-z")
		vpAssume(vpKindByScalar(s) == vpKUnknown)
		return s, vpWantStep{kind: vpKUnknown, fallback: true, orig: s}
	case 3:
		m := vpMapOf("command", "c", "label", vpStrUpTo(1, "a-b"))
		return m, vpWantStep{kind: vpKCommand}
	case 4:
		m := vpMapOf("wait", nil, "continue_on_failure", true)
		return m, vpWantStep{kind: vpKWait}
	case 5:
		m := vpMapOf("block", "b")
		return m, vpWantStep{kind: vpKInput}
	case 6:
		m := vpMapOf("trigger", "t")
		return m, vpWantStep{kind: vpKTrigger}
	case 7:
		m := vpMapOf("command", "c", "plugins", "not-a-list")
		return m, vpWantStep{kind: vpKUnknown, fallback: true, orig: m}
	case 8:
		t := vpStrUpTo(2-vpParam("short"), "a-z")
		m := vpMapOf("type", t, "command", "c")
		vpAssume(vpKindByType(t) == vpKUnknown)
		return m, vpWantStep{kind: vpKUnknown, fallback: true, orig: m}
	case 9:
		m := vpMapOf("foo", 1)
		return m, vpWantStep{kind: vpKUnknown, fallback: true, orig: m}
	case 10:
		return 7, vpWantStep{kind: -1}
	case 11:
		return vpMapOf("type", 5), vpWantStep{kind: -1}
	case 12:
		return nil, vpWantStep{kind: -1}
	case 13: // a null primary key next to one of its aliases
		if vpBool() {
			return vpMapOf("group", nil, "label", "l", "steps", []any{}), vpWantStep{kind: vpKGroup}
		}
		return vpMapOf("command", "c", "key", nil, "id", "i", "label", nil, "name", "n"), vpWantStep{kind: vpKCommand}
	case 15: // group with children
		n := vpInt(0, 2)
		var kids []any
		w := vpWantStep{kind: vpKGroup}
		for i := 0; i < n; i++ {
			e, we := vpGenEntry(depth - 1)
			kids = append(kids, e)
			w.children = append(w.children, we)
		}
		if kids == nil {
			kids = []any{}
		}
		gm := vpMapOf("group", "g", "steps", kids)
		if vpHasHard(w.children) {
			// an entry that cannot be a step at all makes the enclosing mapping
			// step fail to decode: that step (the group) is kept verbatim
			return gm, vpWantStep{kind: vpKUnknown, fallback: true, orig: gm}
		}
		return gm, w
	default: // group with steps null / absent
		if vpBool() {
			return vpMapOf("group", nil, "steps", nil), vpWantStep{kind: vpKGroup}
		}
		return vpMapOf("group", "g"), vpWantStep{kind: vpKGroup}
	}
}

func vpHasHard(ws []vpWantStep) bool {
	for _, w := range ws {
		if w.kind < 0 || vpHasHard(w.children) {
			return true
		}
	}
	return false
}

func vpCountFallbacks(ws []vpWantStep) int {
	n := 0
	for _, w := range ws {
		if w.fallback {
			n++
		}
		n += vpCountFallbacks(w.children)
	}
	return n
}

func vpCountLeaves(err error) int {
	if w := warning.As(err); w != nil {
		if len(w.Unwrap()) == 0 {
			return 1 // a message-only warning
		}
		n := 0
		for _, e := range w.Unwrap() {
			n += vpCountLeaves(e)
		}
		return n
	}
	if err == nil {
		return 0
	}
	return 1
}

func vpCheckSteps(got Steps, want []vpWantStep) {
	vpAssert(got != nil, "a usable result has a non-nil step list (recursively in groups)")
	vpAssert(len(got) == len(want), "exactly one step per entry of the input sequence")
	for i := range want {
		if i >= len(got) {
			return
		}
		vpAssert(got[i] != nil, "no step is nil")
		vpAssert(vpKindOf(got[i]) == want[i].kind, "steps keep their order and get the expected kind")
		if want[i].fallback {
			u, ok := got[i].(*UnknownStep)
			vpAssert(ok && u.Contents == want[i].orig, "a fallback step holds the original entry verbatim")
		}
		if want[i].kind == vpKGroup {
			g, ok := got[i].(*GroupStep)
			if ok {
				vpCheckSteps(g.Steps, want[i].children)
			}
		}
	}
}

func vpH_c13_steps() {
	n := vpInt(0, vpParam("entries"))
	var seq []any
	var want []vpWantStep
	for i := 0; i < n; i++ {
		e, w := vpGenEntry(vpParam("depth"))
		seq = append(seq, e)
		want = append(want, w)
	}
	var doc any
	noSteps := false
	envBad := false
	switch vpInt(0, 6) {
	case 6: // a mapping whose env block is malformed (a list): the parse may reject the document, but if it
		// returns a usable result the steps are all there and every fallback is reported
		if seq == nil {
			seq = []any{}
		}
		envBad = true
		if vpBool() {
			doc = vpMapOf("env", []any{"A=1"}, "steps", seq)
		} else {
			doc = vpMapOf("steps", seq, "env", vpMapOf("A", []any{"x"}))
		}
	case 4: // a scalar document
		doc = vpStrUpTo(2, "a-z")
		want, noSteps = nil, false
	case 5: // an empty document
		doc = nil
		want, noSteps = nil, false
	case 0: // bare list
		if seq == nil {
			seq = []any{}
		}
		doc = seq
	case 1: // mapping with steps
		if seq == nil {
			seq = []any{}
		}
		doc = vpMapOf("env", vpMapOf("A", "1"), "steps", seq, "notify", []any{"x"})
	case 2: // steps: null
		doc = vpMapOf("steps", nil)
		want, noSteps = nil, false // `steps: null` is normalised to an empty list without a warning
	default: // steps absent
		doc = vpMapOf("env", vpMapOf("A", "1"))
		want, noSteps = nil, true
	}
	p := new(Pipeline)
	docBefore := vpSnapshot(doc)
	err := ordered.Unmarshal(doc, p)
	vpAssert(vpUnchanged(doc, docBefore), "parsing does not rewrite the document it was given (fallback steps hold their entries verbatim)")
	usable := err == nil || warning.Is(err)
	if _, isStr := doc.(string); isStr || doc == nil {
		// neither a mapping nor a list: a hard error, or a usable empty pipeline - never a panic
		if usable {
			vpAssert(p.Steps != nil && len(p.Steps) == 0, "a document that is neither mapping nor list gives at most an empty, non-nil step list")
		}
		return
	}
	if !vpHasHard(want) && !envBad {
		vpAssert(usable, "malformed or unrecognised steps never abort the parse")
	}
	if !usable {
		return
	}
	vpCheckSteps(p.Steps, want)
	nf := vpCountFallbacks(want)
	if noSteps {
		nf++
	}
	vpAssert(vpCountLeaves(err) == nf, "the warning reports each fallback exactly once (and nothing else)")
	_, yerr := yaml.Marshal(p)
	vpAssert(yerr == nil, "a usable pipeline marshals to YAML (node data model)")
	b, merr := json.Marshal(p)
	vpAssert(merr == nil, "a usable pipeline marshals to JSON")
	if merr == nil {
		sb, has := vpJGet(b, "steps")
		vpAssert(has && vpJKind(sb) == 4 && vpJLen(sb) == len(want), "the marshalled pipeline has a steps array with one element per entry")
	}
}

// Long step lists: one step per entry and one warning leaf per fallback also at
// the sizes where a threshold in the code would flip (sizes next to the integer
// constants that occur in the step-list code, read from the current SSA, and
// the bound itself). Every entry is the same small document, so the cost grows
// only linearly with the size.
func vpH_c13_long() {
	n := vpBoundarySize("*steps.go,*step_group.go,*step.go,*parser.go,*pipeline.go", vpParam("max"))
	var mk func() any
	var kind int
	fallback := false
	switch vpInt(0, 2) {
	case 0: // unknown mapping steps: each falls back with a warning
		mk = func() any { return vpMapOf("mystery", "x") }
		kind, fallback = vpKUnknown, true
	case 1: // plain command steps: no warning
		mk = func() any { return vpMapOf("command", "c") }
		kind = vpKCommand
	default: // a recognised step with a malformed field: falls back with a warning
		mk = func() any { return vpMapOf("command", "c", "plugins", "not-a-list") }
		kind, fallback = vpKUnknown, true
	}
	var seq []any
	for i := 0; i < n; i++ {
		seq = append(seq, mk())
	}
	if seq == nil {
		seq = []any{}
	}
	inGroup := vpBool()
	var doc any = seq
	if inGroup {
		doc = []any{vpMapOf("group", "g", "steps", seq)}
	}
	p := new(Pipeline)
	err := ordered.Unmarshal(doc, p)
	usable := err == nil || warning.Is(err)
	vpAssert(usable, "long lists of malformed or unrecognised steps never abort the parse")
	if !usable {
		return
	}
	steps := p.Steps
	if inGroup {
		vpAssert(len(steps) == 1, "the group is one step")
		if len(steps) != 1 {
			return
		}
		g, ok := steps[0].(*GroupStep)
		vpAssert(ok, "a group with any number of unrecognised children stays a group")
		if !ok {
			return
		}
		steps = g.Steps
	}
	vpAssert(len(steps) == n, "exactly one step per entry of the input sequence, at every list length")
	for i := range steps {
		vpAssert(steps[i] != nil && vpKindOf(steps[i]) == kind, "every step of a long list has the expected kind")
	}
	want := 0
	if fallback {
		want = n
	}
	vpAssert(vpCountLeaves(err) == want, "the warning reports each fallback exactly once, at every list length")
	b, merr := json.Marshal(p)
	vpAssert(merr == nil && vpJKind(b) == 5, "a long usable pipeline marshals to JSON")
}

// Mapping keys are arbitrary strings (quotes, backslashes, control characters,
// DEL): wherever the parser keeps a mapping verbatim - unknown steps, the env
// block, unknown fields of a step and of the pipeline - a usable result still
// marshals to JSON and to YAML.
func vpH_c13_exotic_keys() {
	class := "\\x01-\\x7f"
	k := vpStr(1, class) + vpStrUpTo(1, class)
	vpAssume(k != "steps" && k != "env")
	var doc any
	switch vpInt(0, 3) {
	case 0: // an unknown step keeps its mapping
		doc = vpMapOf("steps", []any{vpMapOf(k, "x")})
	case 1: // the env block
		doc = vpMapOf("env", vpMapOf(k, "v"), "steps", []any{vpMapOf("command", "c")})
	case 2: // an unknown field of a command step, nested
		doc = vpMapOf("steps", []any{vpMapOf("command", "c", "agents", vpMapOf(k, vpMapOf(k, 1)))})
	default: // a top-level extra
		doc = vpMapOf("steps", []any{vpMapOf("command", "c")}, "notify", []any{vpMapOf(k, "n")})
	}
	p := new(Pipeline)
	err := ordered.Unmarshal(doc, p)
	if err != nil && !warning.Is(err) {
		return
	}
	b, merr := json.Marshal(p)
	vpAssert(merr == nil && vpJKind(b) == 5, "a usable pipeline whose kept mappings have arbitrary string keys marshals to JSON")
	_, yerr := yaml.Marshal(p)
	vpAssert(yerr == nil, "a usable pipeline whose kept mappings have arbitrary string keys marshals to YAML")
}

// Strings of every width: a step (an unrecognised scalar, a command, an unknown
// mapping's value, a key) whose text has a length next to one of the integer
// constants of the code, made of one-byte characters, of two-byte characters,
// or of a three-byte character followed by one-byte ones - so that byte counts
// and character counts differ. The parse survives, and the text is kept whole.
func vpH_c13_wide() {
	n := vpBoundarySize("*step_scalar.go,*steps.go,*step.go,*step_command.go,*parser.go,*pipeline.go,*warning.go", vpParam("max"))
	var text string
	shape := vpInt(0, 2)
	switch shape {
	case 0:
		text = strings.Repeat("q", n)
	case 1: // two-byte characters (and one trailing byte when the length is odd)
		text = strings.Repeat("\u00e9", n/2) + strings.Repeat("q", n%2)
	default:
		if n >= 3 {
			text = "\u65e5" + strings.Repeat("q", n-3)
		} else {
			text = strings.Repeat("q", n)
		}
	}
	var entry any
	where := vpInt(0, 3)
	switch where {
	case 0:
		entry = "z" + text // an unrecognised scalar step
	case 1:
		entry = vpMapOf("command", text)
	case 2:
		entry = vpMapOf("mystery", text)
	default:
		entry = vpMapOf("command", "c", "x"+text, "v")
	}
	p := new(Pipeline)
	err := ordered.Unmarshal([]any{entry}, p)
	usable := err == nil || warning.Is(err)
	vpAssert(usable, "a step with long or wide text never aborts the parse")
	if !usable || len(p.Steps) != 1 {
		vpAssert(!usable || len(p.Steps) == 1, "one step")
		return
	}
	switch where {
	case 0:
		u, ok := p.Steps[0].(*UnknownStep)
		vpAssert(ok && u.Contents == any("z"+text) && warning.Is(err), "an unrecognised scalar step is kept whole, with a warning")
	case 1:
		c, ok := p.Steps[0].(*CommandStep)
		vpAssert(ok && c.Command == text, "the command text is kept whole")
	case 2:
		u, ok := p.Steps[0].(*UnknownStep)
		vpAssert(ok && warning.Is(err), "an unrecognised mapping step is kept, with a warning")
		if ok {
			m, isMap := u.Contents.(*ordered.MapSA)
			vpAssert(isMap && m.Len() == 1, "... with its contents")
		}
	default:
		c, ok := p.Steps[0].(*CommandStep)
		vpAssert(ok && len(c.RemainingFields) == 1 && c.RemainingFields["x"+text] == any("v"), "an unknown key is kept whole")
	}
}

// A null where an entry was expected (a dangling dash, `~`, JSON null) inside
// any list or mapping of a step's typed fields: the parse never panics; it
// yields a usable pipeline whose steps are all there and non-nil, or an error.
func vpH_c13_nulls() {
	m := vpMapOf("command", "c")
	group := false
	switch vpInt(0, 13) {
	case 0:
		m.Set("matrix", vpMapOf("setup", vpMapOf("os", []any{"a"}), "adjustments", []any{nil}))
	case 1:
		m.Set("matrix", vpMapOf("setup", []any{"a", nil}, "adjustments", []any{vpMapOf("with", "b"), nil}))
	case 2:
		m.Set("matrix", vpMapOf("setup", vpMapOf("os", []any{nil, "a"}, "arch", nil), "adjustments", []any{vpMapOf("with", vpMapOf("os", nil))}))
	case 3:
		m.Set("matrix", []any{nil})
	case 4:
		m.Set("plugins", []any{nil, "p#v1"})
	case 5:
		m.Set("plugins", []any{vpMapOf("p#v1", nil), vpMapOf()})
	case 6:
		m.Set("cache", vpMapOf("paths", []any{"x", nil}))
	case 7:
		m.Set("cache", []any{nil})
	case 8:
		m.Set("commands", []any{nil})
	case 9:
		m.Set("env", vpMapOf("A", nil, "B", []any{nil}))
	case 10:
		m.Set("matrix", vpMapOf("setup", nil, "adjustments", nil))
	case 11:
		m.Set("matrix", vpMapOf("adjustments", []any{vpMapOf("with", nil, "skip", nil)}))
	case 12:
		m = vpMapOf("group", nil, "steps", []any{vpMapOf("command", "k", "matrix", vpMapOf("setup", []any{"a"}, "adjustments", []any{nil}))})
		group = true
	default:
		m = vpMapOf("wait", nil, "if", nil)
	}
	p := new(Pipeline)
	err := ordered.Unmarshal(vpMapOf("steps", []any{m}), p)
	if err != nil && !warning.Is(err) {
		return // refusing the document is allowed
	}
	vpAssert(len(p.Steps) == 1 && p.Steps[0] != nil, "a usable result has its step, and the step is not nil")
	if len(p.Steps) != 1 || p.Steps[0] == nil {
		return
	}
	if g, isG := p.Steps[0].(*GroupStep); isG && group {
		for _, s := range g.Steps {
			vpAssert(s != nil, "no nil steps inside groups")
		}
	}
	_, merr := json.Marshal(p)
	vpAssert(merr == nil, "a usable pipeline marshals")
}
