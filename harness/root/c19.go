//go:build verif

package pipeline

// C19 - observers of pipeline objects do not mutate what they observe.
// (A data race needs a write: together with the SSA pass showing that no
// function stores to package-level state, read-only sharing is race-free.)

func init() {
	vpRegister("c19_obs_plugin", vpH_c19_obs_plugin)
	vpRegister("c19_obs_matrix", vpH_c19_obs_matrix)
	vpRegister("c19_obs_step", vpH_c19_obs_step)
}

func vpH_c19_obs_plugin() {
	src := vpStrUpTo(3, "a-b/#.")
	cfgKey, cfgVal := vpStrUpTo(1, "a-b"), vpStrUpTo(1, "x-y")
	var cfg any
	cfgKind := vpInt(0, 2)
	switch cfgKind {
	case 1:
		cfg = map[string]any{}
	case 2:
		cfg = map[string]any{cfgKey: cfgVal}
	}
	p := &Plugin{Source: src, Config: cfg}
	_ = p.FullSource()
	_, err := p.MarshalJSON()
	vpAssert(err == nil, "plugin marshals")
	_, _ = p.MarshalYAML()
	vpAssert(p.Source == src, "FullSource/Marshal do not rewrite the plugin source (no memoised canonical form)")
	switch cfgKind {
	case 0:
		vpAssert(p.Config == nil, "marshalling does not touch a nil config")
	case 1:
		m, ok := p.Config.(map[string]any)
		vpAssert(ok && m != nil && len(m) == 0, "marshalling does not replace an empty config")
	case 2:
		m, ok := p.Config.(map[string]any)
		vpAssert(ok && len(m) == 1 && m[cfgKey] == any(cfgVal), "marshalling does not touch the config")
	}

}

func vpH_c19_obs_matrix() {
	dim, v1, v2 := vpStrUpTo(1, "a-b"), vpStr(1, "x-z"), vpStr(1, "x-z")
	m := &Matrix{Setup: MatrixSetup{dim: {v1, v2}}}
	withAdj := vpBool()
	if withAdj {
		m.Adjustments = MatrixAdjustments{{With: MatrixAdjustmentWith{dim: v1}, Skip: vpBool()}}
	}
	perm := MatrixPermutation{dim: vpStr(1, "x-z")}
	pv := perm[dim]
	_ = m.validatePermutation(perm)
	_, err := m.MarshalJSON()
	vpAssert(err == nil, "matrix marshals")
	_, _ = m.MarshalYAML()
	_ = m.IsEmpty()
	vpAssert(len(m.Setup) == 1 && len(m.Setup[dim]) == 2 && m.Setup[dim][0] == v1 && m.Setup[dim][1] == v2, "matrix observers do not modify the setup")
	vpAssert(len(perm) == 1 && perm[dim] == pv, "validation does not modify the permutation")
	if withAdj {
		vpAssert(len(m.Adjustments) == 1 && len(m.Adjustments[0].With) == 1 && m.Adjustments[0].With[dim] == v1, "matrix observers do not modify adjustments")
	} else {
		vpAssert(m.Adjustments == nil, "matrix observers do not materialise adjustments")
	}
	vpAssert(m.RemainingFields == nil, "matrix observers do not materialise extra fields")

}

func vpH_c19_obs_step() {
	p := &Plugin{Source: vpStrUpTo(1, "a-b"), Config: map[string]any{"k": vpStrUpTo(1, "x-y")}}
	m := &Matrix{Setup: MatrixSetup{"": {"x"}}}
	if vpBool() {
		m = nil
	}
	step := &CommandStep{Command: "c", Label: vpStrUpTo(1, "a-b"), Plugins: Plugins{p}, Matrix: m, Env: map[string]string{"k": "v"}}
	_, err := step.MarshalJSON()
	vpAssert(err == nil, "command step marshals")
	vpAssert(step.Command == "c" && len(step.Plugins) == 1 && step.Plugins[0] == p && step.Matrix == m && len(step.Env) == 1 && step.Env["k"] == "v", "marshalling does not modify the step")
	vpAssert(step.RemainingFields == nil && step.Signature == nil && step.Cache == nil, "marshalling does not materialise absent fields")
}
