//go:build verif

package pipeline

import (
	"errors"
	"encoding/json"

	"github.com/buildkite/go-pipeline/internal/env"
	"github.com/buildkite/go-pipeline/ordered"
	"github.com/buildkite/go-pipeline/warning"
	"gopkg.in/yaml.v3"
)

// C19 - observers of pipeline objects do not mutate what they observe.
// (A data race needs a write: together with the SSA pass showing that no
// function stores to package-level state, read-only sharing is race-free.)

func init() {
	vpRegister("c19_obs_plugin", vpH_c19_obs_plugin)
	vpRegister("c19_obs_matrix", vpH_c19_obs_matrix)
	vpRegister("c19_obs_step", vpH_c19_obs_step)
	vpRegister("c19_disjoint", vpH_c19_disjoint)
	vpRegister("c19_warnings", vpH_c19_warnings)
	vpRegister("c19_obs_extras", vpH_c19_obs_extras)
	vpRegister("c19_calls", vpH_c19_calls)
	vpRegister("c19_warn_print", vpH_c19_warn_print)
}

func vpYStr(v string) *yaml.Node { return &yaml.Node{Kind: yaml.ScalarNode, Tag: "!!str", Value: v} }
func vpYMap(kv ...*yaml.Node) *yaml.Node {
	return &yaml.Node{Kind: yaml.MappingNode, Tag: "!!map", Content: kv}
}
func vpYSeq(items ...*yaml.Node) *yaml.Node {
	return &yaml.Node{Kind: yaml.SequenceNode, Tag: "!!seq", Content: items}
}
func vpYAnchor(name string, n *yaml.Node) *yaml.Node { n.Anchor = name; return n }
func vpYAlias(n *yaml.Node) *yaml.Node {
	return &yaml.Node{Kind: yaml.AliasNode, Alias: n, Value: n.Anchor}
}

// Distinct objects share only package-level state: two steps of one parsed
// pipeline, and two parses of one document, have no mutable memory in common -
// also when the document spells them with one anchor and several aliases - so
// working on one (here: interpolating it) cannot be seen through the other.
func vpH_c19_disjoint() {
	val := "$Q" + vpStrUpTo(1, "a-b")
	var first, second, third *yaml.Node
	shape := vpInt(0, 5)
	switch shape {
	case 0: // an unknown field (kept verbatim) spelled once, aliased once
		ag := vpYAnchor("a", vpYMap(vpYStr("queue"), vpYStr(val), vpYStr("tags"), vpYSeq(vpYStr("t"))))
		first = vpYMap(vpYStr("command"), vpYStr("c1"), vpYStr("agents"), ag)
		second = vpYMap(vpYStr("command"), vpYStr("c2"), vpYStr("agents"), vpYAlias(ag))
		third = vpYMap(vpYStr("command"), vpYStr("c3"), vpYStr("agents"), vpYAlias(ag))
	case 1: // step env
		en := vpYAnchor("a", vpYMap(vpYStr("K"), vpYStr(val)))
		first = vpYMap(vpYStr("command"), vpYStr("c1"), vpYStr("env"), en)
		second = vpYMap(vpYStr("command"), vpYStr("c2"), vpYStr("env"), vpYAlias(en))
		third = vpYMap(vpYStr("command"), vpYStr("c3"), vpYStr("env"), vpYAlias(en))
	case 2: // plugins with a config
		pl := vpYAnchor("a", vpYSeq(vpYMap(vpYStr("docker#v1"), vpYMap(vpYStr("image"), vpYStr(val), vpYStr("l"), vpYSeq(vpYStr(val))))))
		first = vpYMap(vpYStr("command"), vpYStr("c1"), vpYStr("plugins"), pl)
		second = vpYMap(vpYStr("command"), vpYStr("c2"), vpYStr("plugins"), vpYAlias(pl))
		third = vpYMap(vpYStr("command"), vpYStr("c3"), vpYStr("plugins"), vpYAlias(pl))
	case 3: // matrix
		mx := vpYAnchor("a", vpYMap(vpYStr("setup"), vpYMap(vpYStr("os"), vpYSeq(vpYStr(val))), vpYStr("adjustments"), vpYSeq(vpYMap(vpYStr("with"), vpYMap(vpYStr("os"), vpYStr("w")), vpYStr("soft_fail"), vpYSeq(vpYStr(val))))))
		first = vpYMap(vpYStr("command"), vpYStr("c1"), vpYStr("matrix"), mx)
		second = vpYMap(vpYStr("command"), vpYStr("c2"), vpYStr("matrix"), vpYAlias(mx))
		third = vpYMap(vpYStr("command"), vpYStr("c3"), vpYStr("matrix"), vpYAlias(mx))
	case 4: // a whole step
		first = vpYAnchor("a", vpYMap(vpYStr("command"), vpYStr("c1"), vpYStr("agents"), vpYMap(vpYStr("queue"), vpYStr(val)), vpYStr("env"), vpYMap(vpYStr("K"), vpYStr(val))))
		second = vpYAlias(first)
		third = vpYAlias(first)
	default: // the children of a group
		kids := vpYAnchor("a", vpYSeq(vpYMap(vpYStr("command"), vpYStr("k"), vpYStr("agents"), vpYMap(vpYStr("queue"), vpYStr(val)))))
		first = vpYMap(vpYStr("group"), vpYStr("g1"), vpYStr("steps"), kids)
		second = vpYMap(vpYStr("group"), vpYStr("g2"), vpYStr("steps"), vpYAlias(kids))
		third = vpYMap(vpYStr("group"), vpYStr("g3"), vpYStr("steps"), vpYAlias(kids))
	}
	doc := vpYMap(vpYStr("steps"), vpYSeq(first, second, third))
	p1, p2 := new(Pipeline), new(Pipeline)
	e1, e2 := ordered.Unmarshal(doc, p1), ordered.Unmarshal(doc, p2)
	vpAssert(e1 == nil && e2 == nil && len(p1.Steps) == 3 && len(p2.Steps) == 3, "the document parses to three steps, twice")
	if e1 != nil || e2 != nil || len(p1.Steps) != 3 || len(p2.Steps) != 3 {
		return
	}
	vpAssert(vpShared(p1.Steps[0], p1.Steps[1]) == 0 && vpShared(p1.Steps[0], p1.Steps[2]) == 0 && vpShared(p1.Steps[1], p1.Steps[2]) == 0, "the steps of one pipeline share no mutable memory, also when spelled with one anchor and several aliases")
	vpAssert(vpShared(p1, p2) == 0, "two parses of one document share no mutable memory")
	before, berr := json.Marshal(p2)
	b1, _ := json.Marshal(p1.Steps[1])
	// work on one object ...
	s0 := Steps{p1.Steps[2]}
	q := &Pipeline{Steps: s0}
	ierr := q.Interpolate(env.New(env.FromMap(map[string]string{"Q": "x"})), false)
	vpAssert(ierr == nil, "interpolating one step succeeds")
	// ... and look at the others
	after, aerr := json.Marshal(p2)
	a1, _ := json.Marshal(p1.Steps[1])
	vpAssert(berr == nil && aerr == nil && vpJEqual(before, after), "interpolating a step of one parse leaves the other parse unchanged")
	vpAssert(vpJEqual(b1, a1), "interpolating one step leaves its sibling unchanged")
}

func vpH_c19_obs_plugin() {
	src := vpStrUpTo(3, "a-b/#.")
	cfgKey, cfgVal := vpStrUpTo(1, "a-b"), vpStrUpTo(1, "x-y")
	var cfg any
	cfgKind := vpInt(0, 2)
	switch cfgKind {
	case 1:
		cfg = map[string]any{}
	case 2:
		cfg = map[string]any{cfgKey: cfgVal}
	}
	p := &Plugin{Source: src, Config: cfg}
	whole := vpSnapshot(p)
	_ = p.FullSource()
	_, err := p.MarshalJSON()
	vpAssert(err == nil, "plugin marshals")
	_, _ = p.MarshalYAML()
	vpAssert(p.Source == src, "FullSource/Marshal do not rewrite the plugin source (no memoised canonical form)")
	vpAssert(vpUnchanged(p, whole), "FullSource/Marshal write nothing at all into the plugin")
	switch cfgKind {
	case 0:
		vpAssert(p.Config == nil, "marshalling does not touch a nil config")
	case 1:
		m, ok := p.Config.(map[string]any)
		vpAssert(ok && m != nil && len(m) == 0, "marshalling does not replace an empty config")
	case 2:
		m, ok := p.Config.(map[string]any)
		vpAssert(ok && len(m) == 1 && m[cfgKey] == any(cfgVal), "marshalling does not touch the config")
	}

}

func vpH_c19_obs_matrix() {
	dim, v1, v2 := vpStrUpTo(1, "a-b"), vpStr(1, "x-z"), vpStr(1, "x-z")
	m := &Matrix{Setup: MatrixSetup{dim: {v1, v2}}}
	if vpBool() {
		m.Setup["nil-valued"] = nil // a dimension written without values
	}
	withAdj := vpBool()
	if withAdj {
		m.Adjustments = MatrixAdjustments{{With: MatrixAdjustmentWith{dim: v1}, Skip: vpBool()}}
	}
	perm := MatrixPermutation{dim: vpStr(1, "x-z")}
	pv := perm[dim]
	whole, wperm := vpSnapshot(m), vpSnapshot(perm)
	_ = m.validatePermutation(perm)
	_, err := m.MarshalJSON()
	vpAssert(err == nil, "matrix marshals")
	_, _ = m.MarshalYAML()
	_ = m.IsEmpty()
	vpAssert(vpUnchanged(m, whole) && vpUnchanged(perm, wperm), "matrix observers write nothing at all into the matrix or the permutation (nil value lists stay nil)")
	vpAssert(len(m.Setup[dim]) == 2 && m.Setup[dim][0] == v1 && m.Setup[dim][1] == v2, "matrix observers do not modify the setup")
	vpAssert(len(perm) == 1 && perm[dim] == pv, "validation does not modify the permutation")
	if withAdj {
		vpAssert(len(m.Adjustments) == 1 && len(m.Adjustments[0].With) == 1 && m.Adjustments[0].With[dim] == v1, "matrix observers do not modify adjustments")
	} else {
		vpAssert(m.Adjustments == nil, "matrix observers do not materialise adjustments")
	}
	vpAssert(m.RemainingFields == nil, "matrix observers do not materialise extra fields")

}

func vpH_c19_obs_step() {
	p := &Plugin{Source: vpStrUpTo(1, "a-b"), Config: map[string]any{"k": vpStrUpTo(1, "x-y")}}
	m := &Matrix{Setup: MatrixSetup{"": {"x"}}}
	if vpBool() {
		m = nil
	}
	step := &CommandStep{Command: "c", Label: vpStrUpTo(1, "a-b"), Plugins: Plugins{p}, Matrix: m, Env: map[string]string{"k": "v"}}
	whole := vpSnapshot(step)
	_, err := step.MarshalJSON()
	vpAssert(err == nil, "command step marshals")
	_, yerr := yaml.Marshal(step)
	vpAssert(yerr == nil && vpUnchanged(step, whole), "marshalling writes nothing at all into the step (plugins, matrix and env included)")
	vpAssert(step.Command == "c" && len(step.Plugins) == 1 && step.Plugins[0] == p && step.Matrix == m && len(step.Env) == 1 && step.Env["k"] == "v", "marshalling does not modify the step")
	vpAssert(step.RemainingFields == nil && step.Signature == nil && step.Cache == nil, "marshalling does not materialise absent fields")
}

// Warnings are per parse: what two parses report (also for the same kind of
// problem) shares no mutable memory, so one caller annotating or wrapping its
// warning cannot be seen by the other, and no package-level value is written.
func vpH_c19_warnings() {
	mk := func(n int) any {
		var steps []any
		for i := 0; i < n; i++ {
			switch vpInt(0, 3) {
			case 0:
				steps = append(steps, vpMapOf("llama", "Kuzco")) // kind cannot be inferred
			case 1:
				steps = append(steps, vpMapOf("type", "nope", "command", "c")) // unknown type
			case 2:
				steps = append(steps, "mystery") // unknown scalar step
			default:
				steps = append(steps, vpMapOf("command", "c", "plugins", "not-a-list")) // malformed field
			}
		}
		return vpMapOf("steps", steps)
	}
	d1, d2 := mk(vpInt(1, 2)), mk(1)
	p1, p2 := new(Pipeline), new(Pipeline)
	e1 := ordered.Unmarshal(d1, p1)
	n1 := vpCountLeaves(e1)
	e2 := ordered.Unmarshal(d2, p2)
	vpAssert(e1 != nil && e2 != nil, "each parse reports its fallbacks")
	vpAssert(vpShared(e1, e2) == 0, "the warnings of two parses share no mutable memory")
	vpAssert(vpShared(p1, p2) == 0, "the pipelines of two parses share no mutable memory")
	vpAssert(vpCountLeaves(e1) == n1 && vpCountLeaves(e2) == 1, "a later parse does not change what an earlier one reported, and reports only its own fallbacks")
}

// Marshalling objects that carry many unknown fields (their number at and
// around the integer constants of the marshalling code, and a dozen) writes
// nothing: the unknown-field maps keep exactly their entries, named fields
// stay as they are, and marshalling twice gives the same JSON.
func vpH_c19_obs_extras() {
	n := vpBoundarySize("*json.go,*step_command.go,*step_group.go,*pipeline.go,*step_command_matrix.go,*step_command_cache.go", 12)
	mk := func() map[string]any {
		m := map[string]any{}
		for i := 0; i < n; i++ {
			m["x"+string(rune('a'+i))] = i
		}
		return m
	}
	lbl := vpStrUpTo(1, "a-b")
	var target any
	var extras map[string]any
	var named func() bool
	switch vpInt(0, 4) {
	case 0:
		st := &CommandStep{Command: "c", Label: lbl, Key: "k", Env: map[string]string{"E": "v"}, RemainingFields: mk()}
		target, extras = st, st.RemainingFields
		named = func() bool { return st.Command == "c" && st.Label == lbl && st.Key == "k" && len(st.Env) == 1 }
	case 1:
		g := "g"
		st := &GroupStep{Group: &g, Key: "k", Steps: Steps{&CommandStep{Command: "c"}}, RemainingFields: mk()}
		target, extras = st, st.RemainingFields
		named = func() bool { return st.Group == &g && g == "g" && st.Key == "k" && len(st.Steps) == 1 }
	case 2:
		st := &Matrix{Setup: MatrixSetup{"os": {lbl}}, RemainingFields: mk()}
		target, extras = st, st.RemainingFields
		named = func() bool { return len(st.Setup) == 1 && len(st.Setup["os"]) == 1 && st.Adjustments == nil }
	case 3:
		st := &Cache{Paths: []string{lbl}, Name: "n", RemainingFields: mk()}
		target, extras = st, st.RemainingFields
		named = func() bool { return len(st.Paths) == 1 && st.Name == "n" && st.Size == "" && !st.Disabled }
	default:
		st := &Pipeline{Steps: Steps{&CommandStep{Command: "c"}}, RemainingFields: mk()}
		target, extras = st, st.RemainingFields
		named = func() bool { return len(st.Steps) == 1 && st.Env == nil }
	}
	b1, e1 := json.Marshal(target)
	vpAssert(e1 == nil, "an object with many unknown fields marshals to JSON")
	ok := len(extras) == n
	for i := 0; i < n; i++ {
		if v, has := extras["x"+string(rune('a'+i))]; !has || v != any(i) {
			ok = false
		}
	}
	vpAssert(ok, "marshalling leaves the unknown-field map with exactly its entries (nothing merged into it)")
	vpAssert(named(), "marshalling leaves the named fields as they are")
	b2, e2 := json.Marshal(target)
	vpAssert(e2 == nil && e1 == nil && vpJEqual(b1, b2), "marshalling twice gives the same JSON")
	_, ye := yaml.Marshal(target)
	vpAssert(ye == nil, "... and YAML marshalling afterwards still succeeds")
}

// Distinct pipelines share nothing through the library: what interpolating one
// pipeline defines (its env block) is invisible to the interpolation of
// another, whether the caller passes its own environment, a fresh one per
// call, or none at all.
func vpH_c19_calls() {
	n1, n2 := vpStr(1, "A-B"), vpStr(1, "A-B")
	v1 := vpStr(1, "x-z")
	a := &Pipeline{Env: ordered.MapFromItems(ordered.TupleSS{Key: n1, Value: v1}), Steps: Steps{&CommandStep{Command: "a $" + n1}}}
	b := &Pipeline{Steps: Steps{&CommandStep{Command: "b [$" + n2 + "]", Label: "l"}}}
	mode := vpInt(0, 2)
	var ea, eb InterpolationEnv
	switch mode {
	case 1:
		ea, eb = env.New(), env.New()
	case 2:
		ea, eb = env.New(), nil
	}
	prefer := vpBool()
	vpAssert(a.Interpolate(ea, prefer) == nil, "the first pipeline interpolates")
	vpAssert(a.Steps[0].(*CommandStep).Command == "a "+v1, "the first pipeline sees its own env block")
	vpAssert(b.Interpolate(eb, prefer) == nil, "the second pipeline interpolates")
	vpAssert(b.Steps[0].(*CommandStep).Command == "b []", "a variable that only another pipeline defined is not defined for this one")
	// and again, in the other order of objects: a third pipeline like the first
	c := &Pipeline{Env: ordered.MapFromItems(ordered.TupleSS{Key: n1, Value: "$" + n2 + "!"}), Steps: Steps{&CommandStep{Command: "c $" + n1}}}
	vpAssert(c.Interpolate(nil, prefer) == nil, "a third pipeline interpolates")
	want := "c !"
	if n1 == n2 {
		want = "c !" // the block's own name is not yet defined while its value is expanded
	}
	vpAssert(c.Steps[0].(*CommandStep).Command == want, "earlier interpolations of other pipelines leave no definitions behind")
}

// Printing a warning is an observation: after Error() (what logging it does)
// the warning identifies the same problems as before - every unknown step type
// and every failed inference - however many steps it is about (sizes next to
// the integer constants of the warning code).
func vpH_c19_warn_print() {
	n := vpBoundarySize("*warning.go,*steps.go", vpParam("max"))
	at := vpInt(0, 2) // where the one step of the other kind stands: first, last, in the middle
	var seq []any
	for i := 0; i < n; i++ {
		seq = append(seq, "mystery") // unknown scalar: ErrUnknownStepType
	}
	if n > 0 {
		pos := 0
		switch at {
		case 1:
			pos = n - 1
		case 2:
			pos = n / 2
		}
		seq[pos] = vpMapOf("llama", "x") // no kind key: ErrStepTypeInference
	}
	p := new(Pipeline)
	err := ordered.Unmarshal(vpMapOf("steps", seq), p)
	if n == 0 {
		return
	}
	vpAssert(warning.Is(err) && errors.Is(err, ErrStepTypeInference) && (n < 2 || errors.Is(err, ErrUnknownStepType)), "the warning identifies the unknown steps and the failed inference")
	before := vpSnapshot(err)
	_ = err.Error()
	vpAssert(vpUnchanged(err, before), "printing a warning leaves it as it was")
	vpAssert(errors.Is(err, ErrStepTypeInference) && (n < 2 || errors.Is(err, ErrUnknownStepType)), "a warning that was printed still identifies the same problems")
	vpAssert(len(p.Steps) == n, "all steps are there")
}
