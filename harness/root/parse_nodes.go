//go:build verif

package pipeline

import (
	"bytes"

	"github.com/buildkite/go-pipeline/ordered"
	"github.com/buildkite/go-pipeline/warning"
	"gopkg.in/yaml.v3"
)

// Parse itself, from the point where the YAML library has done its part: a
// document is given as the node tree the library's parser produces for it
// (natively the tree is written out as text and read by the real parser; under
// the engine the decoder hands over a copy of the tree). Whatever Parse does
// with the raw nodes before and after resolving them is then in scope.

func init() {
	vpRegister("c13_parse", vpH_c13_parse)
	vpRegister("c07_parse", vpH_c07_parse)
}

// vpYAMLText: the document as text (engine: the tree itself, see above).
func vpYAMLText(n *yaml.Node) []byte {
	b, err := yaml.Marshal(n)
	if err != nil {
		vpOutside("cannot write the document natively: " + err.Error())
	}
	return b
}

func vpParseNodes(doc *yaml.Node) (*Pipeline, error) {
	return Parse(bytes.NewReader(vpYAMLText(doc)))
}

// vpPGraph draws the value of an unknown step field: a mapping of two entries
// whose first key is plain or an alias of the anchored scalar `anc`, with an
// optional merge from the anchored mapping `base`. It returns the node and
// the (key, value) pairs the resolver must produce, in order.
func vpPGraph(anc, base *yaml.Node, baseKey, baseVal string) (*yaml.Node, []string, []string) {
	var keys, vals []string
	m := vpYMap()
	k1 := vpStrUpTo(1, "a-c")
	v1, v2 := vpStr(1, "x-z"), vpStr(1, "x-z")
	if vpBool() { // an alias as a mapping key stands for the anchored scalar
		m.Content = append(m.Content, vpYAlias(anc), vpYStr(v1))
		k1 = anc.Value
	} else {
		m.Content = append(m.Content, vpYStr(k1), vpYStr(v1))
	}
	k2 := vpStrUpTo(1, "a-c")
	vpAssume(k1 != k2)
	m.Content = append(m.Content, vpYStr(k2), vpYStr(v2))
	keys, vals = []string{k1, k2}, []string{v1, v2}
	switch vpInt(0, 3) { // merged keys come after the explicit ones here, and explicit keys win
	case 1:
		m.Content = append(m.Content, &yaml.Node{Kind: yaml.ScalarNode, Tag: "!!merge", Value: "<<"}, vpYAlias(base))
		if baseKey != k1 && baseKey != k2 {
			keys, vals = append(keys, baseKey), append(vals, baseVal)
		}
	case 2: // a merge sequence that also names the mapping itself: a merge cycle adds nothing and is no error
		m.Anchor = "s"
		m.Content = append(m.Content, &yaml.Node{Kind: yaml.ScalarNode, Tag: "!!merge", Value: "<<"}, vpYSeq(vpYAlias(base), vpYAlias(m)))
		if baseKey != k1 && baseKey != k2 {
			keys, vals = append(keys, baseKey), append(vals, baseVal)
		}
	case 3: // the mapping merges itself
		m.Anchor = "s"
		m.Content = append(m.Content, &yaml.Node{Kind: yaml.ScalarNode, Tag: "!!merge", Value: "<<"}, vpYAlias(m))
	}
	return m, keys, vals
}

// An unknown field of a command step holds a small mapping with an alias as a
// key, plain keys that may be spelled like the anchor's name, and a merge:
// Parse accepts the document, and the field holds what the resolver rules say.
func vpH_c07_parse() {
	ancVal := "r" + vpStrUpTo(1, "a-c")
	anc := vpYAnchor([]string{"a", "b", "c"}[vpInt(0, 2)], vpYStr(ancVal))
	baseKey, baseVal := vpStr(1, "a-d"), vpStr(1, "x-z")
	base := vpYAnchor("m", vpYMap(vpYStr(baseKey), vpYStr(baseVal)))
	g, keys, vals := vpPGraph(anc, base, baseKey, baseVal)
	step := vpYMap(vpYStr("command"), vpYStr("c"), vpYStr("agents"), g)
	doc := vpYMap(vpYStr("common"), vpYSeq(anc, base), vpYStr("steps"), vpYSeq(step))
	p, err := vpParseNodes(doc)
	vpAssert(err == nil && p != nil, "a document with an alias key, keys spelled like the anchor and a merge parses without complaint")
	if err != nil || p == nil || len(p.Steps) != 1 {
		vpAssert(err != nil || (p != nil && len(p.Steps) == 1), "one step")
		return
	}
	cs, isCmd := p.Steps[0].(*CommandStep)
	vpAssert(isCmd && cs.Command == "c", "the step is the command step that was written")
	if !isCmd {
		return
	}
	got, isMap := cs.RemainingFields["agents"].(*ordered.MapSA)
	vpAssert(isMap && got.Len() == len(keys), "the unknown field holds one entry per key the resolver rules give")
	if !isMap || got.Len() != len(keys) {
		return
	}
	i := 0
	got.Range(func(k string, v any) error {
		vpAssert(i < len(keys) && k == keys[i] && v == any(vals[i]), "keys (an alias key stands for the anchored scalar) and values in document order, merged keys after the explicit ones")
		i++
		return nil
	})
}

// vpPEntry draws one entry of a step list, as nodes; every kind drawn here is
// one a parse survives (a known or unknown scalar, a command step with or
// without an unknown field, an unrecognisable mapping).
func vpPEntry(anc *yaml.Node) (*yaml.Node, int) {
	switch vpInt(0, 5) {
	case 0:
		return vpYStr("wait"), vpKWait
	case 1:
		return vpYStr("z" + vpStrUpTo(1, "a-z")), vpKUnknown
	case 2:
		return vpYMap(vpYStr("command"), vpYStr(vpStrUpTo(1, "a-b"))), vpKCommand
	case 3:
		return vpYMap(vpYStr("command"), vpYStr("c"), vpYStr("agents"), vpYMap(vpYAlias(anc), vpYStr("v"), vpYStr(vpStrUpTo(1, "a-b")), vpYStr("w"))), vpKCommand
	case 4:
		return vpYMap(vpYStr("zzz"), vpYStr("y")), vpKUnknown
	default:
		return vpYMap(vpYStr("group"), vpYStr("g"), vpYStr("steps"), vpYSeq(vpYMap(vpYStr("command"), vpYStr("k")))), vpKGroup
	}
}

// Parse is total on documents given as node trees: every shape of document
// (mapping with steps, bare list, steps absent or null, scalar, empty) with
// entries every one of which a parse survives yields a usable pipeline with
// one step per entry, of the kind the entry has.
func vpH_c13_parse() {
	anc := vpYAnchor("a", vpYStr("r"+vpStrUpTo(1, "a-b")))
	n := vpInt(0, vpParam("entries"))
	seq := vpYSeq()
	var kinds []int
	for i := 0; i < n; i++ {
		e, k := vpPEntry(anc)
		seq.Content = append(seq.Content, e)
		kinds = append(kinds, k)
	}
	var doc *yaml.Node
	shape := vpInt(0, 4)
	wantSteps := true
	switch shape {
	case 0:
		doc = vpYMap(vpYStr("common"), anc, vpYStr("steps"), seq)
	case 1: // a bare list (the anchor is defined inside an unknown first step's field when used)
		doc = vpYSeq(append([]*yaml.Node{vpYMap(vpYStr("command"), vpYStr("first"), vpYStr("agents"), vpYMap(vpYStr("q"), anc))}, seq.Content...)...)
		kinds = append([]int{vpKCommand}, kinds...)
	case 2:
		doc = vpYMap(vpYStr("common"), anc, vpYStr("steps"), &yaml.Node{Kind: yaml.ScalarNode, Tag: "!!null", Value: "null"})
		kinds = nil
	case 3:
		doc = vpYMap(vpYStr("common"), anc, vpYStr("env"), vpYMap(vpYStr("A"), vpYStr("1")))
		kinds, wantSteps = nil, false
	default:
		doc = vpYStr(vpStrUpTo(2, "a-z"))
		kinds, wantSteps = nil, false
	}
	p, err := vpParseNodes(doc)
	usable := err == nil || warning.Is(err)
	if !wantSteps {
		// no step list at all: a hard error or a usable empty pipeline - never a panic
		if usable && p != nil {
			vpAssert(len(p.Steps) == 0, "a document without a step list gives no steps")
		}
		return
	}
	vpAssert(usable && p != nil, "entries a parse survives never abort it")
	if !usable || p == nil {
		return
	}
	vpAssert(p.Steps != nil && len(p.Steps) == len(kinds), "one step per entry of the step list")
	if len(p.Steps) != len(kinds) {
		return
	}
	unknown := 0
	for i, s := range p.Steps {
		vpAssert(vpKindOf(s) == kinds[i], "each entry becomes a step of its kind (unrecognised entries are kept as unknown steps)")
		if kinds[i] == vpKUnknown {
			unknown++
		}
	}
	vpAssert((unknown > 0) == (err != nil), "a warning is returned exactly when some entry was not recognised")
}
