//go:build verif

package pipeline

import (
	"encoding/json"

	"github.com/buildkite/go-pipeline/ordered"
)

// C03 (decode side + JSON data model) - parse then marshal yields the
// documented normal form with no data loss. Input: the generic tree that the
// YAML front end hands over; output: the JSON data model of the marshalled
// pipeline. The YAML emitter and byte-level rendering are not part of this.

func init() {
	vpRegister("c03_command", vpH_c03_command)
	vpRegister("c03_plugins", vpH_c03_plugins)
	vpRegister("c03_matrix", vpH_c03_matrix)
	vpRegister("c03_cache_env", vpH_c03_cache_env)
	vpRegister("c03_kinds", vpH_c03_kinds)
}

// vpParseOne parses a one-step pipeline document and returns the JSON of the
// marshalled pipeline's only step.
func vpParseOne(step any, bare bool) []byte {
	var doc any
	if bare {
		doc = []any{step}
	} else {
		doc = vpMapOf("steps", []any{step})
	}
	p := new(Pipeline)
	err := ordered.Unmarshal(doc, p)
	vpAssert(err == nil, "a well-formed document parses without error or warning")
	b, merr := json.Marshal(p)
	vpAssert(merr == nil, "the parsed pipeline marshals")
	vpAssert(vpJKind(b) == 5, "a pipeline marshals to an object (a bare step list becomes `steps`)")
	sb, has := vpJGet(b, "steps")
	vpAssert(has && vpJKind(sb) == 4 && vpJLen(sb) == 1, "the step list has one element")
	if vpParam("yaml") != 0 {
		vpYAMLCarriesSameData(p, b)
	}
	return vpJElem(sb, 0)
}

// vpYAMLCarriesSameData: the YAML marshalling (node data model) of the parsed
// pipeline, parsed again, marshals to the same JSON data as the pipeline
// itself - the YAML output loses, duplicates and re-types nothing either.
func vpYAMLCarriesSameData(p *Pipeline, wantJSON []byte) {
	p2, perr, ok := vpYAMLReparsePipeline(p)
	if !ok {
		return
	}
	vpAssert(perr == nil, "the YAML form of the parsed pipeline parses again without warning")
	j2, e2 := json.Marshal(p2)
	vpAssert(e2 == nil && vpJEqualLoose(wantJSON, j2), "the YAML output carries the same data as the JSON output (nil and empty containers identified)")
}

func vpJSONOf(v any) []byte {
	b, err := json.Marshal(v)
	vpAssume(err == nil)
	return b
}

// vpWantMember asserts member k of obj equals the JSON of v.
func vpWantMember(obj []byte, k string, v any, label string) {
	got, has := vpJGet(obj, k)
	vpAssert(has, label+" (present)")
	if has {
		vpAssert(vpJEqual(got, vpJSONOf(v)), label+" (value)")
	}
}

// vpExtraValue draws a nested value of every scalar kind.
func vpExtraValue() any {
	switch vpInt(0, 7) {
	case 6:
		return []any{} // an empty list stays an empty list (not null)
	case 7:
		return vpMapOf() // an empty mapping stays an empty mapping
	case 0:
		return vpStrUpTo(1, "x-z")
	case 1:
		return 42
	case 2:
		return true
	case 3:
		return nil
	case 4:
		return []any{vpStrUpTo(1, "x-z"), 7}
	}
	return vpMapOf("n", vpStrUpTo(1, "x-z"), "m", []any{1.5}, "\x07bell \x1b[31m\x7f", true) // keys are arbitrary strings
}

// the JSON form of a generic value (ordered maps as objects)
func vpGenericJSON(v any) []byte { return vpJSONOf(v) }

// ---- command step: key/id/identifier, label/name, command/commands, extras ----

func vpH_c03_command() {
	step := ordered.NewMap[string, any](0)
	want := map[string]any{}
	nwant := 0
	expect := func(k string, v any) { want[k] = v; nwant++ }

	kv, iv := vpStr(1, "a-c"), vpStr(1, "a-c")
	switch vpInt(0, 3) {
	case 1:
		step.Set("key", kv)
		expect("key", kv)
	case 2:
		step.Set("id", iv)
		expect("key", iv)
	case 3:
		step.Set("identifier", iv)
		step.Set("key", kv)
		expect("key", kv)
		expect("identifier", iv) // the alias does not override a present key: it stays as it was
	}
	lv, nv := vpStr(1, "a-c"), vpStr(1, "a-c")
	switch vpInt(0, 3) {
	case 1:
		step.Set("label", lv)
		expect("label", lv)
	case 2:
		step.Set("name", nv)
		expect("label", nv)
	case 3:
		step.Set("label", lv)
		step.Set("name", nv)
		expect("label", lv)
		expect("name", nv)
	}
	c1, c2 := vpStrUpTo(1, "a-c"), vpStrUpTo(1, "a-c")
	cmdMode := vpInt(0, vpParam("cmdmodes")-1)
	switch cmdMode {
	case 0:
		step.Set("type", "command")
		expect("type", "command")
		expect("command", "")
	case 1:
		step.Set("command", c1)
		expect("command", c1)
	case 2:
		step.Set("commands", c1)
		expect("command", c1)
	case 3, 4:
		// a list of commands: every entry is one line, also an empty, null or
		// numeric one, wherever it stands
		list, joined := []any{c1, c2}, c1+"\n"+c2
		shapes := 0
		if cmdMode == 4 {
			shapes = 3
		}
		switch vpInt(0, shapes) {
		case 1:
			list, joined = []any{c1, nil, c2}, c1+"\n\n"+c2
		case 2:
			list, joined = []any{nil, c1}, "\n"+c1
		case 3:
			list, joined = []any{c1, 2, ""}, c1+"\n2\n"
		}
		if cmdMode == 3 {
			step.Set("command", list)
		} else {
			step.Set("commands", list)
		}
		expect("command", joined)
	case 5: // both keys: nothing may be lost
		step.Set("command", c1)
		step.Set("commands", []any{c2})
	}
	nx := vpInt(0, vpParam("extras"))
	for i := 0; i < nx; i++ {
		k := "x" + vpStr(1, "a-b")
		if step.Contains(k) {
			continue
		}
		v := vpExtraValue()
		step.Set(k, v)
		expect(k, v)
	}
	obj := vpParseOne(step, vpBool())
	vpAssert(vpJKind(obj) == 5, "a command step marshals to an object")
	if cmdMode == 5 {
		got, has := vpJGet(obj, "command")
		vpAssert(has && vpJKind(got) == 3, "command is one string")
		s := vpJStr(got)
		vpAssert(s == c1+"\n"+c2 || s == c2+"\n"+c1, "with both `command` and `commands` present, neither value is dropped")
		return
	}
	for _, k := range []string{"key", "identifier", "label", "name", "type", "command"} {
		if v, ok := want[k]; ok {
			vpWantMember(obj, k, v, "normal form of "+k)
		} else {
			_, has := vpJGet(obj, k)
			vpAssert(!has, "no "+k+" member appears from nowhere")
		}
	}
	step.Range(func(k string, v any) error {
		if len(k) == 2 && k[0] == 'x' {
			vpWantMember(obj, k, v, "unknown extra key is kept unchanged")
		}
		return nil
	})
	vpAssert(vpJLen(obj) == nwant, "nothing dropped, nothing duplicated")
}

// ---- plugins: list of strings / one-key maps / one mapping; config shapes ----

func vpH_c03_plugins() {
	step := vpMapOf("command", "c")
	src1, src2 := "a"+vpStrUpTo(1, "a-cA"), "b"+vpStrUpTo(1, "a-cA")+"#v1" // letter case is part of a source
	cfgKind := vpInt(0, 8)
	var cfg any
	cv := vpStrUpTo(1, "x-z")
	switch cfgKind {
	case 4: // scalar configs are values like any other: they come out unchanged, falsy or not
		cfg = false
	case 5:
		cfg = 0
	case 6:
		cfg = ""
	case 7:
		cfg = true
	case 8:
		cfg = []any{false, 0, ""}
	case 1:
		cfg = ordered.NewMap[string, any](0) // {} -> null
	case 2:
		cfg = vpMapOf("k", cv, "n", 3, "deep", vpMapOf("z", []any{true, nil}))
	case 3:
		cfg = vpMapOf("b", 1, "a", 2) // key order inside configs is not significant
	}
	form := vpInt(0, 2)
	if form < 2 && vpBool() {
		src2 = src1 // the sequence forms may name the same plugin twice (e.g. two logins); both stay, in place
	}
	switch form {
	case 0: // list of strings and one-key maps
		step.Set("plugins", []any{src1, vpMapOf(src2, cfg)})
	case 1: // list of one-key maps
		step.Set("plugins", []any{vpMapOf(src1, nil), vpMapOf(src2, cfg)})
	case 2: // one mapping (order matters)
		step.Set("plugins", vpMapOf(src1, nil, src2, cfg))
	}
	obj := vpParseOne(step, vpBool())
	pl, has := vpJGet(obj, "plugins")
	vpAssert(has && vpJKind(pl) == 4 && vpJLen(pl) == 2, "plugins become an ordered list, one element per plugin")
	p1, p2 := vpJElem(pl, 0), vpJElem(pl, 1)
	vpAssert(vpJKind(p1) == 5 && vpJLen(p1) == 1 && vpJKind(p2) == 5 && vpJLen(p2) == 1, "each plugin is a single-entry object")
	full1 := (&Plugin{Source: src1}).FullSource()
	full2 := (&Plugin{Source: src2}).FullSource()
	vpAssert(vpJKey(p1, 0) == full1 && vpJKey(p2, 0) == full2, "plugins keep their order and are keyed by canonical source")
	vpAssert(vpJKind(vpJElem(p1, 0)) == 0, "a plugin without config has a null config")
	c2 := vpJElem(p2, 0)
	switch cfgKind {
	case 0, 1:
		vpAssert(vpJKind(c2) == 0, "an absent or empty config becomes null")
	default:
		vpAssert(vpJEqual(c2, vpJSONOf(cfg)), "a plugin config keeps all its data, at every depth")
	}
	vpAssert(vpJLen(obj) == 2, "the step has exactly command and plugins")
}

// ---- matrix shorthands ----

func vpH_c03_matrix() {
	step := vpMapOf("command", "c")
	v1, v2 := vpStr(1, "x-z"), vpStr(1, "x-z")
	kind := vpInt(0, 6)
	var wantMatrix any
	switch kind {
	case 5: // anonymous dimension plus an unknown key, no adjustments: not a simple list any more
		step.Set("matrix", vpMapOf("setup", []any{v1, 47}, "concurrency_hint", 3))
		wantMatrix = map[string]any{"setup": []any{v1, "47"}, "concurrency_hint": 3}
	case 6: // named dimension plus unknown keys of every shape
		step.Set("matrix", vpMapOf("zz", []any{true, nil}, "setup", vpMapOf("os", []any{v1}), "aa", vpMapOf("k", v2)))
		wantMatrix = map[string]any{"setup": map[string]any{"os": []any{v1}}, "zz": []any{true, nil}, "aa": map[string]any{"k": v2}}
	case 0: // simple list, scalars become strings
		step.Set("matrix", []any{v1, 47, true})
		wantMatrix = []any{v1, "47", "true"}
	case 1: // setup list (stays a simple list when nothing else is there)
		step.Set("matrix", vpMapOf("setup", []any{v1, v2}))
		wantMatrix = []any{v1, v2}
	case 2: // named dimensions
		step.Set("matrix", vpMapOf("setup", vpMapOf("os", []any{v1, 9}, "arch", []any{v2})))
		wantMatrix = map[string]any{"setup": map[string]any{"os": []any{v1, "9"}, "arch": []any{v2}}}
	case 3: // anonymous dimension with adjustments (scalar `with`) and extras
		step.Set("matrix", vpMapOf("setup", []any{v1}, "adjustments", []any{vpMapOf("with", v2, "soft_fail", true), vpMapOf("with", 5, "skip", "why")}, "zz", vpMapOf("q", 1)))
		wantMatrix = map[string]any{"setup": []any{v1}, "adjustments": []any{map[string]any{"with": v2, "soft_fail": true}, map[string]any{"with": "5", "skip": "why"}}, "zz": map[string]any{"q": 1}}
	case 4: // named dimensions with a map `with`
		step.Set("matrix", vpMapOf("setup", vpMapOf("os", []any{v1}), "adjustments", []any{vpMapOf("with", vpMapOf("os", v2), "skip", true)}))
		wantMatrix = map[string]any{"setup": map[string]any{"os": []any{v1}}, "adjustments": []any{map[string]any{"with": map[string]any{"os": v2}, "skip": true}}}
	}
	obj := vpParseOne(step, vpBool())
	vpWantMember(obj, "matrix", wantMatrix, "matrix takes its canonical shape with all its data; scalars become strings")
	vpAssert(vpJLen(obj) == 2, "the step has exactly command and matrix")
}

// ---- cache shorthands and env scalars ----

func vpH_c03_cache_env() {
	step := vpMapOf("command", "c")
	pth := vpStr(1, "x-z")
	var wantCache any
	switch vpInt(0, 5) {
	case 5: // `cache: true` is an empty settings block
		step.Set("cache", true)
		wantCache = map[string]any{}
	case 0:
		step.Set("cache", false)
		wantCache = false
	case 1:
		step.Set("cache", pth)
		wantCache = map[string]any{"paths": []any{pth}}
	case 2:
		step.Set("cache", []any{pth, 3})
		wantCache = map[string]any{"paths": []any{pth, "3"}}
	case 3:
		step.Set("cache", vpMapOf("paths", []any{pth}, "name", "n", "size", "20g", "extra", vpMapOf("k", []any{1})))
		wantCache = map[string]any{"paths": []any{pth}, "name": "n", "size": "20g", "extra": map[string]any{"k": []any{1}}}
	case 4:
		step.Set("cache", vpMapOf("paths", pth))
		wantCache = map[string]any{"paths": []any{pth}}
	}
	ev := vpStrUpTo(1, "x-z")
	step.Set("env", vpMapOf("A", ev, "B", 12, "C", true, "D", 1e21, "E", 0.00001, "F", 2.5, "G", -7))
	obj := vpParseOne(step, vpBool())
	vpWantMember(obj, "cache", wantCache, "cache takes its canonical shape with all its data")
	vpWantMember(obj, "env", map[string]any{"A": ev, "B": "12", "C": "true", "D": "1e+21", "E": "1e-05", "F": "2.5", "G": "-7"}, "env scalars become strings (floats in Go's shortest form), nothing else changes")
	vpAssert(vpJLen(obj) == 3, "the step has exactly command, cache and env")
}

// ---- the other step kinds and the pipeline level ----

func vpH_c03_kinds() {
	x := vpExtraValue()
	xv := vpStrUpTo(1, "x-z")
	var step any
	var want any
	switch vpInt(0, 10) {
	case 9: // keys of two kinds, the lower-ranked one first in the document: it is a command step, in normal form
		step = vpMapOf("trigger", xv, "commands", []any{"a", "b"}, "xa", x)
		want = map[string]any{"trigger": xv, "command": "a\nb", "xa": x}
	case 10:
		step = vpMapOf("block", xv, "wait", nil, "plugins", []any{"p#v1"})
		want = map[string]any{"block": xv, "wait": nil, "command": "", "plugins": []any{map[string]any{"github.com/buildkite-plugins/p-buildkite-plugin#v1": nil}}}
	case 0:
		step, want = "wait", "wait"
	case 1:
		step, want = "block", "block"
	case 2:
		m := vpMapOf("wait", nil, "continue_on_failure", true, "xa", x)
		step, want = m, m
	case 3:
		m := vpMapOf("block", xv, "fields", []any{vpMapOf("text", "t", "key", "k")}, "xa", x)
		step, want = m, m
	case 4:
		m := vpMapOf("trigger", xv, "build", vpMapOf("env", vpMapOf("A", 1)), "xa", x)
		step, want = m, m
	case 5:
		m := vpMapOf("type", "whatever", "xa", x)
		step, want = m, m // unknown steps are kept verbatim (with a warning)
	case 6: // group: name fills group? (label/name are aliases of group), key alias, children
		step = vpMapOf("group", xv, "id", "gid", "steps", []any{"wait", vpMapOf("command", "c")}, "xa", x)
		want = map[string]any{"group": xv, "key": "gid", "steps": []any{"wait", map[string]any{"command": "c"}}, "xa": x}
	case 7:
		step = vpMapOf("group", nil, "label", xv, "steps", []any{})
		want = map[string]any{"group": nil, "label": xv, "steps": []any{}}
	case 8:
		step = vpMapOf("input", xv)
		want = step
	}
	bare := vpBool()
	var doc any
	if bare {
		doc = []any{step}
	} else {
		doc = vpMapOf("env", vpMapOf("Z", 1, "A", "a"), "steps", []any{step}, "notify", []any{vpMapOf("email", xv)}, "agents", vpMapOf("queue", x))
	}
	p := new(Pipeline)
	err := ordered.Unmarshal(doc, p)
	_ = err // unknown steps come with a warning
	b, merr := json.Marshal(p)
	vpAssert(merr == nil, "the parsed pipeline marshals")
	sb, has := vpJGet(b, "steps")
	vpAssert(has && vpJKind(sb) == 4 && vpJLen(sb) == 1, "the step list has one element")
	vpAssert(vpJEqual(vpJElem(sb, 0), vpJSONOf(want)), "wait/input/trigger/unknown/group steps keep every key and value; scalar steps stay scalars")
	if !bare {
		vpWantMember(b, "env", map[string]any{"Z": "1", "A": "a"}, "pipeline env scalars become strings")
		eb, _ := vpJGet(b, "env")
		vpAssert(vpJLen(eb) == 2 && vpJKey(eb, 0) == "Z" && vpJKey(eb, 1) == "A", "pipeline env keeps document order")
		vpWantMember(b, "notify", []any{vpMapOf("email", xv)}, "top-level extras are kept unchanged")
		vpWantMember(b, "agents", vpMapOf("queue", x), "top-level extras are kept unchanged (2)")
		vpAssert(vpJLen(b) == 4, "pipeline: nothing dropped, nothing duplicated")
	} else {
		vpAssert(vpJLen(b) == 1, "a bare step list becomes a pipeline with only `steps`")
	}
}
