//go:build verif

package pipeline

import "github.com/buildkite/go-pipeline/ordered"

// C08 (root package part) - plugins written as one mapping keep mapping order;
// the pipeline env block keeps document order.

func init() {
	vpRegister("c08_plugins_order", vpH_c08_plugins_order)
}

func vpH_c08_plugins_order() {
	n := vpInt(0, vpParam("entries"))
	src := ordered.NewMap[string, any](0)
	var names []string
	for i := 0; i < n; i++ {
		k := vpStrUpTo(2, "a-b")
		vpAssume(!src.Contains(k))
		names = append(names, k)
		if vpBool() {
			src.Set(k, nil)
		} else {
			cfg := ordered.NewMap[string, any](0)
			cfg.Set("x", vpStrUpTo(1, "x-y"))
			src.Set(k, cfg)
		}
	}
	var ps Plugins
	vpAssert(ps.UnmarshalOrdered(src) == nil, "mapping-form plugins unmarshal")
	vpAssert(len(ps) == n, "one plugin per mapping entry")
	for i := 0; i < n && i < len(ps); i++ {
		vpAssert(ps[i] != nil && ps[i].Source == names[i], "plugins keep the order of the mapping")
	}

	// the same entries as the env block of a pipeline document
	doc := ordered.NewMap[string, any](0)
	env := ordered.NewMap[string, any](0)
	for _, k := range names {
		env.Set(k, "v"+k)
	}
	doc.Set("env", env)
	doc.Set("steps", []any{})
	p := new(Pipeline)
	err := p.UnmarshalOrdered(doc)
	vpAssert(err == nil && p.Env != nil && p.Env.Len() == n, "env block unmarshals with every entry")
	i := 0
	p.Env.Range(func(k, v string) error {
		vpAssert(i < n && k == names[i] && v == "v"+names[i], "env block keeps document order")
		i++
		return nil
	})
	b, err := p.MarshalJSON()
	vpAssert(err == nil, "pipeline marshals")
	eb, has := vpJGet(b, "env")
	vpAssert(has && vpJLen(eb) == n, "marshalled pipeline has the env block")
	for j := 0; j < n; j++ {
		vpAssert(vpJKey(eb, j) == names[j], "marshalled env block is in document order")
	}
}

func init() { vpRegister("c08_nested_unknown", vpH_c08_nested_unknown) }

// mappings nested inside unknown fields and unknown steps keep document order
func vpH_c08_nested_unknown() {
	k1, k2 := vpStrUpTo(2, "a-b"), vpStrUpTo(2, "a-b")
	vpAssume(k1 != k2)
	nested := vpMapOf(k1, "1", k2, vpMapOf("z", 1, "a", 2))
	unknownStep := vpMapOf("type", "future", "cfg", nested)
	cmd := vpMapOf("command", "c", "agents", vpMapOf(k2, "q", k1, "r"))
	doc := vpMapOf("steps", []any{unknownStep, cmd})
	p := new(Pipeline)
	_ = p.UnmarshalOrdered(doc) // unknown step: warning
	b, err := p.MarshalJSON()
	vpAssert(err == nil, "pipeline marshals")
	sb, _ := vpJGet(b, "steps")
	vpAssert(vpJLen(sb) == 2, "two steps")
	us := vpJElem(sb, 0)
	vpAssert(vpJKey(us, 0) == "type" && vpJKey(us, 1) == "cfg", "an unknown step keeps the order of its keys")
	cfg, _ := vpJGet(us, "cfg")
	vpAssert(vpJLen(cfg) == 2 && vpJKey(cfg, 0) == k1 && vpJKey(cfg, 1) == k2, "a mapping nested in an unknown step keeps document order")
	inner := vpJElem(cfg, 1)
	vpAssert(vpJKey(inner, 0) == "z" && vpJKey(inner, 1) == "a", "mappings nested deeper keep document order")
}
