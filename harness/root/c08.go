//go:build verif

package pipeline

import (
	"github.com/buildkite/go-pipeline/internal/env"
	"encoding/json"
	"github.com/buildkite/go-pipeline/warning"
	"github.com/buildkite/go-pipeline/ordered"
	"gopkg.in/yaml.v3"
)

// C08 (root package part) - plugins written as one mapping keep mapping order;
// the pipeline env block keeps document order.

func init() {
	vpRegister("c08_plugins_order", vpH_c08_plugins_order)
}

func vpH_c08_plugins_order() {
	n := vpInt(0, vpParam("entries"))
	src := ordered.NewMap[string, any](0)
	var names []string
	for i := 0; i < n; i++ {
		k := vpStrUpTo(2, "a-b")
		vpAssume(!src.Contains(k))
		names = append(names, k)
		if vpBool() {
			src.Set(k, nil)
		} else {
			cfg := ordered.NewMap[string, any](0)
			cfg.Set("x", vpStrUpTo(1, "x-y"))
			src.Set(k, cfg)
		}
	}
	var ps Plugins
	vpAssert(ps.UnmarshalOrdered(src) == nil, "mapping-form plugins unmarshal")
	vpAssert(len(ps) == n, "one plugin per mapping entry")
	for i := 0; i < n && i < len(ps); i++ {
		vpAssert(ps[i] != nil && ps[i].Source == names[i], "plugins keep the order of the mapping")
	}

	// the same entries as the env block of a pipeline document
	doc := ordered.NewMap[string, any](0)
	env := ordered.NewMap[string, any](0)
	for _, k := range names {
		env.Set(k, "v"+k)
	}
	doc.Set("env", env)
	doc.Set("steps", []any{})
	p := new(Pipeline)
	err := p.UnmarshalOrdered(doc)
	vpAssert(err == nil && p.Env != nil && p.Env.Len() == n, "env block unmarshals with every entry")
	i := 0
	p.Env.Range(func(k, v string) error {
		vpAssert(i < n && k == names[i] && v == "v"+names[i], "env block keeps document order")
		i++
		return nil
	})
	b, err := p.MarshalJSON()
	vpAssert(err == nil, "pipeline marshals")
	eb, has := vpJGet(b, "env")
	vpAssert(has && vpJLen(eb) == n, "marshalled pipeline has the env block")
	for j := 0; j < n; j++ {
		vpAssert(vpJKey(eb, j) == names[j], "marshalled env block is in document order")
	}
}

func init() { vpRegister("c08_nested_unknown", vpH_c08_nested_unknown) }

// mappings nested inside unknown fields and unknown steps keep document order
func vpH_c08_nested_unknown() {
	k1, k2 := vpStrUpTo(2, "a-b"), vpStrUpTo(2, "a-b")
	vpAssume(k1 != k2)
	nested := vpMapOf(k1, "1", k2, vpMapOf("z", 1, "a", 2))
	unknownStep := vpMapOf("type", "future", "cfg", nested)
	cmd := vpMapOf("command", "c", "agents", vpMapOf(k2, "q", k1, "r"))
	doc := vpMapOf("steps", []any{unknownStep, cmd})
	p := new(Pipeline)
	_ = p.UnmarshalOrdered(doc) // unknown step: warning
	b, err := p.MarshalJSON()
	vpAssert(err == nil, "pipeline marshals")
	sb, _ := vpJGet(b, "steps")
	vpAssert(vpJLen(sb) == 2, "two steps")
	us := vpJElem(sb, 0)
	vpAssert(vpJKey(us, 0) == "type" && vpJKey(us, 1) == "cfg", "an unknown step keeps the order of its keys")
	cfg, _ := vpJGet(us, "cfg")
	vpAssert(vpJLen(cfg) == 2 && vpJKey(cfg, 0) == k1 && vpJKey(cfg, 1) == k2, "a mapping nested in an unknown step keeps document order")
	inner := vpJElem(cfg, 1)
	vpAssert(vpJKey(inner, 0) == "z" && vpJKey(inner, 1) == "a", "mappings nested deeper keep document order")
}

func init() { vpRegister("c08_yaml_order", vpH_c08_yaml_order) }

// vpYAMLFind returns the value node of key k in mapping node m (first occurrence) and its position.
func vpYAMLFind(m *yaml.Node, k string) (*yaml.Node, int) {
	for i := 0; i+1 < len(m.Content); i += 2 {
		if m.Content[i].Value == k {
			return m.Content[i+1], i / 2
		}
	}
	return nil, -1
}

// document order through the YAML output (node data model): env block and
// mappings nested in unknown steps
func vpH_c08_yaml_order() {
	k1, k2, k3 := vpStrUpTo(2, "a-c"), vpStrUpTo(2, "a-c"), vpStrUpTo(2, "a-c")
	vpAssume(k1 != k2 && k1 != k3 && k2 != k3)
	env := vpMapOf(k1, "1", k2, "2", k3, "3")
	unknown := vpMapOf("type", "future", "cfg", vpMapOf(k3, "x", k1, vpMapOf("z", 1, "a", 2), k2, "y"))
	doc := vpMapOf("env", env, "steps", []any{unknown})
	p := new(Pipeline)
	_ = p.UnmarshalOrdered(doc)
	b, err := yaml.Marshal(p)
	vpAssert(err == nil, "the pipeline marshals to YAML")
	if err != nil {
		return
	}
	var n yaml.Node
	vpAssert(yaml.Unmarshal(b, &n) == nil && n.Kind == yaml.DocumentNode && len(n.Content) == 1, "the YAML form is one document")
	root := n.Content[0]
	envNode, _ := vpYAMLFind(root, "env")
	vpAssert(envNode != nil && envNode.Kind == yaml.MappingNode && len(envNode.Content) == 6, "the env block is emitted as a mapping with every entry")
	if envNode != nil && len(envNode.Content) == 6 {
		vpAssert(envNode.Content[0].Value == k1 && envNode.Content[2].Value == k2 && envNode.Content[4].Value == k3, "YAML output keeps the env block in document order")
	}
	steps, _ := vpYAMLFind(root, "steps")
	vpAssert(steps != nil && steps.Kind == yaml.SequenceNode && len(steps.Content) == 1, "one step")
	if steps == nil || len(steps.Content) != 1 {
		return
	}
	cfg, _ := vpYAMLFind(steps.Content[0], "cfg")
	vpAssert(cfg != nil && len(cfg.Content) == 6, "the nested mapping is emitted with every entry")
	if cfg != nil && len(cfg.Content) == 6 {
		vpAssert(cfg.Content[0].Value == k3 && cfg.Content[2].Value == k1 && cfg.Content[4].Value == k2, "YAML output keeps mappings nested in unknown steps in document order")
		inner := cfg.Content[3]
		vpAssert(inner.Kind == yaml.MappingNode && len(inner.Content) == 4 && inner.Content[0].Value == "z" && inner.Content[2].Value == "a", "YAML output keeps deeper nested mappings in document order")
	}
}

func init() { vpRegister("c08_fallback", vpH_c08_fallback) }

// A step that looks like a command step or a group but has an ill-typed field
// is kept verbatim as an unknown step: whatever the typed decoding did before
// it gave up, the mapping - and every mapping nested in it - comes out in
// document order. The keys stand in any order, so the ill-typed field is
// reached before or after the others.
func vpH_c08_fallback() {
	c1 := vpStrUpTo(1, "a-b")
	var cmdKey string
	var cmdVal any
	switch vpInt(0, 2) {
	case 0:
		cmdKey, cmdVal = "command", c1
	case 1:
		cmdKey, cmdVal = "commands", []any{c1, "d"}
	default:
		cmdKey, cmdVal = "command", []any{c1, "d"}
	}
	matrix := vpMapOf("setup", []any{"m"}, "zeta", 1, "adjustments", []any{vpMapOf("with", "w", "soft_fail", true, "aa", 1)}, "alpha", 2)
	badKey, badVal := "cache", any(42)
	group := vpBool()
	if vpBool() {
		badKey, badVal = "plugins", 42
	}
	keys := []string{cmdKey, "matrix", "label", badKey}
	vals := []any{cmdVal, matrix, "l", badVal}
	if group { // a group whose children hold a nested group with extra keys, then an entry no step can be
		keys = []string{"group", "steps", "label", "zz"}
		vals = []any{"g", []any{vpMapOf("group", "in", "zeta", 1, "steps", []any{vpMapOf("command", "k", "yy", 1, "label", "x")}, "alpha", 2), 42}, "l", 1}
	}
	// any order of the four keys
	perm := []int{0, 1, 2, 3}
	for i := 0; i < 3; i++ {
		j := vpInt(i, 3)
		perm[i], perm[j] = perm[j], perm[i]
	}
	step := ordered.NewMap[string, any](4)
	for _, i := range perm {
		step.Set(keys[i], vals[i])
	}
	doc := vpMapOf("steps", []any{step})
	p := new(Pipeline)
	err := p.UnmarshalOrdered(doc)
	if err != nil && !warning.Is(err) {
		return // a hard failure is allowed; order is about what is kept
	}
	if len(p.Steps) != 1 {
		return
	}
	if _, isUnknown := p.Steps[0].(*UnknownStep); !isUnknown {
		return
	}
	b, merr := p.MarshalJSON()
	vpAssert(merr == nil, "the pipeline marshals")
	sb, _ := vpJGet(b, "steps")
	us := vpJElem(sb, 0)
	vpAssert(vpJKind(us) == 5 && vpJLen(us) == 4, "the unknown step holds the four keys that were written")
	for n, i := range perm {
		vpAssert(vpJKey(us, n) == keys[i], "a step kept verbatim after a failed typed decoding has its keys in document order")
	}
	if group {
		kids, _ := vpJGet(us, "steps")
		in := vpJElem(kids, 0)
		vpAssert(vpJLen(in) == 4 && vpJKey(in, 0) == "group" && vpJKey(in, 1) == "zeta" && vpJKey(in, 2) == "steps" && vpJKey(in, 3) == "alpha", "a nested group inside it keeps document order")
		gk, _ := vpJGet(in, "steps")
		leaf := vpJElem(gk, 0)
		vpAssert(vpJLen(leaf) == 3 && vpJKey(leaf, 0) == "command" && vpJKey(leaf, 1) == "yy" && vpJKey(leaf, 2) == "label", "... and so does a step nested in that")
		return
	}
	mb, _ := vpJGet(us, "matrix")
	vpAssert(vpJLen(mb) == 4 && vpJKey(mb, 0) == "setup" && vpJKey(mb, 1) == "zeta" && vpJKey(mb, 2) == "adjustments" && vpJKey(mb, 3) == "alpha", "a mapping nested in it (decoded into a typed field before the failure) keeps document order")
	ab, _ := vpJGet(mb, "adjustments")
	a0 := vpJElem(ab, 0)
	vpAssert(vpJLen(a0) == 3 && vpJKey(a0, 0) == "with" && vpJKey(a0, 1) == "soft_fail" && vpJKey(a0, 2) == "aa", "... at every depth")
}

func init() { vpRegister("c08_interp_order", vpH_c08_interp_order) }

// Interpolation rewrites keys in place: a mapping nested in an unknown field
// keeps its document order when some of its keys are renamed by env
// interpolation or by matrix interpolation - renamed keys first, in the
// middle or last, next to keys that stay as they are.
func vpH_c08_interp_order() {
	v := vpStr(1, "x-z")
	matrixLeg := vpBool()
	tok := "$A"
	if matrixLeg {
		tok = "{{matrix}}"
	}
	// which of the four keys carry a token
	var keys, want []string
	for i, base := range []string{"k", "p", "m", "l"} {
		if vpBool() {
			keys, want = append(keys, base+tok), append(want, base+v)
		} else {
			keys, want = append(keys, base), append(want, base)
		}
		_ = i
	}
	om := vpMapOf(keys[0], "1", keys[1], tok, keys[2], vpMapOf("in"+tok, "2", "z", "3"), keys[3], "4")
	step := &CommandStep{Command: "c", RemainingFields: map[string]any{"agents": om}}
	if matrixLeg {
		step.Matrix = &Matrix{Setup: MatrixSetup{"": {v}}}
		vpAssert(step.InterpolateMatrixPermutation(MatrixPermutation{"": v}) == nil, "the permutation applies")
	} else {
		p := &Pipeline{Steps: Steps{step}}
		vpAssert(p.Interpolate(env.New(env.FromMap(map[string]string{"A": v})), false) == nil, "the pipeline interpolates")
	}
	b, err := json.Marshal(step)
	vpAssert(err == nil, "the step marshals")
	ab, has := vpJGet(b, "agents")
	vpAssert(has && vpJLen(ab) == 4, "the nested mapping keeps its four entries")
	if !has || vpJLen(ab) != 4 {
		return
	}
	for i := range want {
		vpAssert(vpJKey(ab, i) == want[i], "a nested mapping keeps document order through interpolation, whichever of its keys are renamed")
	}
	in := vpJElem(ab, 2)
	vpAssert(vpJLen(in) == 2 && vpJKey(in, 0) == "in"+v && vpJKey(in, 1) == "z", "... at every depth")
}
