//go:build verif

package pipeline

import (
	"errors"

	"github.com/buildkite/interpolate"
)

// Go-written models of library functions. Under the engine, calls to the
// library function are redirected to the model (HSpec.Models); natively the
// real library runs, and TestVpReplay's model validation compares the two
// exhaustively over short strings before any check trusts the model.

func vpIsLetter(c byte) bool { return (c >= 'a' && c <= 'z') || (c >= 'A' && c <= 'Z') }
func vpIsIdent(c byte) bool  { return vpIsLetter(c) || (c >= '0' && c <= '9') || c == '_' }

var vpErrInterp = errors.New("interpolate: parse error")

// vpModelInterpolate models github.com/buildkite/interpolate.Interpolate on
// the sub-grammar without ${NAME<op>...} brace operations (those inputs are
// outside the model): text, `\\`, `\$` and `$$` (-> "$", following text
// re-scanned as text), `$(`, a `$` before a non-letter or at the end
// (literal), `$NAME` and `${NAME}` (-> env.Get). ASCII only.
func vpModelInterpolate(env interpolate.Env, s string) (string, error) {
	out := ""
	i := 0
	for i < len(s) {
		c := s[i]
		if c >= 128 {
			vpOutside("non-ASCII byte in interpolated string")
		}
		if c == '\\' && i+1 < len(s) && s[i+1] == '\\' {
			out += s[i : i+2]
			i += 2
			continue
		}
		if (c == '\\' || c == '$') && i+1 < len(s) && s[i+1] == '$' {
			out += "$"
			i += 2
			continue
		}
		if c == '$' && i+1 < len(s) && s[i+1] == '(' {
			out += "$("
			i += 2
			continue
		}
		if c == '$' && i < len(s)-1 {
			i++
			d := s[i]
			if d == '{' {
				i++
				if i >= len(s) || !vpIsLetter(s[i]) {
					return "", vpErrInterp
				}
				j := i
				for j < len(s) && vpIsIdent(s[j]) {
					j++
				}
				name := s[i:j]
				if j < len(s) && s[j] == '}' {
					v := ""
					if env != nil {
						v, _ = env.Get(name)
					}
					out += v
					i = j + 1
					continue
				}
				if j < len(s) && (s[j] == ':' || s[j] == '?' || s[j] == '-') {
					vpOutside("${NAME<op>...} brace operation")
				}
				return "", vpErrInterp
			}
			if !vpIsLetter(d) {
				out += "$"
				continue
			}
			j := i
			for j < len(s) && vpIsIdent(s[j]) {
				j++
			}
			v := ""
			if env != nil {
				v, _ = env.Get(s[i:j])
			}
			out += v
			i = j
			continue
		}
		out += s[i : i+1]
		i++
	}
	return out, nil
}

// ---- native validation of the models ----

type vpMapEnv map[string]string

func (m vpMapEnv) Get(k string) (string, bool) { v, ok := m[k]; return v, ok }

func vpEachString(alphabet string, maxLen int, f func(string)) {
	var rec func(prefix []byte)
	rec = func(prefix []byte) {
		f(string(prefix))
		if len(prefix) == maxLen {
			return
		}
		for i := 0; i < len(alphabet); i++ {
			rec(append(prefix, alphabet[i]))
		}
	}
	rec(nil)
}

func init() {
	vpRegisterModelCheck("interpolate", func() (cases, outside, mism int, first string) {
		env := vpMapEnv{"A": "x", "B": "", "a": "$B", "A1": "one", "A_": "u"}
		vpEachString("$\\{}ABa_1(x", 6, func(s string) {
			var got string
			var gerr error
			if !vpTryModel(func() { got, gerr = vpModelInterpolate(env, s) }) {
				outside++
				return
			}
			want, werr := interpolate.Interpolate(env, s)
			cases++
			if (gerr != nil) != (werr != nil) || (werr == nil && got != want) {
				mism++
				if first == "" {
					first = s
				}
			}
		})
		return
	})
}
