//go:build verif

package pipeline

import (
	"errors"
	"math/rand"
	"net/url"
	"path"

	"github.com/buildkite/interpolate"
)

// Go-written models of library functions. Under the engine, calls to the
// library function are redirected to the model (HSpec.Models); natively the
// real library runs, and TestVpReplay's model validation compares the two
// exhaustively over short strings before any check trusts the model.

func vpIsLetter(c byte) bool { return (c >= 'a' && c <= 'z') || (c >= 'A' && c <= 'Z') }
func vpIsIdent(c byte) bool  { return vpIsLetter(c) || (c >= '0' && c <= '9') || c == '_' }

var vpErrInterp = errors.New("interpolate: parse error")

// vpModelInterpolate models github.com/buildkite/interpolate.Interpolate on
// the sub-grammar without ${NAME<op>...} brace operations (those inputs are
// outside the model): text, `\\`, `\$` and `$$` (-> "$", following text
// re-scanned as text), `$(`, a `$` before a non-letter or at the end
// (literal), `$NAME` and `${NAME}` (-> env.Get). ASCII only.
func vpModelInterpolate(env interpolate.Env, s string) (string, error) {
	out := ""
	i := 0
	for i < len(s) {
		c := s[i]
		if c >= 128 {
			vpOutside("non-ASCII byte in interpolated string")
		}
		if c == '\\' && i+1 < len(s) && s[i+1] == '\\' {
			out += s[i : i+2]
			i += 2
			continue
		}
		if (c == '\\' || c == '$') && i+1 < len(s) && s[i+1] == '$' {
			out += "$"
			i += 2
			continue
		}
		if c == '$' && i+1 < len(s) && s[i+1] == '(' {
			out += "$("
			i += 2
			continue
		}
		if c == '$' && i < len(s)-1 {
			i++
			d := s[i]
			if d == '{' {
				i++
				if i >= len(s) || !vpIsLetter(s[i]) {
					return "", vpErrInterp
				}
				j := i
				for j < len(s) && vpIsIdent(s[j]) {
					j++
				}
				name := s[i:j]
				if j < len(s) && s[j] == '}' {
					v := ""
					if env != nil {
						v, _ = env.Get(name)
					}
					out += v
					i = j + 1
					continue
				}
				if j < len(s) && (s[j] == ':' || s[j] == '?' || s[j] == '-') {
					vpOutside("${NAME<op>...} brace operation")
				}
				return "", vpErrInterp
			}
			if !vpIsLetter(d) {
				out += "$"
				continue
			}
			j := i
			for j < len(s) && vpIsIdent(s[j]) {
				j++
			}
			v := ""
			if env != nil {
				v, _ = env.Get(s[i:j])
			}
			out += v
			i = j
			continue
		}
		out += s[i : i+1]
		i++
	}
	return out, nil
}

var vpErrURL = errors.New("url: parse error")

func vpURLAlphabet(c byte) bool {
	return (c >= 'a' && c <= 'z') || (c >= 'A' && c <= 'Z') || (c >= '0' && c <= '9') ||
		c == '.' || c == '_' || c == '/' || c == '#' || c == ':' || c == '@' || c == '\\' || c == '+' || c == '-'
}

// vpModelURLParse models net/url.Parse for strings over
// [A-Za-z0-9._/#:@\\+-] that do not start with '/': fragment split at the
// first '#', scheme iff ^[A-Za-z][A-Za-z0-9+.-]*: , error for a leading ':'
// and for a colon in the first path segment, Path and Fragment verbatim
// otherwise. With a scheme the model only promises "error, or a URL whose
// Scheme is non-empty" (authority/opaque parsing is not modelled).
func vpModelURLParse(raw string) (*url.URL, error) {
	if !vpReMatch(`^[A-Za-z0-9._/#:@\\\\+\\-]*$`, raw) {
		vpOutside("url.Parse model: byte outside the modelled alphabet")
	}
	if len(raw) > 0 && raw[0] == '/' {
		vpOutside("url.Parse model: leading slash")
	}
	u, frag := raw, ""
	for i := 0; i < len(raw); i++ {
		if raw[i] == '#' {
			u, frag = raw[:i], raw[i+1:]
			break
		}
	}
	// getScheme (whole-string predicates keep the symbolic execution from
	// forking on every byte)
	if len(u) > 0 && u[0] == ':' {
		return nil, vpErrURL // missing protocol scheme
	}
	if vpReMatch(`^[A-Za-z][A-Za-z0-9+.\-]*:`, u) {
		for i := 0; i < len(u); i++ {
			if u[i] == ':' {
				return &url.URL{Scheme: u[:i]}, nil // see contract above
			}
		}
	}
	// first path segment must not contain a colon
	if vpReMatch(`^[^/]*:`, u) {
		return nil, vpErrURL
	}
	return &url.URL{Path: u, Fragment: frag}, nil
}

// vpModelPathJoin models path.Join: the non-empty elements joined by "/",
// exact when that string is already clean (no empty, "." or ".." segment, not
// rooted); anything else is outside the model.
func vpModelPathJoin(elems ...string) string {
	joined := ""
	for _, e := range elems {
		if e == "" {
			continue
		}
		if joined != "" {
			joined += "/"
		}
		joined += e
	}
	if joined == "" {
		return ""
	}
	start := 0
	for i := 0; i <= len(joined); i++ {
		if i == len(joined) || joined[i] == '/' {
			seg := joined[start:i]
			if seg == "" || seg == "." || seg == ".." {
				vpOutside("path.Join model: result is not already clean")
			}
			start = i + 1
		}
	}
	return joined
}

// ---- native validation of the models ----

type vpMapEnv map[string]string

func (m vpMapEnv) Get(k string) (string, bool) { v, ok := m[k]; return v, ok }

func vpEachString(alphabet string, maxLen int, f func(string)) {
	var rec func(prefix []byte)
	rec = func(prefix []byte) {
		f(string(prefix))
		if len(prefix) == maxLen {
			return
		}
		for i := 0; i < len(alphabet); i++ {
			rec(append(prefix, alphabet[i]))
		}
	}
	rec(nil)
}

func vpCheckURL(s string, cases, outside, mism *int, first *string) {
	if len(s) > 0 && s[0] == '/' {
		return
	}
	var got *url.URL
	var gerr error
	if !vpTryModel(func() { got, gerr = vpModelURLParse(s) }) {
		*outside++
		return
	}
	want, werr := url.Parse(s)
	*cases++
	bad := false
	switch {
	case gerr != nil:
		bad = werr == nil
	case got.Scheme != "":
		bad = werr == nil && want.Scheme == ""
	default:
		bad = werr != nil || want.Scheme != "" || want.Opaque != "" || want.Path != got.Path || want.Fragment != got.Fragment
	}
	if bad {
		*mism++
		if *first == "" {
			*first = s
		}
	}
}

func init() {
	vpRegisterModelCheck("urlparse", func() (cases, outside, mism int, first string) {
		vpEachString("a1._/-#:@\\+B", vpValidateDepth(6), func(s string) { vpCheckURL(s, &cases, &outside, &mism, &first) })
		rng := rand.New(rand.NewSource(1))
		const full = "abcxyzABZ019._/#:@\\+-"
		for i := 0; i < 300000; i++ {
			n := rng.Intn(15)
			b := make([]byte, n)
			for j := range b {
				b[j] = full[rng.Intn(len(full))]
			}
			vpCheckURL(string(b), &cases, &outside, &mism, &first)
		}
		return
	})
	vpRegisterModelCheck("pathjoin", func() (cases, outside, mism int, first string) {
		vpEachString("a./-#", 5, func(a string) {
			for _, b := range []string{"x", "a-buildkite-plugin#r/s", ".", "", "a/.."} {
				var got string
				if !vpTryModel(func() { got = vpModelPathJoin("github.com", a, b) }) {
					outside++
					continue
				}
				cases++
				if want := path.Join("github.com", a, b); want != got {
					mism++
					if first == "" {
						first = a + "|" + b
					}
				}
			}
		})
		return
	})
	vpRegisterModelCheck("interpolate", func() (cases, outside, mism int, first string) {
		env := vpMapEnv{"A": "x", "B": "", "a": "$B", "A1": "one", "A_": "u"}
		vpEachString("$\\{}ABa_1(x", vpValidateDepth(6), func(s string) {
			var got string
			var gerr error
			if !vpTryModel(func() { got, gerr = vpModelInterpolate(env, s) }) {
				outside++
				return
			}
			want, werr := interpolate.Interpolate(env, s)
			cases++
			if (gerr != nil) != (werr != nil) || (werr == nil && got != want) {
				mism++
				if first == "" {
					first = s
				}
			}
		})
		return
	})
}
