//go:build verif

package pipeline

import (
	"encoding/json"

	"github.com/buildkite/go-pipeline/ordered"
	"github.com/buildkite/go-pipeline/warning"
	"gopkg.in/yaml.v3"
)

// C09 (JSON leg, data model) - the normal form is a fixpoint: re-parsing the
// JSON marshalling of a parsed object gives the same kinds and field values,
// and marshalling again gives the same data.

func init() {
	vpRegister("c09_cmd_basic", vpH_c09_cmd_basic)
	vpRegister("c09_cmd_plugins", vpH_c09_cmd_plugins)
	vpRegister("c09_cmd_matrix", vpH_c09_cmd_matrix)
	vpRegister("c09_cmd_cache", vpH_c09_cmd_cache)
	vpRegister("c09_pipeline", vpH_c09_pipeline)
	vpRegister("c09_mixed_keys", vpH_c09_mixed_keys)
	vpRegister("c09_from_nodes", vpH_c09_from_nodes)
}

// vpReparseStep: the stand-alone JSON decoder for one command step.
func vpReparseStep(x *CommandStep) (*CommandStep, []byte, bool) {
	return vpReparseStepL(x, "")
}

// vpReparseStepL: class prefixes the labels of a distinguished input class.
func vpReparseStepL(x *CommandStep, class string) (*CommandStep, []byte, bool) {
	b, err := json.Marshal(x)
	vpAssert(err == nil, "a parsed command step marshals to JSON")
	if err != nil {
		return nil, nil, false
	}
	c2 := new(CommandStep)
	uerr := c2.UnmarshalJSON(b)
	vpAssert(uerr == nil, "the JSON form of a parsed command step is accepted by CommandStep.UnmarshalJSON")
	if uerr != nil {
		return nil, nil, false
	}
	b2, err2 := json.Marshal(c2)
	vpAssert(err2 == nil, "the re-parsed step marshals again")
	vpAssert(err2 == nil && vpJEqual(b, b2), class+"normalisation is idempotent: marshal(parse(marshal(x))) carries the same data as marshal(x)")
	return c2, b, true
}

func vpSameEnv(a, b map[string]string) bool {
	if len(a) != len(b) {
		return false
	}
	for k, v := range a {
		w, ok := b[k]
		if !ok || w != v {
			return false
		}
	}
	return true
}

func vpH_c09_cmd_basic() {
	x := &CommandStep{Command: vpStrUpTo(1, "a-c")}
	if vpBool() {
		x.Command = "a\nb" // commands joined at parse time stay one string
	}
	if vpBool() {
		x.Key = vpStr(1, "a-c")
	}
	if vpBool() {
		x.Label = vpStr(1, "a-c")
	}
	switch vpInt(0, 2) {
	case 1:
		x.Env = map[string]string{}
	case 2:
		x.Env = map[string]string{"A": vpStrUpTo(1, "x-z"), "B": "12"}
	}
	if vpBool() {
		x.Signature = &Signature{Algorithm: "EdDSA", SignedFields: []string{"command", "env::A"}, Value: vpStr(1, "s-t")}
	}
	extra := vpInt(0, 4)
	switch extra {
	case 1:
		x.RemainingFields = map[string]any{"xa": vpExtraValue()}
	case 2:
		x.RemainingFields = map[string]any{"depends_on": []any{"a", vpMapOf("step", "b", "allow_failure", true)}, "timeout_in_minutes": 5}
	case 3: // the alias of an empty primary key kept as an extra (parse of `key: "", id: x`)
		vpAssume(x.Key == "")
		x.RemainingFields = map[string]any{"id": vpStr(1, "a-c")}
	case 4:
		vpAssume(x.Label == "")
		x.RemainingFields = map[string]any{"name": vpStr(1, "a-c")}
	}
	class := ""
	if extra == 3 || extra == 4 {
		class = "alias kept next to an empty primary field: "
	}
	c2, _, ok := vpReparseStepL(x, class)
	if !ok {
		return
	}
	if extra == 3 || extra == 4 {
		vpAssert(c2.Key == x.Key && c2.Label == x.Label, class+"the alias is not promoted on re-parse")
		return
	}
	vpAssert(c2.Key == x.Key && c2.Label == x.Label && c2.Command == x.Command, "key, label and command survive the JSON round trip")
	vpAssert(vpSameEnv(c2.Env, x.Env), "step env survives the JSON round trip (nil and empty are the same)")
	if x.Signature == nil {
		vpAssert(c2.Signature == nil, "no signature appears from nowhere")
	} else {
		s := c2.Signature
		vpAssert(s != nil && s.Algorithm == x.Signature.Algorithm && s.Value == x.Signature.Value && len(s.SignedFields) == 2 && s.SignedFields[0] == "command" && s.SignedFields[1] == "env::A", "the signature record survives the JSON round trip")
	}
	vpAssert(len(c2.RemainingFields) == len(x.RemainingFields), "extra fields survive the JSON round trip")
	vpAssert(c2.Plugins == nil && c2.Matrix == nil && c2.Cache == nil, "absent parts stay absent")
}

func vpH_c09_cmd_plugins() {
	x := &CommandStep{Command: "c"}
	src := "p" + vpStrUpTo(1, "a-cA")
	var cfg any
	cfgKind := vpInt(0, 8)
	cv := vpStrUpTo(1, "x-z")
	switch cfgKind {
	case 5: // scalar configs are data too, falsy or not
		cfg = false
	case 6:
		cfg = 0
	case 7:
		cfg = ""
	case 8:
		cfg = "on"
	case 1:
		cfg = map[string]any{}
	case 2:
		cfg = map[string]any{"k": cv}
	case 3:
		cfg = map[string]any{"k": cv, "n": 3, "f": 1.5, "t": true, "z": nil, "l": []any{"yes", 7}, "m": map[string]any{"q": "0x1f"}}
	case 4:
		cfg = []any{} // invalid but must not break the round trip
	}
	switch vpInt(0, 3) {
	case 1:
		x.Plugins = Plugins{}
	case 2:
		x.Plugins = Plugins{{Source: src, Config: cfg}, {Source: "github.com/o/r-buildkite-plugin#v2", Config: nil}}
	case 3: // one plugin listed twice, under its short and its canonical spelling: two entries
		x.Plugins = Plugins{{Source: src, Config: cfg}, {Source: "github.com/buildkite-plugins/" + src + "-buildkite-plugin", Config: nil}}
	}
	c2, _, ok := vpReparseStep(x)
	if !ok {
		return
	}
	vpAssert(len(c2.Plugins) == len(x.Plugins), "the plugin list keeps its length (nil and empty are the same)")
	if len(x.Plugins) == 2 && len(c2.Plugins) == 2 {
		vpAssert(c2.Plugins[0].Source == x.Plugins[0].FullSource() && c2.Plugins[1].Source == x.Plugins[1].Source, "plugins keep their order; sources come back in canonical form")
		vpAssert(c2.Plugins[0].FullSource() == c2.Plugins[0].Source, "a canonical source is a fixpoint of canonicalisation")
		switch cfgKind {
		case 0, 1, 4:
			vpAssert(c2.Plugins[0].Config == nil, "absent and empty configs come back as nil")
		case 5:
			vpAssert(c2.Plugins[0].Config == any(false), "a scalar config comes back as it was (false)")
		case 6:
			vpAssert(c2.Plugins[0].Config == any(0), "a scalar config comes back as it was (0)")
		case 7:
			vpAssert(c2.Plugins[0].Config == any(""), "a scalar config comes back as it was (the empty string)")
		case 8:
			vpAssert(c2.Plugins[0].Config == any("on"), "a scalar config comes back as it was")
		default:
			m, isMap := c2.Plugins[0].Config.(map[string]any)
			vpAssert(isMap && len(m) == len(cfg.(map[string]any)) && m["k"] == any(cv), "plugin configs come back as plain maps with the same data")
		}
	}
}

func vpH_c09_cmd_matrix() {
	x := &CommandStep{Command: "c"}
	v1, v2 := vpStr(1, "x-z"), vpStr(1, "x-z")
	kind := vpInt(0, 11)
	switch kind {
	case 10: // a bare list of values next to other keys of the matrix
		x.Matrix = &Matrix{Setup: MatrixSetup{"": {v1, v2}}, RemainingFields: map[string]any{"concurrency": 2}}
	case 11: // ... and with an adjustment as well
		x.Matrix = &Matrix{Setup: MatrixSetup{"": {v1}}, Adjustments: MatrixAdjustments{{With: MatrixAdjustmentWith{"": v2}}}, RemainingFields: map[string]any{"zz": "y"}}
	case 1:
		x.Matrix = &Matrix{} // `matrix: {}`
	case 2:
		x.Matrix = &Matrix{Setup: MatrixSetup{"": {v1, v2}}} // simple list
	case 3:
		x.Matrix = &Matrix{Setup: MatrixSetup{"os": {v1}, "arch": {}}} // named, with an empty list
	case 4:
		x.Matrix = &Matrix{Setup: MatrixSetup{"": {v1}}, Adjustments: MatrixAdjustments{{With: MatrixAdjustmentWith{"": v2}, Skip: true}, {With: MatrixAdjustmentWith{"": v1}, Skip: "why", RemainingFields: map[string]any{"soft_fail": true}}}}
	case 5:
		x.Matrix = &Matrix{Setup: MatrixSetup{"os": {v1}}, Adjustments: MatrixAdjustments{{With: MatrixAdjustmentWith{"os": v2}, Skip: false}, {With: MatrixAdjustmentWith{"os": v1, "arch": "z"}}}}
	case 6:
		x.Matrix = &Matrix{RemainingFields: map[string]any{"zz": 1}} // only extra keys
	case 7:
		x.Matrix = &Matrix{Adjustments: MatrixAdjustments{{With: MatrixAdjustmentWith{"os": v1}}}} // only adjustments
	case 8:
		// `matrix: {setup: {}}` parses to a nil setup (like `setup: null`), so an
		// empty non-nil setup map is not a parse result; the document form is
		// exercised instead
		doc := vpMapOf("command", "c", "matrix", vpMapOf("setup", vpMapOf(), "adjustments", []any{vpMapOf("with", vpMapOf("os", v1))}))
		parsed := new(CommandStep)
		vpAssert(ordered.Unmarshal(doc, parsed) == nil && parsed.Matrix != nil && parsed.Matrix.Setup == nil, "an empty setup mapping parses like a null setup")
		x.Matrix = parsed.Matrix
	case 9:
		x.Matrix = &Matrix{Setup: MatrixSetup{"": {}}} // anonymous dimension with an empty list
	}
	c2, _, ok := vpReparseStep(x)
	if !ok {
		return
	}
	if kind == 0 {
		vpAssert(c2.Matrix == nil, "no matrix appears from nowhere")
		return
	}
	vpAssert(c2.Matrix != nil, "a matrix stays a matrix")
	if c2.Matrix == nil {
		return
	}
	m := c2.Matrix
	vpAssert(len(m.Adjustments) == len(x.Matrix.Adjustments), "adjustments survive the JSON round trip")
	nonEmptyDims := 0
	for d, vals := range x.Matrix.Setup {
		got := m.Setup[d]
		vpAssert(len(got) == len(vals), "every setup dimension keeps its values")
		for i := range vals {
			if i < len(got) {
				vpAssert(got[i] == vals[i], "setup values survive the JSON round trip")
			}
		}
		nonEmptyDims++
	}
	for i, a := range x.Matrix.Adjustments {
		if i < len(m.Adjustments) {
			vpAssert(vpSameEnv(map[string]string(m.Adjustments[i].With), map[string]string(a.With)), "adjustment tuples survive the JSON round trip")
			vpAssert(m.Adjustments[i].ShouldSkip() == a.ShouldSkip(), "skip flags survive the JSON round trip")
		}
	}
	vpAssert(len(m.RemainingFields) == len(x.Matrix.RemainingFields), "matrix extras survive the JSON round trip")
}

func vpH_c09_cmd_cache() {
	x := &CommandStep{Command: "c"}
	p1 := vpStr(1, "x-z")
	kind := vpInt(0, 5)
	switch kind {
	case 1:
		x.Cache = &Cache{Disabled: true}
	case 2:
		x.Cache = &Cache{Paths: []string{p1}}
	case 3:
		x.Cache = &Cache{Paths: []string{p1, "q"}, Name: "n", Size: "20g", RemainingFields: map[string]any{"extra": []any{1}}}
	case 4:
		x.Cache = &Cache{} // `cache: {}`
	case 5:
		x.Cache = &Cache{Name: "n"}
	}
	c2, _, ok := vpReparseStep(x)
	if !ok {
		return
	}
	if kind == 0 {
		vpAssert(c2.Cache == nil, "no cache appears from nowhere")
		return
	}
	vpAssert(c2.Cache != nil, "cache settings stay cache settings")
	if c2.Cache == nil {
		return
	}
	c, w := c2.Cache, x.Cache
	vpAssert(c.Disabled == w.Disabled && c.Name == w.Name && c.Size == w.Size && len(c.Paths) == len(w.Paths) && len(c.RemainingFields) == len(w.RemainingFields), "cache fields survive the JSON round trip")
	for i := range w.Paths {
		if i < len(c.Paths) {
			vpAssert(c.Paths[i] == w.Paths[i], "cache paths survive the JSON round trip")
		}
	}
}

// a small pipeline through the whole-document path (JSON read as YAML)
// Steps that carry keys of two kind families (no `type`): whichever kind the
// document gets, the marshalled form gets the same kind again, on the JSON leg
// and on the YAML leg (marshalling sorts or re-orders keys: the decision must
// not depend on their order).
func vpH_c09_mixed_keys() {
	keys := []string{"command", "plugins", "wait", "block", "input", "trigger", "group"}
	i, j := vpInt(0, len(keys)-1), vpInt(0, len(keys)-1)
	vpAssume(i != j)
	val := func(k string) any {
		switch k {
		case "plugins":
			return []any{"p#v1"}
		case "wait":
			return nil
		}
		return "v"
	}
	doc := vpMapOf("steps", []any{vpMapOf(keys[i], val(keys[i]), keys[j], val(keys[j]), "label", "l")})
	p := new(Pipeline)
	perr := ordered.Unmarshal(doc, p)
	if (perr != nil && !warning.Is(perr)) || len(p.Steps) != 1 {
		return // rejected documents have no normal form
	}
	k1 := vpKindOf(p.Steps[0])
	b, err := json.Marshal(p)
	vpAssert(err == nil, "the parsed pipeline marshals to JSON")
	if err == nil {
		var n yaml.Node
		vpAssert(yaml.Unmarshal(b, &n) == nil, "the JSON form is readable")
		p2 := new(Pipeline)
		e2 := ordered.Unmarshal(&n, p2)
		ok := (e2 == nil || warning.Is(e2)) && len(p2.Steps) == 1
		vpAssert(ok && vpKindOf(p2.Steps[0]) == k1, "a step with keys of two kinds keeps its kind through the JSON round trip")
		if ok {
			b2, err2 := json.Marshal(p2)
			vpAssert(err2 == nil && vpJEqual(b, b2), "its JSON normal form is a fixpoint")
		}
	}
	yb, yerr := yaml.Marshal(p)
	vpAssert(yerr == nil, "the parsed pipeline marshals to YAML")
	if yerr == nil {
		var n yaml.Node
		vpAssert(yaml.Unmarshal(yb, &n) == nil, "the YAML form is readable")
		p3 := new(Pipeline)
		e3 := ordered.Unmarshal(&n, p3)
		ok := (e3 == nil || warning.Is(e3)) && len(p3.Steps) == 1
		vpAssert(ok && vpKindOf(p3.Steps[0]) == k1, "a step with keys of two kinds keeps its kind through the YAML round trip")
	}
}

func vpH_c09_pipeline() {
	g := vpStr(1, "a-c")
	cmd := &CommandStep{Command: vpStrUpTo(1, "a-c"), Label: "l", Plugins: Plugins{{Source: "p", Config: map[string]any{"k": 1}}}}
	var third Step
	kind := vpInt(0, 4)
	switch kind {
	case 0:
		third = &WaitStep{Scalar: "wait"}
	case 1:
		third = &WaitStep{Contents: map[string]any{"wait": nil, "continue_on_failure": true}}
	case 2:
		third = &InputStep{Scalar: "block"}
	case 3:
		third = &TriggerStep{Contents: map[string]any{"trigger": "t", "async": true}}
	case 4:
		third = &UnknownStep{Contents: vpMapOf("type", "new", "x", []any{1})}
	}
	grp := &GroupStep{Group: &g, Key: "gk", Steps: Steps{&CommandStep{Command: "inner"}, &WaitStep{Scalar: "wait"}}}
	p := &Pipeline{Steps: Steps{cmd, grp, third}, RemainingFields: map[string]any{"notify": []any{"x"}}}
	if vpBool() {
		p.Env = ordered.NewMap[string, string](2)
		p.Env.Set("Z", vpStrUpTo(1, "x-z"))
		p.Env.Set("A", "1")
	}
	b, err := json.Marshal(p)
	vpAssert(err == nil, "a parsed pipeline marshals to JSON")
	if err != nil {
		return
	}
	var n yaml.Node
	vpAssert(yaml.Unmarshal(b, &n) == nil, "the JSON form is readable as YAML")
	p2 := new(Pipeline)
	perr := ordered.Unmarshal(&n, p2)
	if kind == 4 {
		vpAssert(perr != nil, "an unknown step is reported again on re-parse")
	} else {
		vpAssert(perr == nil, "re-parsing the JSON form succeeds without warning")
	}
	vpAssert(len(p2.Steps) == 3, "the step list keeps its length")
	if len(p2.Steps) != 3 {
		return
	}
	vpAssert(vpKindOf(p2.Steps[0]) == vpKCommand && vpKindOf(p2.Steps[1]) == vpKGroup && vpKindOf(p2.Steps[2]) == vpKindOf(third), "step kinds are the same after the round trip")
	g2, _ := p2.Steps[1].(*GroupStep)
	if g2 != nil {
		vpAssert(g2.Group != nil && *g2.Group == g && g2.Key == "gk" && len(g2.Steps) == 2 && vpKindOf(g2.Steps[0]) == vpKCommand && vpKindOf(g2.Steps[1]) == vpKWait, "groups keep name, key and children")
	}
	if p.Env != nil {
		vpAssert(p2.Env != nil && ordered.Equal(p.Env, p2.Env), "the env block keeps keys, values and order")
	}
	b2, err2 := json.Marshal(p2)
	vpAssert(err2 == nil && vpJEqual(b, b2), "normalisation is idempotent at pipeline level")
}

// From the node tree a YAML parser hands over: empty lists and mappings, nulls
// and nested containers in free-form positions come out of the JSON leg and
// the YAML leg as the same data, and the JSON normal form is a fixpoint.
func vpH_c09_from_nodes() {
	var extra *yaml.Node
	switch vpInt(0, 5) {
	case 0:
		extra = vpYSeq() // depends_on: []
	case 1:
		extra = vpYMap() // {}
	case 2:
		extra = vpYMap(vpYStr("tags"), vpYSeq(), vpYStr("m"), vpYMap())
	case 3:
		extra = vpYSeq(vpYSeq(), vpYMap(), &yaml.Node{Kind: yaml.ScalarNode, Tag: "!!null", Value: "~"})
	case 4:
		extra = &yaml.Node{Kind: yaml.ScalarNode, Tag: "!!null", Value: "null"}
	default:
		extra = vpYSeq(vpYStr("a"), &yaml.Node{Kind: yaml.ScalarNode, Tag: "!!int", Value: "3"}, &yaml.Node{Kind: yaml.ScalarNode, Tag: "!!bool", Value: "true"})
	}
	var stepNode *yaml.Node
	switch vpInt(0, 2) {
	case 0:
		stepNode = vpYMap(vpYStr("command"), vpYStr("c"), vpYStr("depends_on"), extra)
	case 1:
		stepNode = vpYMap(vpYStr("wait"), &yaml.Node{Kind: yaml.ScalarNode, Tag: "!!null", Value: "~"}, vpYStr("depends_on"), extra)
	default:
		stepNode = vpYMap(vpYStr("trigger"), vpYStr("t"), vpYStr("build"), vpYMap(vpYStr("meta_data"), extra))
	}
	doc := vpYMap(vpYStr("steps"), vpYSeq(stepNode), vpYStr("notify"), extra)
	p := new(Pipeline)
	if err := ordered.Unmarshal(doc, p); err != nil {
		return
	}
	b1, e1 := json.Marshal(p)
	vpAssert(e1 == nil, "the parsed pipeline marshals to JSON")
	if e1 != nil {
		return
	}
	var n1 yaml.Node
	vpAssert(yaml.Unmarshal(b1, &n1) == nil, "the JSON form is readable")
	pj := new(Pipeline)
	vpAssert(ordered.Unmarshal(&n1, pj) == nil, "the JSON form re-parses")
	bj, ej := json.Marshal(pj)
	vpAssert(ej == nil && vpJEqual(b1, bj), "the JSON normal form is a fixpoint (empty lists, empty mappings and nulls keep their type)")
	yb, ye := yaml.Marshal(p)
	vpAssert(ye == nil, "the parsed pipeline marshals to YAML")
	if ye == nil {
		var n2 yaml.Node
		vpAssert(yaml.Unmarshal(yb, &n2) == nil, "the YAML form is readable")
		py := new(Pipeline)
		vpAssert(ordered.Unmarshal(&n2, py) == nil, "the YAML form re-parses")
		by, ey := json.Marshal(py)
		vpAssert(ey == nil && vpJEqual(b1, by), "the YAML leg carries the same data as the JSON leg (an empty list is not null on one leg and [] on the other)")
	}
}
