//go:build verif

package pipeline

import "github.com/buildkite/go-pipeline/ordered"

// C12 - matrix interpolation replaces exactly the permutation's tokens, only in scope.

func init() {
	vpRegister("c12_lang", vpH_c12_lang)
	vpRegister("c12_witness", vpH_c12_witness)
	vpRegister("c12_transform", vpH_c12_transform)
	vpRegister("c12_scope", vpH_c12_scope)
	vpRegister("c12_badtoken", vpH_c12_badtoken)
	vpRegister("c12_ws", vpH_c12_ws)
}

// The property's token language, written without reference to the code:
// {{ ws* matrix ( . [A-Za-z0-9_.-]+ )? ws* }}   (ws = RE2 \s = [\t\n\f\r ])
const vpTokenSpec = `^\{\{[\t\n\f\r ]*matrix(\.[A-Za-z0-9_.\-]+)?[\t\n\f\r ]*\}\}$`

func vpIsWS(c byte) bool { return c == ' ' || c == '\t' || c == '\n' || c == '\f' || c == '\r' }
func vpIsDimChar(c byte) bool {
	return (c >= 'a' && c <= 'z') || (c >= 'A' && c <= 'Z') || (c >= '0' && c <= '9') || c == '_' || c == '.' || c == '-'
}

// vpScanToken is a hand-written scanner for one token of the property's
// grammar starting at s[i:]; it returns the end offset and the dimension key
// ("" for {{matrix}}, "name" for {{matrix.name}}).
func vpScanToken(s string, i int) (end int, dim string, ok bool) {
	j := i
	if j+2 > len(s) || s[j] != '{' || s[j+1] != '{' {
		return 0, "", false
	}
	j += 2
	for j < len(s) && vpIsWS(s[j]) {
		j++
	}
	if j+6 > len(s) || s[j:j+6] != "matrix" {
		return 0, "", false
	}
	j += 6
	if j < len(s) && s[j] == '.' {
		k := j + 1
		for k < len(s) && vpIsDimChar(s[k]) {
			k++
		}
		if k > j+1 {
			dim = s[j+1 : k]
			j = k
		}
		// a '.' not followed by a name character cannot be part of a token
	}
	for j < len(s) && vpIsWS(s[j]) {
		j++
	}
	if j+2 > len(s) || s[j] != '}' || s[j+1] != '}' {
		return 0, "", false
	}
	return j + 2, dim, true
}

// vpSpecTransform is the property: replace every token, leftmost first, in a
// single pass; unknown dimension => failure.
func vpSpecTransform(s string, dims, vals []string) (out string, fail bool) {
	i := 0
	for i < len(s) {
		end, dim, ok := vpScanToken(s, i)
		if !ok {
			out += s[i : i+1]
			i++
			continue
		}
		found := false
		for k, d := range dims {
			if d == dim {
				out += vals[k]
				found = true
				break
			}
		}
		if !found {
			fail = true
		}
		i = end
	}
	return out, fail
}

// Bounded language check through the public transformer: a string is a whole
// token for the code iff transforming it with no replacements removes all of
// it and reports an unknown token.
func vpWholeTokenAgrees(s string) {
	out, err := newMatrixInterpolator(MatrixPermutation{}).Transform(s)
	isToken := len(s) > 0 && out == "" && err != nil
	vpAssert(isToken == vpReMatch(vpTokenSpec, s), "a string is one whole token for the code exactly when it is in the property's token language")
}

// near-tokens: the places where a token pattern can be too lax or too strict
func vpH_c12_lang() {
	s := vpStrUpTo(1, "{ ") + "{{" + vpStrUpTo(2, " \\tm{") + "matrix" + vpStrUpTo(vpParam("tail"), ".a_ }\\-") + "}}" + vpStrUpTo(1, "} ")
	vpWholeTokenAgrees(s)
}

// arbitrary ASCII strings: used to replay a witness of the unbounded
// token-language query natively (not explored symbolically)
func vpH_c12_witness() {
	vpWholeTokenAgrees(vpStrUpTo(64, "\\x00-\\x7f"))
}

func vpDimName(max int) string {
	d := vpStr(1, "a-b._\\-")
	if max > 1 && vpBool() {
		d += vpStr(1, "a-b._\\-")
	}
	return d
}

func vpMkToken() string {
	t := "{{"
	if vpBool() {
		t += vpStr(1, " \\t")
	}
	t += "matrix"
	if vpBool() {
		t += "." + vpDimName(vpParam("name"))
	}
	if vpBool() {
		t += " "
	}
	return t + "}}"
}

// Replacement logic on lit0 tok1 lit1 [tok2 lit2] with dangerous literals.
func vpH_c12_transform() {
	s := vpStrUpTo(vpParam("lit"), "{}m.a ")
	ntok := vpInt(1, vpParam("tokens"))
	for i := 0; i < ntok; i++ {
		s += vpMkToken() + vpStrUpTo(vpParam("lit"), "{}m.a ")
	}
	// permutation of up to 2 dimensions
	mp := MatrixPermutation{}
	var dims, vals []string
	nd := vpInt(0, 2)
	for i := 0; i < nd; i++ {
		d := ""
		if vpBool() {
			d = vpDimName(vpParam("name"))
		}
		for _, o := range dims {
			vpAssume(o != d)
		}
		v := ""
		switch vpInt(0, 2) {
		case 1:
			v = vpStr(1, "x{}")
		case 2:
			v = "{{matrix}}" // a value that itself looks like a token
		}
		dims, vals = append(dims, d), append(vals, v)
		mp[d] = v
	}
	want, wantFail := vpSpecTransform(s, dims, vals)
	out, err := newMatrixInterpolator(mp).Transform(s)
	vpAssert((err != nil) == wantFail, "the call fails exactly when a token names a dimension the permutation does not have")
	if !wantFail {
		vpAssert(out == want, "every token is replaced by its dimension's value in a single pass; everything else is unchanged")
	}
}

// Field scope on a command step.
func vpH_c12_scope() {
	v := vpStrUpTo(2, "x-z{}")
	switch vpInt(0, 2) { // values that are themselves tokens: replaced once, never looked at again
	case 1:
		v = "{{matrix.arch}}"
	case 2:
		v = "{{matrix.nope}}"
	}
	named := vpBool()
	tok, dim := "{{matrix}}", ""
	if named {
		tok, dim = "{{ matrix.os }}", "os"
	}
	sig := &Signature{Algorithm: tok, SignedFields: []string{tok}, Value: tok}
	m := &Matrix{Setup: MatrixSetup{dim: {v, tok}, "arch": {"w"}}, RemainingFields: map[string]any{tok: tok}}
	cpre := "c"
	noCmd := vpBool()
	step := &CommandStep{
		Key:             "k" + tok,
		Label:           "l" + tok,
		Command:         cpre + tok + tok,
		Plugins:         Plugins{{Source: "p" + tok, Config: map[string]any{"a" + tok: "b" + tok, "n": []any{tok, 3}}}},
		Env:             map[string]string{"E" + tok: "v" + tok},
		Signature:       sig,
		Matrix:          m,
		RemainingFields: map[string]any{"r" + tok: "s" + tok},
	}
	// a nested mapping as the parser keeps it (ordered), tokens in its first, middle and last keys
	om := vpMapOf("f"+tok, "1", "plain", tok, "m"+tok, "3", "last", "4")
	withOrdered := vpBool()
	if withOrdered {
		step.RemainingFields["agents"] = om
		// ... and one whose first value is a list and a mapping (held by reference) and whose later key changes
		step.RemainingFields["notify"] = vpMapOf("l", []any{tok, vpMapOf("in", tok)}, "k"+tok, "1")
	}
	if noCmd {
		step.Command = ""
	}
	empty := vpBool()
	if empty {
		step.Matrix = nil
		err := step.InterpolateMatrixPermutation(MatrixPermutation{})
		vpAssert(err == nil, "empty permutation on a step without matrix is accepted")
		vpAssert((noCmd && step.Command == "" || !noCmd && step.Command == "c"+tok+tok) && step.Label == "l"+tok && step.Key == "k"+tok, "empty permutation changes nothing (scalars)")
		vpAssert(step.Env["E"+tok] == "v"+tok && step.Plugins[0].Source == "p"+tok && step.RemainingFields["r"+tok] == any("s"+tok), "empty permutation changes nothing (containers)")
		if withOrdered {
			_, kept := om.Get("f" + tok)
			vpAssert(om.Len() == 4 && kept, "empty permutation changes nothing (nested ordered mapping)")
		}
		return
	}
	err := step.InterpolateMatrixPermutation(MatrixPermutation{dim: v, "arch": "w"})
	vpAssert(err == nil, "a valid permutation is applied without error")
	if noCmd {
		vpAssert(step.Command == "", "an empty command stays empty")
	} else {
		vpAssert(step.Command == "c"+v+v, "command: tokens replaced")
	}
	vpAssert(step.Label == "l"+v, "label: tokens replaced")
	vpAssert(step.Plugins[0].Source == "p"+v, "plugin source: tokens replaced")
	cfg := step.Plugins[0].Config.(map[string]any)
	vpAssert(len(cfg) == 2 && cfg["a"+v] == any("b"+v), "plugin config keys and values: tokens replaced")
	nl := cfg["n"].([]any)
	vpAssert(len(nl) == 2 && nl[0] == any(v) && nl[1] == any(3), "nested plugin config: tokens replaced, other values unchanged")
	ev, ok := step.Env["E"+tok]
	vpAssert(len(step.Env) == 1 && ok, "env names are not matrix-interpolated")
	vpAssert(ev == "v"+v, "env values: tokens replaced")
	if withOrdered {
		got, isOM := step.RemainingFields["agents"].(*ordered.MapSA)
		okm := isOM && got.Len() == 4
		if okm {
			a, hasA := got.Get("f" + v)
			b, hasB := got.Get("plain")
			c3, hasC := got.Get("m" + v)
			d, hasD := got.Get("last")
			okm = hasA && a == any("1") && hasB && b == any(v) && hasC && c3 == any("3") && hasD && d == any("4")
		}
		vpAssert(okm, "nested ordered mappings in unknown fields: tokens replaced in every key (first, middle, last) and value")
		vpAssert(len(step.RemainingFields) == 3 && step.RemainingFields["r"+v] == any("s"+v), "unknown fields: tokens replaced")
		nt, isOM2 := step.RemainingFields["notify"].(*ordered.MapSA)
		okn := isOM2 && nt.Len() == 2
		if okn {
			l, hasL := nt.Get("l")
			kk, hasK := nt.Get("k" + v)
			ll, isL := l.([]any)
			okn = hasL && hasK && kk == any("1") && isL && len(ll) == 2 && ll[0] == any(v)
			if okn {
				in, isIn := ll[1].(*ordered.MapSA)
				okn = isIn && in.Len() == 1
				if okn {
					iv, _ := in.Get("in")
					okn = iv == any(v)
				}
			}
		}
		vpAssert(okn, "lists and mappings held inside a nested ordered mapping are rewritten exactly once, also when a later key of that mapping changes")
	} else {
		vpAssert(len(step.RemainingFields) == 1 && step.RemainingFields["r"+v] == any("s"+v), "unknown fields: tokens replaced")
	}
	vpAssert(step.Key == "k"+tok, "the step key is unchanged")
	vpAssert(step.Signature == sig && sig.Algorithm == tok && sig.Value == tok && sig.SignedFields[0] == tok, "the signature is unchanged")
	vpAssert(step.Matrix == m && len(m.Setup) == 2 && len(m.Setup[dim]) == 2 && m.Setup[dim][0] == v && m.Setup[dim][1] == tok && m.RemainingFields[tok] == any(tok), "the matrix definition is unchanged")
}

// A token that names a dimension the permutation does not have makes the call
// fail, at whichever in-scope position it stands and whatever stands next to it
// (plugins with and without configs, nested config values, several plugins).
func vpH_c12_badtoken() {
	bad := "{{matrix.nope}}"
	good := "{{matrix.os}}"
	step := &CommandStep{
		Command: "c " + good,
		Label:   "l",
		Plugins: Plugins{
			{Source: "bare#v1"},
			{Source: "cfg#v1", Config: map[string]any{"k": "v " + good, "n": []any{"e"}}},
			{Source: "scalar#v1", Config: "s"},
		},
		Env:             map[string]string{"E": "v"},
		Matrix:          &Matrix{Setup: MatrixSetup{"os": {"x"}}},
		RemainingFields: map[string]any{"r": "s", "deep": map[string]any{"d": []any{"z"}}},
	}
	pos := vpInt(0, 12)
	switch pos {
	case 0:
		step.Command = "c " + bad
	case 1:
		step.Label = bad
	case 2:
		step.Plugins[0].Source = "bare-" + bad + "#v1"
	case 3:
		step.Plugins[1].Source = "cfg-" + bad + "#v1"
	case 4:
		step.Plugins[2].Source = "scalar-" + bad + "#v1"
	case 5:
		step.Plugins[1].Config = map[string]any{"k": bad}
	case 6:
		step.Plugins[1].Config = map[string]any{bad: "v"}
	case 7:
		step.Plugins[1].Config = map[string]any{"n": []any{"e", bad}}
	case 8:
		step.Plugins[2].Config = bad
	case 9:
		step.Env["E"] = bad
	case 10:
		step.RemainingFields["r"] = bad
	case 11:
		step.RemainingFields = map[string]any{bad: "s"}
	case 12:
		step.RemainingFields["deep"] = map[string]any{"d": []any{"z", bad}}
	}
	err := step.InterpolateMatrixPermutation(MatrixPermutation{"os": "x"})
	vpAssert(err != nil, "a token naming a dimension the permutation lacks makes the call fail, at every in-scope position")
}

// vpC12WS: the inner whitespace of a token - none, a space, or the other
// whitespace bytes a token written in a YAML block scalar or a quoted JSON
// string can carry.
func vpC12WS() string {
	switch vpInt(0, 5) {
	case 1:
		return " "
	case 2:
		return "\t"
	case 3:
		return "\n"
	case 4:
		return "\r\n  "
	case 5:
		return "\f"
	}
	return ""
}

// Tokens whose inner whitespace is a tab, newline, carriage return or form
// feed are tokens like any other, whether or not an ordinary token stands
// elsewhere in the step; the step has no plugins, so it can be serialised
// without touching the plugin-source rules.
func vpH_c12_ws() {
	w1, w2 := vpC12WS(), vpC12WS()
	v := vpStr(1, "x-z")
	// the dimension is called `os`, or any word-like string constant of the token code (a name like any other)
	dn := vpStrConstLike("*interpolate_matrix.go", "^[A-Za-z0-9_.-]{2,12}$", "os")
	t1 := "{{" + w1 + "matrix." + dn + w1 + "}}"
	t2 := "{{" + w2 + "matrix." + dn + w2 + "}}"
	bad := "{{" + w2 + "matrix.nope" + w2 + "}}"
	where := vpInt(0, 4)
	step := &CommandStep{
		Command:         "c",
		Label:           "l",
		Env:             map[string]string{"E": "e"},
		Matrix:          &Matrix{Setup: MatrixSetup{dn: {v}}},
		RemainingFields: map[string]any{"r": "s", "agents": vpMapOf("queue", "q")},
	}
	put := func(tok string) {
		switch where {
		case 0:
			step.Command += tok
		case 1:
			step.Label += tok
		case 2:
			step.Env["E"] += tok
		case 3:
			step.RemainingFields["r"] = "s" + tok
		case 4:
			step.RemainingFields["agents"] = vpMapOf("queue", "q"+tok)
		}
	}
	second := vpBool()
	if second { // an ordinary-looking token elsewhere in the step
		step.Command = "c" + t1 + " "
	}
	unknown := vpBool()
	if unknown {
		put(bad)
		err := step.InterpolateMatrixPermutation(MatrixPermutation{dn: v})
		vpAssert(err != nil, "a token naming an unknown dimension fails whatever whitespace it is written with")
		return
	}
	put(t2)
	err := step.InterpolateMatrixPermutation(MatrixPermutation{dn: v})
	vpAssert(err == nil, "a valid permutation is applied without error")
	pre := "c"
	if second {
		pre = "c" + v + " "
	}
	var got, want string
	switch where {
	case 0:
		got, want = step.Command, pre+v
	case 1:
		got, want = step.Label, "l"+v
	case 2:
		got, want = step.Env["E"], "e"+v
	case 3:
		got, want = step.RemainingFields["r"].(string), "s"+v
	case 4:
		q, _ := step.RemainingFields["agents"].(*ordered.MapSA).Get("queue")
		got, want = q.(string), "q"+v
	}
	vpAssert(got == want, "a token is replaced whatever whitespace (space, tab, newline, CR, form feed) it is written with")
	if where != 0 {
		vpAssert(step.Command == pre, "the other token in the step is replaced as well")
	}
}
