//go:build verif

package pipeline

import (
	"errors"

	"github.com/buildkite/go-pipeline/ordered"
	"github.com/buildkite/go-pipeline/warning"
)

// C15 - step kinds are chosen by the documented rule table.

func init() {
	vpRegister("c15_type", vpH_c15_type)
	vpRegister("c15_scalar", vpH_c15_scalar)
	vpRegister("c15_infer", vpH_c15_infer)
	vpRegister("c15_frommap", vpH_c15_frommap)
}

const (
	vpKUnknown = iota
	vpKCommand
	vpKWait
	vpKInput
	vpKTrigger
	vpKGroup
)

func vpKindOf(s Step) int {
	switch s.(type) {
	case *CommandStep:
		return vpKCommand
	case *WaitStep:
		return vpKWait
	case *InputStep:
		return vpKInput
	case *TriggerStep:
		return vpKTrigger
	case *GroupStep:
		return vpKGroup
	case *UnknownStep:
		return vpKUnknown
	}
	return -1
}

// The rule table of the property, restated.
func vpKindByType(t string) int {
	if t == "command" || t == "script" {
		return vpKCommand
	}
	if t == "wait" || t == "waiter" {
		return vpKWait
	}
	if t == "block" || t == "input" || t == "manual" {
		return vpKInput
	}
	if t == "trigger" {
		return vpKTrigger
	}
	if t == "group" {
		return vpKGroup
	}
	return vpKUnknown
}

func vpKindByScalar(t string) int {
	if t == "wait" || t == "waiter" {
		return vpKWait
	}
	if t == "block" || t == "input" || t == "manual" {
		return vpKInput
	}
	return vpKUnknown
}

var vpKindKeys = []string{"command", "commands", "plugins", "wait", "waiter", "block", "input", "manual", "trigger", "group"}

// first matching family, in the documented order
func vpKindByKeys(has func(string) bool) int {
	if has("command") || has("commands") || has("plugins") {
		return vpKCommand
	}
	if has("wait") || has("waiter") {
		return vpKWait
	}
	if has("block") || has("input") || has("manual") {
		return vpKInput
	}
	if has("trigger") {
		return vpKTrigger
	}
	if has("group") {
		return vpKGroup
	}
	return vpKUnknown
}

// every byte string up to 8 bytes as a `type` value
func vpH_c15_type() {
	t := vpStrUpTo(vpParam("len"), "a-z")
	step, err := stepByType(t)
	want := vpKindByType(t)
	if want == vpKUnknown {
		vpAssert(step == nil && err != nil, "unknown type value yields no typed step and an error")
		vpAssert(errors.Is(err, ErrUnknownStepType), "unknown type value: error identifies an unknown step type")
		vpAssert(!errors.Is(err, ErrStepTypeInference), "unknown type value: error is not an inference failure")
	} else {
		vpAssert(err == nil, "known type value yields no error")
		vpAssert(vpKindOf(step) == want, "type value selects the kind given by the rule table")
	}
}

// every byte string up to 8 bytes as a scalar step
func vpH_c15_scalar() {
	t := vpStrUpTo(vpParam("len"), "a-z")
	step, err := NewScalarStep(t)
	want := vpKindByScalar(t)
	vpAssert(step != nil, "a scalar step is never nil")
	vpAssert(vpKindOf(step) == want, "scalar step kind follows the rule table")
	switch want {
	case vpKWait:
		vpAssert(err == nil && step.(*WaitStep).Scalar == t, "scalar wait step keeps its spelling")
	case vpKInput:
		vpAssert(err == nil && step.(*InputStep).Scalar == t, "scalar input step keeps its spelling")
	default:
		vpAssert(warning.Is(err), "unknown scalar step comes with a warning")
		vpAssert(errors.Is(err, ErrUnknownStepType), "unknown scalar step: warning identifies an unknown step type")
		vpAssert(step.(*UnknownStep).Contents == any(t), "unknown scalar step keeps the original scalar")
	}
}

// all subsets of the ten kind keys plus one arbitrary extra key
// vpC15Earlier: the rule table has no memory - what was parsed earlier in the
// same process (in particular steps that failed to get a kind) does not change
// the decision for the next step.
func vpC15Earlier(max int) {
	switch vpInt(0, max) {
	case 1:
		_, _ = stepFromMap(vpMapOf("label", "x")) // no type, no kind key: inference fails
	case 2:
		_, _ = stepFromMap(vpMapOf("type", "nope", "command", "c")) // unknown type
	case 3:
		_, _ = NewScalarStep("mystery") // unknown scalar
	}
}

func vpH_c15_infer() {
	vpC15Earlier(1)
	o := ordered.NewMap[string, any](0)
	var present [10]bool
	// extra key first or last (position must not matter)
	extraFirst := vpBool()
	extra := vpStrUpTo(vpParam("extralen"), "a-z")
	if extraFirst {
		o.Set(extra, nil)
	}
	for i, k := range vpKindKeys {
		if vpBool() {
			present[i] = true
			o.Set(k, nil)
		}
	}
	if !extraFirst {
		o.Set(extra, nil)
	}
	has := func(k string) bool {
		if k == extra {
			return true
		}
		for i, kk := range vpKindKeys {
			if kk == k {
				return present[i]
			}
		}
		return false
	}
	want := vpKindByKeys(has)
	step, err := stepByKeyInference(o)
	if want == vpKUnknown {
		vpAssert(step == nil && err != nil, "no kind key: inference yields no typed step and an error")
		vpAssert(errors.Is(err, ErrStepTypeInference), "no kind key: error identifies a failed inference")
		vpAssert(!errors.Is(err, ErrUnknownStepType), "no kind key: error is not an unknown-type error")
	} else {
		vpAssert(err == nil, "a kind key is present: no error")
		vpAssert(vpKindOf(step) == want, "first matching key family, in the documented order, decides the kind")
	}
}

// minimal well-typed values per kind key
func vpValueFor(k string, illTyped bool) any {
	switch k {
	case "command":
		return "c"
	case "commands":
		return []any{"c1", "c2"}
	case "plugins":
		if illTyped {
			return "not-a-plugin-list"
		}
		switch vpInt(0, 5) { // the value of a kind key never changes the decision
		case 1:
			return []any{"p#v1", "p#v1"}
		case 2:
			return []any{"p#v1", ordered.MapFromItems(ordered.TupleSA{Key: "github.com/buildkite-plugins/p-buildkite-plugin#v1", Value: nil})}
		case 3:
			return []any{}
		case 4:
			return nil
		case 5:
			return ordered.MapFromItems(ordered.TupleSA{Key: "p#v1", Value: nil}, ordered.TupleSA{Key: "q", Value: ordered.MapFromItems(ordered.TupleSA{Key: "a", Value: 1})})
		}
		return []any{"p#v1"}
	case "group":
		return "g"
	case "trigger":
		return "t"
	}
	return nil
}

// stepFromMap end to end: type present/absent, up to `keys` kind keys, extra keys
func vpH_c15_frommap() {
	vpC15Earlier(3)
	o := ordered.NewMap[string, any](0)
	typeMode := vpInt(0, 2) // 0 absent, 1 string, 2 non-string
	tval := ""
	if typeMode == 1 {
		tval = vpStrUpTo(vpParam("len"), "a-z")
		o.Set("type", tval)
	} else if typeMode == 2 {
		o.Set("type", 7)
	}
	var present [10]bool
	n := 0
	illTyped := false
	for i, k := range vpKindKeys {
		if n < vpParam("keys") && vpBool() {
			present[i] = true
			n++
			ill := k == "plugins" && vpBool()
			illTyped = illTyped || ill
			o.Set(k, vpValueFor(k, ill))
		}
	}
	// an additional key - unknown, or a well-typed field of some kind of step in
	// any of its spellings - never changes the decision
	switch vpInt(0, 9) {
	case 1:
		o.Set("zzz", "extra")
	case 2:
		o.Set("cache", true)
	case 3:
		o.Set("cache", false)
	case 4:
		o.Set("cache", "p")
	case 5:
		o.Set("cache", ordered.MapFromItems(ordered.TupleSA{Key: "paths", Value: []any{"p"}}))
	case 6:
		o.Set("matrix", []any{"m"})
	case 7:
		o.Set("env", ordered.MapFromItems(ordered.TupleSA{Key: "A", Value: "b"}))
	case 8:
		o.Set("label", "l")
	case 9:
		o.Set("key", "k")
	}
	has := func(k string) bool {
		for i, kk := range vpKindKeys {
			if kk == k {
				return present[i]
			}
		}
		return false
	}
	step, err := stepFromMap(o)
	if typeMode == 2 {
		// outside the property's quantifier (type is not a string): only "never a known kind"
		vpAssert(step == nil || vpKindOf(step) == vpKUnknown, "non-string type never yields a known kind")
		return
	}
	want := vpKindByKeys(has)
	if typeMode == 1 {
		want = vpKindByType(tval)
	}
	vpAssert(step != nil, "stepFromMap yields a step")
	got := vpKindOf(step)
	if want == vpKCommand && illTyped {
		// an ill-typed field makes the typed decode fail: verbatim unknown step + warning
		vpAssert(got == vpKUnknown, "ill-typed command step falls back to an unknown step, never another known kind")
		vpAssert(warning.Is(err), "fallback to unknown step is reported as a warning")
		vpAssert(step.(*UnknownStep).Contents == any(o), "fallback unknown step holds the original mapping")
		return
	}
	vpAssert(got == want, "stepFromMap: kind follows type value, else key inference; extra keys never change it")
	if want == vpKUnknown {
		vpAssert(warning.Is(err), "unknown step comes with a warning")
		if typeMode == 1 {
			vpAssert(errors.Is(err, ErrUnknownStepType), "unknown type: warning wraps ErrUnknownStepType")
		} else {
			vpAssert(errors.Is(err, ErrStepTypeInference), "failed inference: warning wraps ErrStepTypeInference")
		}
		vpAssert(step.(*UnknownStep).Contents == any(o), "unknown step holds the original mapping")
	} else {
		vpAssert(err == nil, "well-typed known step decodes without warning")
	}
}
