//go:build verif

package pipeline

import (
	"encoding/json"
	"github.com/buildkite/go-pipeline/internal/env"
	"github.com/buildkite/go-pipeline/ordered"
	"github.com/buildkite/interpolate"
)

// C10 - pipeline env block: definition order, runtime precedence, export.

func init() {
	vpRegister("c10_envblock", vpH_c10_envblock)
	vpRegister("c10_escapes", vpH_c10_escapes)
	vpRegister("c10_items", vpH_c10_items)
}

// vpEnvModel is the oracle's environment: a list of pairs with the caller
// environment's notion of name equality (optionally case-insensitive).
type vpEnvModel struct {
	names, vals []string
	fold        bool
}

func vpUpper(s string) string {
	out := ""
	for i := 0; i < len(s); i++ {
		c := s[i]
		if c >= 'a' && c <= 'z' {
			out += string(rune(c - 32))
		} else {
			out += s[i : i+1]
		}
	}
	return out
}

func (e *vpEnvModel) norm(n string) string {
	if e.fold {
		return vpUpper(n)
	}
	return n
}

func (e *vpEnvModel) Get(name string) (string, bool) {
	name = e.norm(name)
	for i, n := range e.names {
		if n == name {
			return e.vals[i], true
		}
	}
	return "", false
}

func (e *vpEnvModel) Set(name, val string) {
	name = e.norm(name)
	for i, n := range e.names {
		if n == name {
			e.vals[i] = val
			return
		}
	}
	e.names = append(e.names, name)
	e.vals = append(e.vals, val)
}

// Strings are drawn from the interpolation sub-grammar; V is one letter over
// {A,B,a,b} (so case folding and coincidences arise).
func vpEnvName() string {
	if vpBool() {
		return vpStr(1, "ABa")
	}
	return "$" + vpStr(1, "ABa") // a name built by expansion
}

func vpEnvValue() string {
	switch vpInt(0, vpParam("valueshapes")-1) {
	case 0:
		return vpStrUpTo(1, "ABax")
	case 1:
		return "$" + vpStr(1, "ABa")
	case 2:
		return vpStr(1, "ax") + "${" + vpStr(1, "ABa") + "}"
	}
	return "$$" + vpStr(1, "ABa") // escaped: stays a literal $V
}

func vpH_c10_envblock() {
	n := vpParam("entries")
	prefer := vpBool()
	fold := vpBool()

	caller := env.New(env.CaseSensitive(!fold))
	model := &vpEnvModel{fold: fold}
	nc := vpInt(0, vpParam("callervars"))
	for i := 0; i < nc; i++ {
		name := vpStr(1, "ABa")
		val := vpStrUpTo(1, "ABax") // values share letters with names: an expanded name can hit a caller variable
		caller.Set(name, val)
		model.Set(name, val)
	}

	p := &Pipeline{Env: ordered.NewMap[string, string](n)}
	var srcK, srcV []string
	for i := 0; i < n; i++ {
		k, v := vpEnvName(), vpEnvValue()
		for _, o := range srcK {
			vpAssume(o != k)
		}
		srcK = append(srcK, k)
		srcV = append(srcV, v)
		p.Env.Set(k, v)
	}
	cmd := "c $" + vpStr(1, "ABa")
	step := &CommandStep{Command: cmd}
	p.Steps = Steps{step}

	// the fold of the property statement
	var wantK, wantV []string
	for i := 0; i < n; i++ {
		k2, err1 := interpolate.Interpolate(model, srcK[i])
		v2, err2 := interpolate.Interpolate(model, srcV[i])
		vpAssume(err1 == nil && err2 == nil)
		for _, o := range wantK {
			vpAssume(o != k2) // two entries with the same expanded name: not defined by the property
		}
		wantK = append(wantK, k2)
		wantV = append(wantV, v2)
		if _, exists := model.Get(k2); !(prefer && exists) {
			model.Set(k2, v2)
		}
	}
	wantCmd, errc := interpolate.Interpolate(model, cmd)
	vpAssume(errc == nil)

	err := p.Interpolate(caller, prefer)
	vpAssert(err == nil, "interpolation of a well-formed env block succeeds")

	i := 0
	p.Env.Range(func(k, v string) error {
		vpAssert(i < n, "env block keeps its number of entries")
		if i < n {
			vpAssert(k == wantK[i], "env block entry name is the expansion under the caller env plus earlier entries, in place")
			vpAssert(v == wantV[i], "env block entry value is the expansion under the caller env plus earlier entries")
		}
		i++
		return nil
	})
	vpAssert(i == n && p.Env.Len() == n, "env block keeps its number of entries")
	for j, name := range model.names {
		got, ok := caller.Get(name)
		vpAssert(ok && got == model.vals[j], "caller environment ends up with the fold's environment (export, runtime precedence)")
	}
	vpAssert(step.Command == wantCmd, "later strings are expanded under the final environment")
}

func init() { vpRegister("c10_collisions", vpH_c10_collisions) }

// Names that collide after expansion: the property does not define which
// entry should survive, but the block must behave like the ordered-map model
// of the same in-place renames (a colliding entry is dropped, the renamed one
// keeps its position, dropped entries are not visited), without panicking.
func vpH_c10_collisions() {
	n := vpParam("entries")
	caller := env.New(env.CaseSensitive(true))
	model := &vpEnvModel{}
	if vpBool() {
		name, val := vpStr(1, "A-B"), vpStr(1, "A-B")
		caller.Set(name, val)
		model.Set(name, val)
	}
	p := &Pipeline{Env: ordered.NewMap[string, string](n)}
	var curK, curV []string
	for i := 0; i < n; i++ {
		k := vpStr(1, "A-B")
		if vpBool() {
			k = "$" + k
		}
		for _, o := range curK {
			vpAssume(o != k)
		}
		v := vpStr(1, "A-Bx")
		curK, curV = append(curK, k), append(curV, v)
		p.Env.Set(k, v)
	}
	alive := make([]bool, n)
	for i := range alive {
		alive[i] = true
	}
	for i := 0; i < n; i++ {
		if !alive[i] {
			continue
		}
		k2, err1 := interpolate.Interpolate(model, curK[i])
		v2, err2 := interpolate.Interpolate(model, curV[i])
		vpAssume(err1 == nil && err2 == nil)
		for j := 0; j < n; j++ {
			if j != i && alive[j] && curK[j] == k2 {
				alive[j] = false
			}
		}
		curK[i], curV[i] = k2, v2
		model.Set(k2, v2)
	}
	err := p.Interpolate(caller, false)
	vpAssert(err == nil, "colliding names: interpolation succeeds")
	var wantK, wantV []string
	for i := 0; i < n; i++ {
		if alive[i] {
			wantK, wantV = append(wantK, curK[i]), append(wantV, curV[i])
		}
	}
	i := 0
	p.Env.Range(func(k, v string) error {
		vpAssert(i < len(wantK) && k == wantK[i] && v == wantV[i], "colliding names: the block equals the ordered-map model of the same renames")
		i++
		return nil
	})
	vpAssert(i == len(wantK) && p.Env.Len() == len(wantK), "colliding names: no entry is duplicated or lost beyond the dropped collisions")
}

// Names and values of the env block are expanded like every other string: the
// escapes `$$` and `\$` come out as a literal `$` wherever they stand (also as
// the last bytes), a lone trailing `$` stays, and what later entries, the steps
// and the caller see is the expanded text.
func vpH_c10_escapes() {
	shapes := []string{"$$A", "a$$", "a\\$", "\\$", "$", "a$", "\\$A", "$$", "x\\$y", "\\\\$A"}
	v := shapes[vpInt(0, len(shapes)-1)]
	k := "K"
	if vpBool() {
		k = "K" + shapes[vpInt(0, len(shapes)-1)] // names built by expansion too
	}
	caller := env.New(env.FromMap(map[string]string{"A": "va"}))
	model := vpMapEnv{"A": "va"}
	wantK, e1 := interpolate.Interpolate(model, k)
	wantV, e2 := interpolate.Interpolate(model, v)
	vpAssume(e1 == nil && e2 == nil)
	p := &Pipeline{Env: ordered.NewMap[string, string](1), Steps: Steps{&CommandStep{Command: "c ${" + "K" + "}"}}}
	p.Env.Set(k, v)
	p.Env.Set("LATER", "l $K")
	err := p.Interpolate(caller, false)
	vpAssert(err == nil, "an env block with escapes interpolates")
	got, has := p.Env.Get(wantK)
	vpAssert(has && got == wantV, "the entry is recorded under its expanded name with its expanded value (escapes unescaped once)")
	cv, chas := caller.Get(wantK)
	vpAssert(chas && cv == wantV, "the expanded value is what the caller's environment receives")
	if wantK == "K" {
		later, _ := p.Env.Get("LATER")
		vpAssert(later == "l "+wantV, "later entries see the expanded value")
		vpAssert(p.Steps[0].(*CommandStep).Command == "c "+wantV, "steps see the expanded value")
	}
}

// An env block built from a caller's list of entries (MapFromItems) is the
// pipeline's own: interpolating the pipeline rewrites the block in place but
// leaves the caller's list as it was, so a second pipeline built from the same
// list starts from the same definition.
func vpH_c10_items() {
	v := vpStr(1, "xy")
	block := []ordered.TupleSS{{Key: "A", Value: v}, {Key: "${A}_B", Value: "b $A"}, {Key: "C", Value: "$$A"}}
	if vpBool() { // names that collide after expansion leave a tombstone behind
		block = append(block, ordered.TupleSS{Key: v + "_B", Value: "dup"})
	}
	before := vpSnapshot(block)
	run := func() (*Pipeline, error) {
		p := &Pipeline{Env: ordered.MapFromItems(block...), Steps: Steps{&CommandStep{Command: "c $A"}}}
		return p, p.Interpolate(env.New(), false)
	}
	p1, e1 := run()
	vpAssert(e1 == nil, "the first pipeline interpolates")
	vpAssert(vpUnchanged(block, before), "interpolating a pipeline leaves the caller's list of env entries as it was")
	p2, e2 := run()
	vpAssert(e2 == nil, "a second pipeline built from the same list interpolates")
	b1, _ := json.Marshal(p1)
	b2, _ := json.Marshal(p2)
	vpAssert(vpJEqual(b1, b2), "two pipelines built from the same list of env entries interpolate to the same result")
	c1 := p1.Steps[0].(*CommandStep).Command
	vpAssert(c1 == "c "+v, "steps see the expanded value")
}
