//go:build verif

package pipeline

import (
	"gopkg.in/yaml.v3"
	"encoding/json"
	"github.com/buildkite/go-pipeline/ordered"
)

// C11 - matrix permutation validation equals the matrix specification.

func init() {
	vpRegister("c11_validate", vpH_c11_validate)
	vpRegister("c11_step", vpH_c11_step)
	vpRegister("c11_tuple", vpH_c11_tuple)
	vpRegister("c11_skip", vpH_c11_skip)
	vpRegister("c11_frame", vpH_c11_frame)
	vpRegister("c11_parsed", vpH_c11_parsed)
	vpRegister("c11_empty", vpH_c11_empty)
	vpRegister("c11_marshalled", vpH_c11_marshalled)
}

// vpTuple is a dimension->value tuple kept as parallel lists (the oracle never
// ranges over a Go map, so only the code under test is exposed to map order).
type vpTuple struct {
	names, vals []string
}

func (t vpTuple) asMap() map[string]string {
	m := make(map[string]string, len(t.names))
	for i, n := range t.names {
		m[n] = t.vals[i]
	}
	return m
}

func (t vpTuple) get(name string) (string, bool) {
	for i, n := range t.names {
		if n == name {
			return t.vals[i], true
		}
	}
	return "", false
}

type vpAdjSpec struct {
	with vpTuple
	skip int // 0 absent, 1 false, 2 true, 3 string
}

type vpMatrixModel struct {
	isNil bool
	dims  []string
	vals  [][]string
	adjs  []vpAdjSpec
}

// vpMkTuple builds a tuple whose arity is within one of `around` (shorter,
// equal, longer - the three cases of the arity checks) with 1-byte dimension
// names (names are only ever compared for equality).
// vpC11DimName: a one-byte dimension name, or (configurations with anon=1) also
// the empty name of the anonymous dimension.
func vpC11DimName() string {
	if vpParam("anon") != 0 {
		return vpStrUpTo(1, "a-d")
	}
	return vpStr(1, "a-d")
}

// vpC11Val: a value of a permutation or adjustment tuple - one byte, or
// (configurations with empty=1) also the empty string, which is a value like
// any other.
func vpC11Val() string {
	if vpParam("empty") != 0 {
		return vpStrUpTo(1, "x")
	}
	return vpStr(1, "x-z")
}

func vpMkTuple(around int) vpTuple {
	lo := around - 1
	if lo < 0 {
		lo = 0
	}
	n := vpInt(lo, around+1)
	var t vpTuple
	for i := 0; i < n; i++ {
		name := vpC11DimName()
		_, dup := t.get(name)
		vpAssume(!dup)
		t.names = append(t.names, name)
		t.vals = append(t.vals, vpC11Val())
	}
	return t
}

// vpMkMatrix builds an arbitrary matrix (or nil) within the bounds: up to
// `dims` dimensions with 0/1-byte names (so the anonymous dimension "" and
// clashes arise), value lists of 0..2 one-byte values (non-nil), up to `adjs`
// adjustments whose `with` arity is within one of the number of dimensions.
func vpMkMatrix(dims, adjs int) (*Matrix, vpMatrixModel) {
	if vpBool() {
		return nil, vpMatrixModel{isNil: true}
	}
	var mm vpMatrixModel
	m := &Matrix{Setup: MatrixSetup{}}
	nd := vpInt(0, dims)
	for i := 0; i < nd; i++ {
		name := vpC11DimName()
		for _, d := range mm.dims {
			vpAssume(d != name)
		}
		nv := vpInt(0, 2)
		vals := make([]string, 0, nv)
		for j := 0; j < nv; j++ {
			vals = append(vals, vpStr(1, "x-z"))
		}
		m.Setup[name] = vals
		mm.dims = append(mm.dims, name)
		mm.vals = append(mm.vals, vals)
	}
	na := vpInt(0, adjs)
	for i := 0; i < na; i++ {
		w := vpMkTuple(nd)
		adj := &MatrixAdjustment{With: MatrixAdjustmentWith(w.asMap())}
		sk := vpInt(0, 3)
		switch sk {
		case 1:
			adj.Skip = false
		case 2:
			adj.Skip = true
		case 3:
			adj.Skip = "reason"
		}
		m.Adjustments = append(m.Adjustments, adj)
		mm.adjs = append(mm.adjs, vpAdjSpec{with: w, skip: sk})
	}
	return m, mm
}

func (mm vpMatrixModel) dimIndex(name string) int {
	for i, d := range mm.dims {
		if d == name {
			return i
		}
	}
	return -1
}

func (mm vpMatrixModel) sameDims(t vpTuple) bool {
	if len(t.names) != len(mm.dims) {
		return false
	}
	for _, n := range t.names {
		if mm.dimIndex(n) < 0 {
			return false
		}
	}
	return true
}

func vpTupleEq(a, b vpTuple) bool {
	if len(a.names) != len(b.names) {
		return false
	}
	for i, n := range a.names {
		w, ok := b.get(n)
		if !ok || w != a.vals[i] {
			return false
		}
	}
	return true
}

// vpMatrixSpec is the property sentence: accepted exactly when the
// permutation names each dimension once and is a combination of the setup
// values or equals some adjustment's tuple, no adjustment with that tuple is
// marked skip, and no adjustment is malformed.
func vpMatrixSpec(mm vpMatrixModel, p vpTuple) bool {
	if mm.isNil {
		return len(p.names) == 0
	}
	if !mm.sameDims(p) {
		return false
	}
	for _, a := range mm.adjs {
		if !mm.sameDims(a.with) {
			return false
		}
	}
	base := true
	for i, d := range p.names {
		found := false
		for _, x := range mm.vals[mm.dimIndex(d)] {
			if x == p.vals[i] {
				found = true
			}
		}
		if !found {
			base = false
		}
	}
	isAdj, skipped := false, false
	for _, a := range mm.adjs {
		if vpTupleEq(a.with, p) {
			isAdj = true
			if a.skip >= 2 {
				skipped = true
			}
		}
	}
	return (base || isAdj) && !skipped
}

func vpH_c11_validate() {
	dims, nadj := vpParam("dims"), vpParam("adjs")
	m, mm := vpMkMatrix(dims, nadj)
	p := vpMkTuple(len(mm.dims))
	want := vpMatrixSpec(mm, p)
	err := m.validatePermutation(MatrixPermutation(p.asMap()))
	if want {
		vpAssert(err == nil, "a permutation the specification accepts is accepted")
	} else {
		vpAssert(err != nil, "a permutation the specification rejects is rejected")
	}
	for i, a := range mm.adjs {
		vpAssert(m.Adjustments[i].ShouldSkip() == (a.skip >= 2), "skip is truthy exactly for true and non-bool non-nil values")
	}
}

// A rejected permutation leaves the step unmodified; an accepted non-empty
// one is applied.
func vpH_c11_step() {
	dims, nadj := vpParam("dims"), vpParam("adjs")
	m, mm := vpMkMatrix(dims, nadj)
	p := vpMkTuple(len(mm.dims))
	want := vpMatrixSpec(mm, p)
	// with tokens (their interpolation can fail on its own) or without (then a
	// rejection can only come from validation)
	cmd, label, envv, src, cfgv := "run {{matrix}}", "l {{matrix.a}}", "{{matrix.b}}", "p#{{matrix}}", "{{matrix.a}}"
	plain := vpBool()
	if plain {
		cmd, label, envv, src, cfgv = "run", "l", "v", "p#v1", "c"
	}
	step := &CommandStep{
		Command: cmd,
		Label:   label,
		Key:     "k",
		Env:     map[string]string{"E": envv},
		Plugins: Plugins{{Source: src, Config: map[string]any{"c": cfgv}}},
		Matrix:  m,
	}
	err := step.InterpolateMatrixPermutation(MatrixPermutation(p.asMap()))
	if !want {
		vpAssert(err != nil, "step: a permutation the specification rejects is rejected")
		vpAssert(step.Command == cmd && step.Label == label && step.Key == "k", "step: rejected permutation leaves command, label, key unmodified")
		vpAssert(len(step.Env) == 1 && step.Env["E"] == envv, "step: rejected permutation leaves env unmodified")
		cfg, _ := step.Plugins[0].Config.(map[string]any)
		vpAssert(step.Plugins[0].Source == src && len(cfg) == 1 && cfg["c"] == any(cfgv), "step: rejected permutation leaves plugins unmodified")
		vpAssert(step.Matrix == m, "step: rejected permutation leaves the matrix pointer unmodified")
		return
	}
	// accepted: either every token's dimension exists (applied) or the call
	// reports unknown tokens; with an empty permutation nothing changes
	if plain {
		vpAssert(err == nil && step.Command == cmd && step.Label == label, "step: a permutation the specification accepts is applied without error to a step without tokens, and changes nothing")
	}
	if len(p.names) == 0 {
		vpAssert(err == nil && step.Command == cmd, "step: empty accepted permutation changes nothing")
	}
}

// Tuple equality is per dimension: values built from the characters the code
// itself uses as constants (separators of any internal encoding included)
// must not make two different tuples look equal.
func vpH_c11_tuple() {
	class := "ab0-2" + vpConstChars("*step_command_matrix.go")
	lens := [][2]int{{1, 1}, {1, vpParam("long")}, {vpParam("long"), 1}}
	lp := lens[vpInt(0, 2)]
	la := lens[vpInt(0, 2)]
	p1, p2 := vpStr(lp[0], class), vpStr(lp[1], class)
	w1, w2 := vpStr(la[0], class), vpStr(la[1], class)
	skip := vpBool()
	m := &Matrix{
		Setup:       MatrixSetup{"a": {}, "b": {}},
		Adjustments: MatrixAdjustments{{With: MatrixAdjustmentWith{"a": w1, "b": w2}, Skip: skip}},
	}
	err := m.validatePermutation(MatrixPermutation{"a": p1, "b": p2})
	same := p1 == w1 && p2 == w2
	if same && !skip {
		vpAssert(err == nil, "a permutation equal to a non-skipped adjustment tuple is accepted")
	} else {
		vpAssert(err != nil, "a permutation that differs from the adjustment tuple in some dimension (and is no setup combination) is rejected")
	}
}

// Every kind of skip value, with the string symbolic: absent and false do not
// skip; true, any string (whatever it spells) and any other value do.
func vpH_c11_skip() {
	var skip any
	want := true
	switch vpInt(0, 6) {
	case 0:
		skip, want = nil, false
	case 1:
		skip, want = false, false
	case 2:
		skip = true
	case 3:
		skip = vpStrUpTo(5, " -~")
	case 4:
		skip = 0
	case 5:
		skip = 1.5
	case 6:
		skip = []any{}
	}
	adj := &MatrixAdjustment{With: MatrixAdjustmentWith{"a": "x"}, Skip: skip}
	vpAssert(adj.ShouldSkip() == want, "skip is falsy exactly for absent and false; true, every string and every other value skip")
	m := &Matrix{Setup: MatrixSetup{"a": {"y"}}, Adjustments: MatrixAdjustments{adj}}
	err := m.validatePermutation(MatrixPermutation{"a": "x"})
	vpAssert((err == nil) == !want, "a permutation equal to an adjustment tuple is accepted exactly when that adjustment does not skip")
	// a setup combination that a skip-marked adjustment repeats is rejected too
	m2 := &Matrix{Setup: MatrixSetup{"a": {"x"}}, Adjustments: MatrixAdjustments{adj}}
	err2 := m2.validatePermutation(MatrixPermutation{"a": "x"})
	vpAssert((err2 == nil) == !want, "a setup combination is accepted exactly when no adjustment with that tuple skips")
}

// Validation is a pure question: whatever the verdict, the matrix is left as
// it was (value lists in their order, also when their backing arrays have
// spare capacity), and asking again gives the same verdict.
func vpH_c11_frame() {
	v1, v2, v3 := vpStr(1, "a-c"), vpStr(1, "a-c"), vpStr(1, "a-c")
	vals := make([]string, 0, 4) // spare capacity, as lists built with append have
	vals = append(vals, v1, v2)
	m := &Matrix{Setup: MatrixSetup{"os": vals, "arch": {"x"}}}
	withAdj, skip := vpBool(), vpBool()
	if withAdj {
		m.Adjustments = MatrixAdjustments{{With: MatrixAdjustmentWith{"os": v3, "arch": "y"}, Skip: skip}}
	}
	p := MatrixPermutation{"os": vpStr(1, "a-c"), "arch": vpStr(1, "x-y")}
	err1 := m.validatePermutation(p)
	os := m.Setup["os"]
	vpAssert(len(m.Setup) == 2 && len(os) == 2 && os[0] == v1 && os[1] == v2 && len(m.Setup["arch"]) == 1 && m.Setup["arch"][0] == "x", "validation leaves the setup lists as they were (content and order), whatever the verdict")
	vpAssert(len(vals) == 2 && vals[:4][2] == "" && vals[:4][3] == "", "validation does not write into the spare capacity of a setup list")
	if len(m.Adjustments) == 1 {
		vpAssert(len(m.Adjustments[0].With) == 2 && m.Adjustments[0].With["os"] == v3 && m.Adjustments[0].With["arch"] == "y", "validation leaves the adjustments as they were")
	}
	err2 := m.validatePermutation(p)
	vpAssert((err1 == nil) == (err2 == nil), "asking again gives the same verdict")
}

// The matrix as it is written: every spelling of the setup (a bare list, a
// list under `setup`, named dimensions under `setup`, `setup: {}` / null) with
// value lists of 0..2 values - the empty list included, where every value
// comes from an adjustment - and an optional adjustment written as a scalar
// or as a map. Parsed through the real unmarshaller, the matrix accepts
// exactly what the specification sentence accepts for what was written.
func vpH_c11_parsed() {
	var mm vpMatrixModel
	var tree any
	nv := vpInt(0, 2)
	vals := make([]string, 0, nv)
	list := make([]any, 0, nv)
	for i := 0; i < nv; i++ {
		v := vpStr(1, "x-z")
		vals = append(vals, v)
		list = append(list, v)
	}
	spelling := vpInt(0, 4)
	var setup any
	dim := ""
	switch spelling {
	case 0: // matrix: [..]
		tree = list
		mm.dims, mm.vals = []string{""}, [][]string{vals}
	case 1: // setup: [..]
		setup = list
		mm.dims, mm.vals = []string{""}, [][]string{vals}
	case 2: // setup: {d: [..]}
		dim = vpStr(1, "a-b")
		setup = ordered.MapFromItems(ordered.TupleSA{Key: dim, Value: list})
		mm.dims, mm.vals = []string{dim}, [][]string{vals}
	case 3: // setup: {}
		vpAssume(nv == 0)
		setup = ordered.NewMap[string, any](0)
	case 4: // setup: null
		vpAssume(nv == 0)
		setup = nil
	}
	if spelling != 0 {
		m := ordered.MapFromItems(ordered.TupleSA{Key: "setup", Value: setup})
		if vpBool() {
			av := vpStr(1, "x-z")
			var with any
			w := vpTuple{}
			switch vpInt(0, 2) {
			case 0: // with: v - the anonymous dimension
				with = av
				w = vpTuple{names: []string{""}, vals: []string{av}}
			case 1: // with: {d: v}
				wd := vpStrUpTo(1, "a-b")
				with = ordered.MapFromItems(ordered.TupleSA{Key: wd, Value: av})
				w = vpTuple{names: []string{wd}, vals: []string{av}}
			case 2: // with: {}
				with = ordered.NewMap[string, any](0)
			}
			adj := ordered.MapFromItems(ordered.TupleSA{Key: "with", Value: with})
			sk := vpInt(0, 2)
			switch sk {
			case 1:
				adj.Set("skip", false)
			case 2:
				adj.Set("skip", true)
			}
			m.Set("adjustments", []any{adj})
			mm.adjs = append(mm.adjs, vpAdjSpec{with: w, skip: sk})
		}
		tree = m
	}
	var mx Matrix
	err := ordered.Unmarshal(tree, &mx)
	vpAssert(err == nil, "every spelling of a matrix parses")
	var p vpTuple
	if vpBool() {
		p = vpTuple{names: []string{vpStrUpTo(1, "a-b")}, vals: []string{vpStr(1, "x-z")}}
	}
	verr := mx.validatePermutation(MatrixPermutation(p.asMap()))
	vpAssert((verr == nil) == vpMatrixSpec(mm, p), "a parsed matrix accepts exactly the permutations the specification allows for what was written (empty value lists and the anonymous dimension included)")
	if spelling == 1 && nv == 0 && verr == nil && len(p.names) == 1 {
		vpCover("setup: [] with an accepted adjustment tuple")
	}
}

// The empty string is a value like any other - in a permutation, in an
// adjustment, in a setup list - and never stands for "no value" or "no such
// dimension": two fixed dimensions, one adjustment, a permutation of one to
// three entries whose names may be unknown and whose values may be empty.
func vpH_c11_empty() {
	val := func() string { return vpStrUpTo(1, "x-y") }
	mm := vpMatrixModel{dims: []string{"a", "b"}, vals: [][]string{{"x"}, {"y", val()}}}
	m := &Matrix{Setup: MatrixSetup{"a": mm.vals[0], "b": mm.vals[1]}}
	if vpBool() {
		w := vpTuple{names: []string{"a", "b"}, vals: []string{val(), val()}}
		sk := 0
		adj := &MatrixAdjustment{With: MatrixAdjustmentWith(w.asMap())}
		if vpBool() {
			sk, adj.Skip = 2, true
		}
		m.Adjustments = MatrixAdjustments{adj}
		mm.adjs = []vpAdjSpec{{with: w, skip: sk}}
	}
	var p vpTuple
	n := vpInt(1, 3)
	for i := 0; i < n; i++ {
		name := vpStr(1, "a-c")
		_, dup := p.get(name)
		vpAssume(!dup)
		p.names = append(p.names, name)
		p.vals = append(p.vals, val())
	}
	err := m.validatePermutation(MatrixPermutation(p.asMap()))
	vpAssert((err == nil) == vpMatrixSpec(mm, p), "with empty strings among the values, a permutation is accepted exactly when the specification accepts it")
}

// The verdict does not depend on what was done to the step before: a matrix
// with a dimension that has no value list (`arch: null`) - and one with an
// empty one - gives the same answer whether or not the step was marshalled
// (to JSON, to YAML) first, and marshalling leaves the matrix as it was.
func vpH_c11_marshalled() {
	withAdj, skip := vpBool(), vpBool()
	emptyList := vpBool()
	mk := func() *CommandStep {
		mm := &Matrix{Setup: MatrixSetup{"os": {"a", "b"}, "arch": nil}}
		if emptyList {
			mm.Setup["arch"] = []string{}
		}
		if withAdj {
			mm.Adjustments = MatrixAdjustments{{With: MatrixAdjustmentWith{"os": "c", "arch": "y"}, Skip: skip}}
		}
		return &CommandStep{Command: "c", Matrix: mm}
	}
	p := MatrixPermutation{"os": []string{"a", "c", "z"}[vpInt(0, 2)], "arch": []string{"y", "x"}[vpInt(0, 1)]}
	fresh, seen := mk(), mk()
	snap := vpSnapshot(seen)
	var merr error
	if vpBool() {
		_, merr = json.Marshal(seen)
	} else {
		_, merr = yaml.Marshal(seen)
	}
	vpAssert(merr == nil && vpUnchanged(seen, snap), "marshalling a step leaves its matrix as it was (a dimension without a value list stays without one)")
	ef, es := fresh.Matrix.validatePermutation(p), seen.Matrix.validatePermutation(p)
	vpAssert((ef == nil) == (es == nil), "the verdict on a permutation is the same before and after the step was marshalled")
}
