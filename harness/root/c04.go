//go:build verif

package pipeline

import (
	"github.com/buildkite/go-pipeline/internal/env"
	"github.com/buildkite/go-pipeline/ordered"
	"github.com/buildkite/interpolate"
)

// C04 - env interpolation reaches every string exactly once.

func init() {
	vpRegister("c04_positions", vpH_c04_positions)
	vpRegister("c04_walkers", vpH_c04_walkers)
	vpRegister("c04_error", vpH_c04_error)
	vpRegister("c04_transform", vpH_c04_transform)
}

// ---- (b) every string position of every step kind ----

var vpShape int

// vpS is the string placed at the position named tag. Shape 0 is an escaped
// reference ($$A -> $A once, -> x if expanded twice), 1 a plain reference,
// 2 a backslash-escaped one, 3 a literal.
func vpS(tag string) string {
	switch vpShape {
	case 0:
		return tag + "$$A"
	case 1:
		return tag + "$A"
	case 2:
		return tag + "\\$A"
	}
	return tag + "lit"
}

var vpEnvA = vpMapEnv{"A": "x"}

// vpT is the single-pass expansion of the string at position tag.
func vpT(tag string) string {
	r, err := interpolate.Interpolate(vpEnvA, vpS(tag))
	vpAssume(err == nil)
	return r
}

func vpAnyIs(v any, want string) bool {
	s, ok := v.(string)
	return ok && s == want
}

// vpPadKeys adds entries (natively only) whose keys and values interpolation
// leaves unchanged, so that Go's runtime map iteration actually exhibits the
// re-visiting of entries inserted during iteration; the engine explores that
// choice symbolically on the small map.
func vpPadAny(m map[string]any) {
	if vpSymbolic() {
		return
	}
	for i := 0; i < 40; i++ {
		m["vp-pad-"+string(rune('a'+i%26))+string(rune('a'+i/26))] = "p"
	}
}

func vpPadSS(m map[string]string) {
	if vpSymbolic() {
		return
	}
	for i := 0; i < 40; i++ {
		m["vp-pad-"+string(rune('a'+i%26))+string(rune('a'+i/26))] = "p"
	}
}

func vpUnpadLenAny(m map[string]any) int {
	n := 0
	for k := range m {
		if len(k) < 7 || k[:7] != "vp-pad-" {
			n++
		}
	}
	return n
}

func vpUnpadLenSS(m map[string]string) int {
	n := 0
	for k := range m {
		if len(k) < 7 || k[:7] != "vp-pad-" {
			n++
		}
	}
	return n
}

func vpH_c04_positions() {
	vpShape = vpInt(0, 3)
	which := vpInt(0, vpParam("groups")-1) // which group of positions this run populates

	cmdStep := &CommandStep{Command: vpS("cmd")}
	grp := &GroupStep{}
	wait := &WaitStep{}
	input := &InputStep{}
	trig := &TriggerStep{}
	unk := &UnknownStep{}
	p := &Pipeline{}

	switch which {
	case 0: // command step scalars, signature, step env
		cmdStep.Key = vpS("key")
		cmdStep.Label = vpS("label")
		cmdStep.Signature = &Signature{Algorithm: vpS("alg"), SignedFields: []string{vpS("sf")}, Value: vpS("sig")}
		cmdStep.Env = map[string]string{vpS("ek"): vpS("ev")}
		vpPadSS(cmdStep.Env)
	case 1: // plugins with nested config
		cmdStep.Plugins = Plugins{
			{Source: vpS("src1"), Config: map[string]any{vpS("ck"): vpS("cv"), "list": []any{vpS("li"), 7, nil}}},
			{Source: vpS("src2"), Config: nil},
		}
		vpPadAny(cmdStep.Plugins[0].Config.(map[string]any))
	case 2: // matrix
		cmdStep.Matrix = &Matrix{
			Setup: MatrixSetup{vpS("dim"): {vpS("mv1"), vpS("mv2")}},
			Adjustments: MatrixAdjustments{{
				With:            MatrixAdjustmentWith{vpS("wd"): vpS("wv")},
				Skip:            vpS("skip"),
				RemainingFields: map[string]any{vpS("ak"): vpS("av")},
			}},
			RemainingFields: map[string]any{vpS("mk"): vpS("mvx")},
		}
	case 3: // cache
		cmdStep.Cache = &Cache{Name: vpS("cname"), Paths: []string{vpS("cp1"), vpS("cp2")}, Size: vpS("csize"),
			RemainingFields: map[string]any{vpS("cak"): vpS("cav")}}
	case 4: // command step extras incl. ordered maps nested in unknown fields
		om := ordered.NewMap[string, any](1)
		om.Set(vpS("ok"), vpS("ov"))
		cmdStep.RemainingFields = map[string]any{vpS("rk"): vpS("rv"), "nested": om, "strs": []string{vpS("ss")}}
		vpPadAny(cmdStep.RemainingFields)
	case 5: // group
		g := vpS("gname")
		grp.Key = vpS("gkey")
		grp.Group = &g
		grp.Steps = Steps{
			&CommandStep{Command: vpS("gcmd"), Label: vpS("glabel"), Key: vpS("gckey"),
				Env:    map[string]string{vpS("gek"): vpS("gev")},
				Matrix: &Matrix{Setup: MatrixSetup{vpS("gdim"): {vpS("gmv")}}},
				Cache:  &Cache{Name: vpS("gcache"), Paths: []string{vpS("gpath")}}},
			&GroupStep{Key: vpS("ggkey"), Steps: Steps{&WaitStep{Contents: map[string]any{vpS("gwk"): vpS("gwv")}}, &CommandStep{Command: vpS("ggcmd"), Env: map[string]string{"E": vpS("ggev")}}}},
		}
		grp.RemainingFields = map[string]any{vpS("gk"): vpS("gv")}
	case 6: // wait / input / trigger
		wait.Contents = map[string]any{vpS("wk"): vpS("wv")}
		input.Contents = map[string]any{vpS("ik"): vpS("iv"), "fields": []any{map[string]any{vpS("fk"): vpS("fv")}}}
		trig.Contents = map[string]any{vpS("tk"): vpS("tv")}
	case 7: // unknown step and top-level extras
		um := ordered.NewMap[string, any](1)
		um.Set(vpS("uk"), vpS("uv"))
		um.Set("ul", []any{vpS("ui")})
		unk.Contents = um
		p.RemainingFields = map[string]any{vpS("pk"): vpS("pv")}
	}
	unkS := &UnknownStep{Contents: "plain"} // an unrecognised step written as a bare string
	if which == 7 {
		unkS.Contents = vpS("us")
	}
	p.Steps = Steps{cmdStep, grp, wait, input, trig, unk, unkS}
	envMap := map[string]string{"A": "x"}
	prefer := false
	if which == 8 { // the pipeline's own env block, under both precedence settings, its name defined by the caller or not
		p.Env = ordered.MapFromItems(ordered.TupleSS{Key: vpS("pek"), Value: vpS("pev")}, ordered.TupleSS{Key: "Q", Value: "q"})
		prefer = vpBool()
		if vpBool() {
			envMap[vpT("pek")] = "runtime"
		}
	}

	err := p.Interpolate(env.New(env.FromMap(envMap)), prefer)
	vpAssert(err == nil, "interpolating a well-formed pipeline succeeds")
	vpAssert(len(p.Steps) == 7 && p.Steps[0] == Step(cmdStep) && p.Steps[1] == Step(grp), "step list shape unchanged")
	vpAssert(cmdStep.Command == vpT("cmd"), "command is the single-pass expansion")

	switch which {
	case 0:
		vpAssert(cmdStep.Key == vpT("key"), "step key is the single-pass expansion")
		vpAssert(cmdStep.Label == vpT("label"), "label is the single-pass expansion")
		sg := cmdStep.Signature
		vpAssert(sg != nil && sg.Algorithm == vpS("alg") && sg.Value == vpS("sig") && len(sg.SignedFields) == 1 && sg.SignedFields[0] == vpS("sf"), "signature is left untouched")
		vpAssert(vpUnpadLenSS(cmdStep.Env) == 1, "step env keeps its size (renamed key does not leave the old entry behind)")
		v, ok := cmdStep.Env[vpT("ek")]
		vpAssert(ok, "step env name is the single-pass expansion")
		vpAssert(ok && v == vpT("ev"), "step env value is the single-pass expansion")
	case 1:
		vpAssert(len(cmdStep.Plugins) == 2 && cmdStep.Plugins[0].Source == vpT("src1") && cmdStep.Plugins[1].Source == vpT("src2"), "plugin sources are the single-pass expansion")
		cfg, ok := cmdStep.Plugins[0].Config.(map[string]any)
		vpAssert(ok && vpUnpadLenAny(cfg) == 2, "plugin config keeps its shape")
		vpAssert(vpAnyIs(cfg[vpT("ck")], vpT("cv")), "plugin config key and value are the single-pass expansion")
		l, ok := cfg["list"].([]any)
		vpAssert(ok && len(l) == 3 && vpAnyIs(l[0], vpT("li")) && l[1] == any(7) && l[2] == nil, "nested plugin config list: strings expanded, other values unchanged")
		vpAssert(cmdStep.Plugins[1].Config == nil, "nil plugin config stays nil")
	case 2:
		m := cmdStep.Matrix
		vals, ok := m.Setup[vpT("dim")]
		vpAssert(len(m.Setup) == 1 && ok, "matrix dimension name is the single-pass expansion")
		vpAssert(len(vals) == 2 && vals[0] == vpT("mv1") && vals[1] == vpT("mv2"), "matrix setup values are the single-pass expansion")
		a := m.Adjustments[0]
		wv, ok := a.With[vpT("wd")]
		vpAssert(len(a.With) == 1 && ok && wv == vpT("wv"), "adjustment `with` name and value are the single-pass expansion")
		vpAssert(vpAnyIs(a.Skip, vpT("skip")), "adjustment skip string is the single-pass expansion")
		vpAssert(len(a.RemainingFields) == 1 && vpAnyIs(a.RemainingFields[vpT("ak")], vpT("av")), "adjustment extra fields are the single-pass expansion")
		vpAssert(len(m.RemainingFields) == 1 && vpAnyIs(m.RemainingFields[vpT("mk")], vpT("mvx")), "matrix extra fields are the single-pass expansion")
	case 3:
		c := cmdStep.Cache
		vpAssert(c.Name == vpT("cname"), "cache name is the single-pass expansion")
		vpAssert(len(c.Paths) == 2 && c.Paths[0] == vpT("cp1") && c.Paths[1] == vpT("cp2"), "cache paths are the single-pass expansion")
		vpAssert(c.Size == vpT("csize"), "cache size is the single-pass expansion")
		vpAssert(len(c.RemainingFields) == 1 && vpAnyIs(c.RemainingFields[vpT("cak")], vpT("cav")), "cache extra fields are the single-pass expansion")
	case 4:
		rf := cmdStep.RemainingFields
		vpAssert(vpUnpadLenAny(rf) == 3, "unknown fields keep their number")
		vpAssert(vpAnyIs(rf[vpT("rk")], vpT("rv")), "unknown field key and value are the single-pass expansion")
		om, ok := rf["nested"].(*ordered.MapSA)
		vpAssert(ok && om.Len() == 1, "nested ordered map keeps its shape")
		ov, ok := om.Get(vpT("ok"))
		vpAssert(ok && vpAnyIs(ov, vpT("ov")), "nested ordered map key and value are the single-pass expansion")
		ss, ok := rf["strs"].([]string)
		vpAssert(ok && len(ss) == 1 && ss[0] == vpT("ss"), "nested []string is the single-pass expansion")
	case 5:
		vpAssert(grp.Key == vpT("gkey") && grp.Group != nil && *grp.Group == vpT("gname"), "group key and name are the single-pass expansion")
		gc := grp.Steps[0].(*CommandStep)
		vpAssert(gc.Command == vpT("gcmd") && gc.Label == vpT("glabel"), "steps inside groups are expanded once")
		gev, gok := gc.Env[vpT("gek")]
		vpAssert(gc.Key == vpT("gckey") && len(gc.Env) == 1 && gok && gev == vpT("gev"), "key and env (names and values) of a command step inside a group are the single-pass expansion")
		gvals, gmok := gc.Matrix.Setup[vpT("gdim")]
		vpAssert(len(gc.Matrix.Setup) == 1 && gmok && len(gvals) == 1 && gvals[0] == vpT("gmv"), "the matrix of a command step inside a group is the single-pass expansion")
		vpAssert(gc.Cache.Name == vpT("gcache") && len(gc.Cache.Paths) == 1 && gc.Cache.Paths[0] == vpT("gpath"), "the cache settings of a command step inside a group are the single-pass expansion")
		gg := grp.Steps[1].(*GroupStep)
		ggw := gg.Steps[0].(*WaitStep)
		ggc := gg.Steps[1].(*CommandStep)
		vpAssert(gg.Key == vpT("ggkey") && len(ggw.Contents) == 1 && vpAnyIs(ggw.Contents[vpT("gwk")], vpT("gwv")), "groups inside groups are expanded once")
		vpAssert(ggc.Command == vpT("ggcmd") && ggc.Env["E"] == vpT("ggev"), "command steps two groups deep are expanded once (env included)")
		vpAssert(len(grp.RemainingFields) == 1 && vpAnyIs(grp.RemainingFields[vpT("gk")], vpT("gv")), "group extra fields are the single-pass expansion")
	case 6:
		vpAssert(len(wait.Contents) == 1 && vpAnyIs(wait.Contents[vpT("wk")], vpT("wv")), "wait step contents are the single-pass expansion")
		vpAssert(len(input.Contents) == 2 && vpAnyIs(input.Contents[vpT("ik")], vpT("iv")), "input step contents are the single-pass expansion")
		fl, ok := input.Contents["fields"].([]any)
		vpAssert(ok && len(fl) == 1, "input step nested list keeps its shape")
		fm, ok := fl[0].(map[string]any)
		vpAssert(ok && len(fm) == 1 && vpAnyIs(fm[vpT("fk")], vpT("fv")), "input step nested map is the single-pass expansion")
		vpAssert(len(trig.Contents) == 1 && vpAnyIs(trig.Contents[vpT("tk")], vpT("tv")), "trigger step contents are the single-pass expansion")
	case 7:
		um, ok := unk.Contents.(*ordered.MapSA)
		vpAssert(ok && um.Len() == 2, "unknown step keeps its shape")
		uv, ok := um.Get(vpT("uk"))
		vpAssert(ok && vpAnyIs(uv, vpT("uv")), "unknown step key and value are the single-pass expansion")
		ul, _ := um.Get("ul")
		ull, ok := ul.([]any)
		vpAssert(ok && len(ull) == 1 && vpAnyIs(ull[0], vpT("ui")), "unknown step nested list is the single-pass expansion")
		vpAssert(len(p.RemainingFields) == 1 && vpAnyIs(p.RemainingFields[vpT("pk")], vpT("pv")), "top-level extras are the single-pass expansion")
		vpAssert(vpAnyIs(unkS.Contents, vpT("us")), "an unknown step written as a bare string is the single-pass expansion")
	case 8:
		v, ok := p.Env.Get(vpT("pek"))
		vpAssert(p.Env.Len() == 2 && ok, "env block name is the single-pass expansion, whoever wins precedence")
		vpAssert(ok && v == vpT("pev"), "env block value is the single-pass expansion, whoever wins precedence")
	}
}

// ---- (c) an expansion error is reported ----

// The env transformer itself: on every string it is the single-pass expansion
// and nothing else - no pre-filter, fast path or post-processing that treats
// some shape of string (escapes, a trailing `$`, braces) differently.
func vpH_c04_transform() {
	s := vpStrUpTo(vpParam("len"), "Ax$\\\\{}(")
	val := vpStrUpTo(1, "x$")
	envm := vpMapEnv{"A": val}
	want, werr := interpolate.Interpolate(envm, s)
	got, gerr := envInterpolator{env: envm}.Transform(s)
	vpAssert((gerr == nil) == (werr == nil), "the env transformer fails exactly when the single-pass expansion fails")
	if gerr == nil && werr == nil {
		vpAssert(got == want, "the env transformer returns exactly the single-pass expansion of the string")
	}
}

func vpH_c04_error() {
	bad := "${A" // unterminated brace expansion: the library reports an error
	ok := "fine $$X"
	cmdStep := &CommandStep{
		Command: ok, Label: ok, Key: "k",
		Env: map[string]string{"E": ok},
		Plugins: Plugins{
			{Source: "bare#v1"},
			{Source: "cfg#v1", Config: map[string]any{"k": []any{ok}}},
			{Source: "scalar#v1", Config: ok},
		},
		Matrix:          &Matrix{Setup: MatrixSetup{"os": {ok}}, Adjustments: MatrixAdjustments{{With: MatrixAdjustmentWith{"os": ok}, RemainingFields: map[string]any{"soft_fail": ok}}}, RemainingFields: map[string]any{"m": ok}},
		Cache:           &Cache{Paths: []string{ok}, RemainingFields: map[string]any{"c": ok}},
		RemainingFields: map[string]any{"r": ok},
	}
	wait := &WaitStep{Contents: map[string]any{"wait": ok}}
	input := &InputStep{Contents: map[string]any{"block": ok}}
	trigger := &TriggerStep{Contents: map[string]any{"trigger": ok}}
	grp := &GroupStep{RemainingFields: map[string]any{"g": ok}, Steps: Steps{&WaitStep{Contents: map[string]any{"k": ok}}}}
	unk := &UnknownStep{Contents: map[string]any{"u": ok}}
	p := &Pipeline{Steps: Steps{cmdStep, wait, input, trigger, grp, unk}, RemainingFields: map[string]any{"x": ok}}
	p.Env = ordered.NewMap[string, string](1)
	p.Env.Set("P", ok)
	where := vpInt(0, 26)
	switch where {
	case 0:
		cmdStep.Command = bad
	case 1:
		cmdStep.Env["E"] = bad
	case 2:
		cmdStep.Plugins[1].Config = map[string]any{"k": []any{ok, bad}}
	case 3:
		p.RemainingFields = map[string]any{bad: "v"}
	case 4:
		grp.Steps = Steps{&WaitStep{Contents: map[string]any{"k": bad}}}
	case 5:
		cmdStep.Label = bad
	case 6:
		cmdStep.Plugins[0].Source = "bare-" + bad
	case 7: // a failing source next to a config that expands fine
		cmdStep.Plugins[1].Source = "cfg-" + bad
	case 8:
		cmdStep.Plugins[2].Source = "scalar-" + bad
	case 9:
		cmdStep.Plugins[2].Config = bad
	case 10:
		cmdStep.Plugins[1].Config = map[string]any{bad: "v", "k": ok}
	case 11:
		cmdStep.Matrix.Setup["os"] = []string{ok, bad}
	case 12:
		cmdStep.Matrix.Adjustments[0].With["os"] = bad
	case 13:
		cmdStep.Matrix.Adjustments[0].RemainingFields["soft_fail"] = bad
	case 14:
		cmdStep.Matrix.RemainingFields["m"] = bad
	case 15:
		cmdStep.Cache.Paths = []string{ok, bad}
	case 16:
		cmdStep.Cache.RemainingFields["c"] = bad
	case 17:
		cmdStep.RemainingFields["r"] = bad
	case 18:
		cmdStep.RemainingFields = map[string]any{bad: "v", "r": ok}
	case 19:
		wait.Contents["wait"] = bad
	case 20:
		input.Contents["block"] = bad
	case 21:
		trigger.Contents = map[string]any{"trigger": ok, bad: "v"}
	case 22:
		grp.RemainingFields["g"] = bad
	case 23:
		unk.Contents = map[string]any{"u": []any{ok, bad}}
	case 24:
		p.Env.Set("P", bad)
	case 25:
		p.Env.Set(bad, "v")
	case 26:
		p.RemainingFields["x"] = map[string]any{"deep": []any{ok, map[string]any{"d": bad}}}
	}
	err := p.Interpolate(env.New(), false)
	vpAssert(err != nil, "a failing expansion makes the call report an error, at whichever position it stands and whatever expands fine next to it")
}

// ---- (a) the generic walkers on arbitrary small trees ----

// vpMarkTF appends a marker byte: injective and not idempotent, so zero, one
// and two applications are all distinguishable.
type vpMarkTF struct{}

func (vpMarkTF) Transform(s string) (string, error) { return s + "!", nil }

// vpShiftTF moves every byte to its successor: injective and not idempotent
// like the marker, but its renames chain - the image of one key can be the
// original spelling of another key of the same map.
type vpShiftTF struct{}

func (vpShiftTF) Transform(s string) (string, error) { return vpShift(s), nil }

func vpShift(s string) string {
	out := ""
	for i := 0; i < len(s); i++ {
		out += string(rune(s[i] + 1))
	}
	return out
}

var vpUseShift bool

// vpTF is the expected image of one string under the transformer in use.
func vpTF(s string) string {
	if vpUseShift {
		return vpShift(s)
	}
	return s + "!"
}

// vpGen builds a value and, independently, its expected image under T.
// vpGenKey: a map key - a symbolic short string, or one of the string
// constants that occur in the walkers' own code (none on a tree whose walkers
// treat no key specially).
func vpGenKey() string {
	if w := vpStrConstOr("*interpolate.go", ""); w != "" {
		return w
	}
	return vpStrUpTo(1, "a-b")
}

func vpGen(depth int) (val, want any) {
	maxKind := 3
	if depth > 0 {
		maxKind = 10
	}
	switch vpInt(0, maxKind) {
	case 0:
		s := vpStrUpTo(1, "a-b")
		return s, vpTF(s)
	case 1:
		return 5, 5
	case 2:
		return true, true
	case 3:
		return nil, nil
	case 4: // []any
		n := vpInt(0, vpParam("fan"))
		v, w := make([]any, 0, n), make([]any, 0, n)
		for i := 0; i < n; i++ {
			cv, cw := vpGen(depth - 1)
			v, w = append(v, cv), append(w, cw)
		}
		return v, w
	case 5: // []string
		n := vpInt(0, vpParam("fan"))
		v, w := make([]string, 0, n), make([]string, 0, n)
		for i := 0; i < n; i++ {
			s := vpStrUpTo(1, "a-b")
			v, w = append(v, s), append(w, vpTF(s))
		}
		return v, w
	case 6: // map[string]any
		n := vpInt(0, vpParam("fan"))
		v, w := map[string]any{}, map[string]any{}
		var keys []string
		for i := 0; i < n; i++ {
			k := vpGenKey()
			for _, o := range keys {
				vpAssume(o != k)
			}
			keys = append(keys, k)
			cv, cw := vpGen(depth - 1)
			v[k], w[vpTF(k)] = cv, cw
		}
		if !vpSymbolic() && n > 0 {
			// natively only: enough entries for Go's runtime to re-visit entries inserted during iteration
			for i := 0; i < 40; i++ {
				pk := "vp-pad-" + string(rune('a'+i%26)) + string(rune('a'+i/26))
				v[pk], w[vpTF(pk)] = "p", vpTF("p")
			}
		}
		return v, w
	case 7: // map[string]string
		n := vpInt(0, vpParam("fan"))
		v, w := map[string]string{}, map[string]string{}
		var keys []string
		for i := 0; i < n; i++ {
			k := vpStrUpTo(1, "a-b")
			for _, o := range keys {
				vpAssume(o != k)
			}
			keys = append(keys, k)
			s := vpStrUpTo(1, "a-b")
			v[k], w[vpTF(k)] = s, vpTF(s)
		}
		if !vpSymbolic() && n > 0 {
			for i := 0; i < 40; i++ {
				pk := "vp-pad-" + string(rune('a'+i%26)) + string(rune('a'+i/26))
				v[pk], w[vpTF(pk)] = "p", vpTF("p")
			}
		}
		return v, w
	case 8: // *ordered.MapSA
		n := vpInt(0, vpParam("fan"))
		v, w := ordered.NewMap[string, any](n), ordered.NewMap[string, any](n)
		for i := 0; i < n; i++ {
			k := vpGenKey()
			vpAssume(!v.Contains(k))
			cv, cw := vpGen(depth - 1)
			v.Set(k, cv)
			w.Set(vpTF(k), cw)
		}
		return v, w
	case 9: // *ordered.MapSS
		n := vpInt(0, vpParam("fan"))
		v, w := ordered.NewMap[string, string](n), ordered.NewMap[string, string](n)
		for i := 0; i < n; i++ {
			k := vpStrUpTo(1, "a-b")
			vpAssume(!v.Contains(k))
			s := vpStrUpTo(1, "a-b")
			v.Set(k, s)
			w.Set(vpTF(k), vpTF(s))
		}
		return v, w
	default: // *Plugin (a selfInterpolater)
		s := vpStrUpTo(1, "a-b")
		cv, cw := vpGen(depth - 1)
		return &Plugin{Source: s, Config: cv}, &Plugin{Source: vpTF(s), Config: cw}
	}
}

// vpDeepEq compares two generated trees structurally (no map ranging on the
// oracle side beyond lookups by the expected keys).
func vpDeepEq(got, want any) bool {
	switch w := want.(type) {
	case nil:
		return got == nil
	case string:
		g, ok := got.(string)
		return ok && g == w
	case int:
		g, ok := got.(int)
		return ok && g == w
	case bool:
		g, ok := got.(bool)
		return ok && g == w
	case []any:
		g, ok := got.([]any)
		if !ok || len(g) != len(w) {
			return false
		}
		for i := range w {
			if !vpDeepEq(g[i], w[i]) {
				return false
			}
		}
		return true
	case []string:
		g, ok := got.([]string)
		if !ok || len(g) != len(w) {
			return false
		}
		for i := range w {
			if g[i] != w[i] {
				return false
			}
		}
		return true
	case map[string]any:
		g, ok := got.(map[string]any)
		if !ok || len(g) != len(w) {
			return false
		}
		for k, wv := range w {
			gv, has := g[k]
			if !has || !vpDeepEq(gv, wv) {
				return false
			}
		}
		return true
	case map[string]string:
		g, ok := got.(map[string]string)
		if !ok || len(g) != len(w) {
			return false
		}
		for k, wv := range w {
			gv, has := g[k]
			if !has || gv != wv {
				return false
			}
		}
		return true
	case *ordered.MapSA:
		g, ok := got.(*ordered.MapSA)
		if !ok || g.Len() != w.Len() {
			return false
		}
		var gk []string
		var gv []any
		g.Range(func(k string, v any) error { gk, gv = append(gk, k), append(gv, v); return nil })
		i, same := 0, true
		w.Range(func(k string, v any) error {
			if i >= len(gk) || gk[i] != k || !vpDeepEq(gv[i], v) {
				same = false
			}
			i++
			return nil
		})
		return same
	case *ordered.MapSS:
		g, ok := got.(*ordered.MapSS)
		return ok && ordered.Equal(g, w)
	case *Plugin:
		g, ok := got.(*Plugin)
		return ok && g.Source == w.Source && vpDeepEq(g.Config, w.Config)
	}
	return false
}

func vpH_c04_walkers() {
	vpUseShift = vpBool()
	val, want := vpGen(vpParam("depth"))
	var tf stringTransformer = vpMarkTF{}
	if vpUseShift {
		tf = vpShiftTF{}
	}
	got, err := interpolateAny[any](tf, val)
	vpAssert(err == nil, "walker: no error from an error-free transformer")
	vpAssert(vpDeepEq(got, want), "walker: every string (keys and values) transformed exactly once, shape and order unchanged")
}
